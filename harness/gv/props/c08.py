"""C08 — long-running methods return futures typed by google.longrunning.operation_info."""
import ast, base64, importlib, json, os, re
from .. import env, coq, gen, apigen, dyn
from ..apigen import File

RULE = ("micro APIs over a grid: (response-type form) x (metadata-type form) with forms {relative | fully-qualified} x "
        "{same file | other file imported by the service's file | other file NOT imported, listed before or after the service's file}, "
        "google.protobuf.Empty (imported by the service's file or only by another file), nested (qualified, package-relative, and "
        "package-relative while a top-level package of the same name exists, package-relative with the enclosing message in "
        "another file, imported or not), a dependency file (struct.proto, another package) imported only by a LATER API file, a file imported transitively, three "
        "request orders of the API files (types before / between / after the service's file), a type in a proto sub-package of the API (its file imported / not imported by the service's file), "
        "a type alone in a file of its own that nobody imports and no other method uses, flattened request fields named like the api_core modules (operation, operation_async), "
        "a second long-running rpc sharing the response type with another metadata type, "
        "the asyncio REST transport (rest_async_io_enabled; packages v2 / v1beta1; with and without Operations http rules), "
        "service-YAML http rules for the operations service with additional bindings (operation names matching each binding in turn), "
        "selective generation in omit mode keeping only the LRO rpcs (response / metadata on either side of the package boundary, "
        "the metadata message referenced by nothing else), selective generation with generate_omitted_as_internal (every LRO rpc internal; one internal and one public), "
        "another package, missing, unknown (relative, qualified, leading dot), plus un-annotated Operation methods, three packages. "
        "Schema level: every sampled grid cell is decided by the real API.build and by the model (T2). End to end: a slice of the "
        "cells is generated, the emitted from_gapic arguments and operations-client properties are read with ast (T1), and the "
        "emitted sync / asyncio / REST clients are driven against loopback servers with scripted histories "
        "not-done^k . done(response | error), k in 0..3, also an initial reply that is already done. "
        "A case is one (API cell, transport, history) or one (API cell) decision; distinct = distinct canonical JSON; "
        "non-trivial = the method returns google.longrunning.Operation.")
TRUSTED = [
    "Model/Lro.v: hand-written model of _maybe_get_lro, Address.resolve, the api_messages lookup of the second build pass, "
    "the emitted from_gapic wrapping and operations_client property; _resolve_lro_type (as written first, then package-relative)",
    "contract (Model/Lro.v run_future): google.api_core.operation.Operation / operation_async.AsyncOperation poll GetOperation while "
    "the snapshot is not done, then unpack response with protobuf_helpers.from_any_pb / raise from_grpc_status; metadata likewise "
    "(validated on every run by T2 against the installed api_core through the emitted clients)",
    "harness: descriptor -> model translation (files, packages, nested message names), ast reader of emitted clients/transports/types "
    "modules, impl/c08_schema.py, impl/drive.py loopback servers, apigen + DescriptorPool as validity judge",
]
ASSUMES = ["type names in operation_info are ASCII; the server packs the types the API declares (histories with another type are "
           "compared model-vs-implementation only)",
           "messages of generated packages are proto-plus classes named <package>.types.<file>.<Message>; others are protobuf classes"]

PACKAGES = [("google.example.lro.v1", "google.example.lro_v1"), ("acme.jobs.v2", "acme.jobs_v2"),
            ("google.cloud.batchy.v1beta1", "google.cloud.batchy_v1beta1")]
SHARED_PKG = "google.example.shared.v1"
OP_NAME = "projects/p/operations/op-1"
OPERATION = ".google.longrunning.Operation"
GET_OP = "/google.longrunning.Operations/GetOperation"

VALID = ["rel_same", "fq_same", "rel_imported", "fq_imported", "rel_notimported", "fq_notimported", "empty", "empty_elsewhere",
         "fq_nested", "fq_otherpkg", "rel_nested", "rel_nested_imported", "rel_nested_notimported"]
# where the defining file sits relative to the service's file in the request (protoc lists a file after everything it imports,
# in command-line order): a DEPENDENCY file imported only by a later API file comes after the service's file; a file reached
# through an import of an import comes before it
VALID += ["struct_elsewhere", "struct_transitive", "rel_transitive", "fq_transitive"]
# a DEPENDENCY package whose first component has an upper-case letter and whose inner components are mixed-case (legal protobuf):
# the fully-qualified name must still be read as written
VALID += ["fq_upper_pkg"]
VALID += ["rel_alone", "fq_alone"]   # the type sits alone in a file of its own that nobody imports and no other method touches
# the type lives in a proto SUB-package of the API (<pkg>.common), in a file the service's file imports / does not import;
# named fully qualified, or relative to the rpc's package (common.X, which the package-relative fallback resolves)
VALID += ["fq_subpkg_imported", "fq_subpkg_notimported", "rel_subpkg_notimported"]
GEN_ONLY = ["rel_nested_shadowed"]   # both readings of the dotted name exist: decision compared model-vs-code only
QUIRK = ["rel_nested", "rel_nested_imported", "rel_nested_notimported"]               # former finding lro.nested_relative_type (fixed): a regression carries that signature
MISSING = ["missing"]
UNKNOWN = ["unknown_rel", "unknown_fq", "leading_dot", "rel_empty"]
ALL_KINDS = VALID + GEN_ONLY + QUIRK + MISSING + UNKNOWN


# flattened request fields named like the api_core modules the emitted client imports
FLAT = {"operation": ["operation"], "operation_async": ["operation_async"], "both": ["operation", "operation_async"]}

# base names for the API's own proto file that holds the operation_info types ("Other*" messages): the names of the modules the
# emitted client imports on the LRO path (google.api_core.operation / operation_async / operations_v1 / gapic_v1,
# google.longrunning.operations_pb2, google.protobuf.empty_pb2): the two modules of one name must be told apart by aliases
CLASH_NAMES = ["operation", "operation_async", "operations", "operations_pb2", "operations_v1", "empty", "gapic_v1"]
# the API's own <x>_pb2.proto beside the dependency <x>.proto it really uses: finding lro.own_file_named_like_used_pb2_module
PB2_CLASH_SIG = "lro.own_file_named_like_used_pb2_module"


def registered(signature):
    """the finding is listed in findings/known_findings.json (known or fixed): its inputs join the run; until then they are only
    in scratch/findings and the unchanged tree stays quiet"""
    try:
        listed = json.load(open(os.path.join(env.VERIF, "findings", "known_findings.json")))
    except FileNotFoundError:
        return False
    return any(f.get("property") == "C08" and f.get("signature") == signature for f in listed)


def pb2_clash(cell):
    """the cell is in the class of finding PB2_CLASH_SIG: the API's own file is named empty_pb2.proto, holds an operation_info
    type and the other operation_info type is google.protobuf.Empty"""
    return bool(cell.get("annotated") and cell.get("types_name") == "empty_pb2"
                and {cell["resp"], cell["meta"]} & {"empty", "empty_elsewhere"}
                and {cell["resp"], cell["meta"]} & {"rel_notimported", "fq_notimported", "rel_nested_notimported"})


def annotation(kind, pkg, S):
    return {
        "rel_same": f"Local{S}", "fq_same": f"{pkg}.Local{S}",
        "rel_imported": f"Imp{S}", "fq_imported": f"{pkg}.Imp{S}",
        "rel_notimported": f"Other{S}", "fq_notimported": f"{pkg}.Other{S}",
        "rel_alone": f"Alone{S}", "fq_alone": f"{pkg}.Alone{S}",
        "fq_subpkg_imported": f"{pkg}.common.SubImp{S}", "fq_subpkg_notimported": f"{pkg}.common.SubOther{S}",
        "rel_subpkg_notimported": f"common.SubOther{S}",
        "empty": "google.protobuf.Empty", "empty_elsewhere": "google.protobuf.Empty",
        "fq_upper_pkg": f"Acme.CommonTypes.v1X.Done{S}",
        "struct_elsewhere": "google.protobuf.Struct", "struct_transitive": "google.protobuf.Struct",
        "rel_transitive": f"Deep{S}", "fq_transitive": f"{pkg}.Deep{S}",
        "fq_nested": f"{pkg}.Outer.Inner{S}", "rel_nested": f"Outer.Inner{S}", "rel_nested_shadowed": f"Outer.Inner{S}",
        # nested, package-relative, the enclosing message in ANOTHER file than the service (imported / not imported)
        "rel_nested_imported": f"ImpOuter.Inner{S}", "rel_nested_notimported": f"OtherOuter.Inner{S}",
        "fq_otherpkg": f"{SHARED_PKG}.Shared{S}",
        "missing": "", "unknown_rel": f"Nope{S}", "unknown_fq": f"google.example.nowhere.Thing{S}",
        "leading_dot": f".{pkg}.Local{S}", "rel_empty": "Empty",
    }[kind]


def build_api(cell):
    """cell: {pkg_index, resp, meta, annotated, order: 'types-first'|'svc-first', raw_sibling: bool}."""
    pkg, pypkg = PACKAGES[cell["pkg_index"]]
    d = "/".join(pkg.split("."))
    kinds = {cell["resp"], cell["meta"]} if cell["annotated"] else set()
    if cell["annotated"] and cell.get("twin_meta"):
        kinds.add(cell["twin_meta"])
    svc = File(f"{d}/jobs.proto", pkg, deps=list(apigen.STD_DEPS) + ["google/longrunning/operations.proto"])
    more = File(f"{d}/more.proto", pkg)
    types = File(f"{d}/{cell.get('types_name', 'types')}.proto", pkg)
    shared = File("google/example/shared/v1/shared.proto", SHARED_PKG)
    for S in ("Resp", "Meta"):
        for f, prefix in ((svc, "Local"), (more, "Imp"), (types, "Other")):
            m = f.message(prefix + S)
            if S == "Resp":
                m.field("text", 1, "string").field("n", 2, "int32")
            else:
                m.field("pct", 1, "int32").field("stage", 2, "string")
        shared.message("Shared" + S).field("text", 1, "string")
    for f, nm in ((svc, "Outer"), (more, "ImpOuter"), (types, "OtherOuter")):
        outer = f.message(nm)
        outer.field("x", 1, "string")
        outer.nested("InnerResp").field("v", 1, "string")
        outer.nested("InnerMeta").field("v", 1, "string")
    svc.dep(more.proto.name)
    if "empty" in kinds or cell.get("raw_sibling"):
        svc.dep("google/protobuf/empty.proto")
    if "empty_elsewhere" in kinds and "empty" not in kinds:
        types.dep("google/protobuf/empty.proto")
        types.message("Holder").field("e", 1, ".google.protobuf.Empty")
    if "struct_elsewhere" in kinds and "struct_transitive" not in kinds:
        # struct.proto is imported by types.proto only (operations.proto does not reach it): with the service's file listed
        # first it comes AFTER the service's file in the request
        types.dep("google/protobuf/struct.proto")
        types.message("StructHolder").field("s", 1, ".google.protobuf.Struct")
    if "struct_transitive" in kinds:
        more.dep("google/protobuf/struct.proto")
        more.message("StructCarrier").field("s", 1, ".google.protobuf.Struct")
    deep = None
    if kinds & {"rel_transitive", "fq_transitive"}:
        # jobs.proto imports more.proto, more.proto imports deep.proto
        deep = File(f"{d}/deep.proto", pkg)
        deep.message("DeepResp").field("text", 1, "string").field("n", 2, "int32")
        deep.message("DeepMeta").field("pct", 1, "int32").field("stage", 2, "string")
        more.dep(deep.proto.name)
        more.message("DeepCarrier").field("d", 1, f".{pkg}.DeepResp")
    if "fq_otherpkg" in kinds:
        # the other package's file is imported by types.proto only
        types.dep(shared.proto.name)
        types.message("SharedHolder").field("s", 1, f".{SHARED_PKG}.SharedResp")
    rq = svc.message("StartRequest")
    rq.field("name", 1, "string")
    flat = FLAT.get(cell.get("flat"), [])
    for i, fname in enumerate(flat):
        rq.field(fname, 2 + i, "string")
    s = svc.service("Jobs", host="jobs.example.com")
    lro = (annotation(cell["resp"], pkg, "Resp"), annotation(cell["meta"], pkg, "Meta")) if cell["annotated"] else None
    s.rpc("Start", rq.fqn, OPERATION, http=("post", "/v1/{name=jobs/*}:start"), body="*", lro=lro, sigs=[",".join(["name"] + flat)])
    s.rpc("Peek", rq.fqn, ".%s.LocalResp" % pkg, http=("get", "/v1/{name=jobs/*}:peek"))
    if cell.get("internal") == "some":
        # a second, PUBLIC long-running rpc next to the internal one (control)
        s.rpc("Restart", rq.fqn, OPERATION, http=("post", "/v1/{name=jobs/*}:restart"), body="*", lro=lro)
    if cell["annotated"] and cell.get("twin_meta"):
        # a second long-running rpc of the same file with the SAME response type and ANOTHER metadata type (declared after Start)
        s.rpc("Again", rq.fqn, OPERATION, http=("post", "/v1/{name=jobs/*}:again"), body="*",
              lro=(annotation(cell["resp"], pkg, "Resp"), annotation(cell["twin_meta"], pkg, "Meta")))
    if cell.get("raw_sibling"):
        s.rpc("Kick", rq.fqn, OPERATION, http=("post", "/v1/{name=jobs/*}:kick"), body="*")
    files = {"types-first": [types, more, svc], "types-middle": [more, types, svc]}.get(cell["order"], [more, svc, types])
    to_gen = [f.proto.name for f in (svc, more, types)]
    if deep is not None:
        files = [deep] + files
        to_gen.append(deep.proto.name)
    for S, fname in (("Resp", "operation_result"), ("Meta", "operation_metadata")):
        slot = cell["resp"] if S == "Resp" else cell["meta"]
        if cell["annotated"] and slot in ("rel_alone", "fq_alone"):
            alone = File(f"{d}/{fname}.proto", pkg)
            alone.message("Alone" + S).field("note", 1, "string").field("n", 2, "int32")
            files = files + [alone] if cell["order"] == "svc-first" else [alone] + files
            to_gen.append(alone.proto.name)
    sub_kinds = {"fq_subpkg_imported": ("shared_types", "SubImp", True), "fq_subpkg_notimported": ("loose_types", "SubOther", False),
                 "rel_subpkg_notimported": ("loose_types", "SubOther", False)}
    done = set()
    for k in sorted(kinds & set(sub_kinds)):
        fname, prefix, imported = sub_kinds[k]
        # the file of the sub-package may be named like a module the emitted client imports on the LRO path
        fname = cell.get("sub_imp_name" if imported else "sub_name", fname)
        if fname in done:
            continue
        done.add(fname)
        subf = File(f"{d}/common/{fname}.proto", f"{pkg}.common")
        subf.message(prefix + "Resp").field("text", 1, "string").field("n", 2, "int32")
        subf.message(prefix + "Meta").field("pct", 1, "int32").field("stage", 2, "string")
        if imported:
            svc.dep(subf.proto.name)
            files = [subf] + files
        else:
            files = files + [subf] if cell["order"] == "svc-first" else [subf] + files
        to_gen.append(subf.proto.name)
    if "fq_upper_pkg" in kinds:
        upper = File("Acme/CommonTypes/v1X/done.proto", "Acme.CommonTypes.v1X")
        upper.message("DoneResp").field("text", 1, "string").field("n", 2, "int32")
        upper.message("DoneMeta").field("pct", 1, "int32").field("stage", 2, "string")
        types.dep(upper.proto.name)
        types.message("DoneHolder").field("d", 1, ".Acme.CommonTypes.v1X.DoneResp")
        files = files + [upper]
    if "fq_otherpkg" in kinds:
        files = files + [shared]          # placed by the topological sort: right before the first file that imports it
    if "rel_nested_shadowed" in kinds:
        # a top-level package named like the outer message: the dotted name also reads as a fully-qualified one
        shadow = File("Outer/outer.proto", "Outer")
        shadow.message("InnerResp").field("w", 1, "string")
        shadow.message("InnerMeta").field("w", 1, "string")
        files = [shadow] + files
    return apigen.request(files, to_generate=to_gen, parameter=cell.get("parameter", "transport=grpc+rest")), pkg, pypkg


OPS_PREFIX = "v1custom"


def internal_rpcs(cell):
    """rpcs of Jobs that selective generation turns into internal _methods of the client."""
    if not cell.get("internal"):
        return []
    return ["Start"] + (["Kick"] if cell.get("raw_sibling") else []) + (["Again"] if cell.get("twin_meta") else [])


def client_names(cell):
    """(sync class, async class, python name of the Start method): with internal methods the classes are the Base* ones."""
    if cell.get("internal"):
        return "BaseJobsClient", "BaseJobsAsyncClient", "_start"
    return "JobsClient", "JobsAsyncClient", "start"


def service_yaml(cell, pkg):
    """Option file of the cell: http rules for the operations service (the REST operations client must use them) and/or
    selective generation with generate_omitted_as_internal (every rpc but the listed ones becomes an internal method)."""
    if not cell.get("ops_http") and not cell.get("internal") and not cell.get("rest_async") and not cell.get("selective"):
        return None
    sy = {"type": "google.api.Service", "config_version": 3, "name": "jobs.example.com", "apis": [{"name": pkg + ".Jobs"}]}
    if cell.get("ops_http"):
        get = {"selector": "google.longrunning.Operations.GetOperation", "get": "/%s/{name=projects/*/operations/*}" % OPS_PREFIX}
        cancel = {"selector": "google.longrunning.Operations.CancelOperation",
                  "post": "/%s/{name=projects/*/operations/*}:cancel" % OPS_PREFIX, "body": "*"}
        if cell["ops_http"] == "multi":
            # several bindings per selector: the operation may live under a project, an organization or a folder
            get["additional_bindings"] = [{"get": "/%s/{name=%s/*/operations/*}" % (OPS_PREFIX, c)} for c in ("organizations", "folders")]
            cancel["additional_bindings"] = [{"post": "/%s/{name=organizations/*/operations/*}:cancel" % OPS_PREFIX, "body": "*"}]
        sy["http"] = {"rules": [get, cancel]}
    py = {}
    if cell.get("internal"):
        public = ["Peek"] + (["Restart"] if cell["internal"] == "some" else [])
        py["common"] = {"selective_gapic_generation": {"methods": [f"{pkg}.Jobs.{m}" for m in public], "generate_omitted_as_internal": True}}
    elif cell.get("selective"):
        # selective generation proper (omit mode): only the long-running rpcs are kept; Peek (and Kick) are dropped, and with
        # them every message that nothing kept refers to -- the LRO types of the kept rpcs must survive the pruning
        kept = ["Start"] + (["Again"] if (cell["annotated"] and cell.get("twin_meta")) else [])
        py["common"] = {"selective_gapic_generation": {"methods": [f"{pkg}.Jobs.{m}" for m in kept]}}
    if cell.get("rest_async"):
        # the asyncio REST transport (rest_asyncio.py) is emitted only with this experimental switch
        py["experimental_features"] = {"rest_async_io_enabled": True}
    if py:
        sy["publishing"] = {"library_settings": [{"version": pkg, "python_settings": py}]}
    return sy


MULTI_OP_NAMES = ["projects/p/operations/op-1", "organizations/o/operations/op-2", "folders/f/operations/op-3"]
VERBS = ("get", "put", "post", "delete", "patch")


def http_rules_term(sy):
    """The http.rules of the option file as the model's [http_rule] term (primary binding, then the additional ones)."""
    out = []
    for rule in ((sy or {}).get("http") or {}).get("rules", []):
        bs = []
        for b in [rule] + list(rule.get("additional_bindings", [])):
            verb = next((v for v in VERBS if v in b), None)
            bs.append("None" if verb is None else f"(Some (mkB {coq.s(verb)} {coq.s(b[verb])} {coq.s(b.get('body', ''))}))")
        out.append(f"(mkHR {coq.s(rule['selector'])} {coq.lst(bs)})")
    return coq.lst(out)


def extract_rest_http_options(src):
    """The http_options dict literal of the REST transport's operations_client (fail-closed on shape and on duplicate keys)."""
    tree = ast.parse(src)
    cls = [c for c in tree.body if isinstance(c, ast.ClassDef) and c.name.endswith("RestTransport") and not c.name.startswith("_")]
    if len(cls) != 1:
        raise ValueError(f"{len(cls)} classes *RestTransport")
    prop = next((n for n in cls[0].body if isinstance(n, ast.FunctionDef) and n.name == "operations_client"), None)
    if prop is None:
        return None
    asg = [n for n in ast.walk(prop) if isinstance(n, ast.AnnAssign) and ast.unparse(n.target) == "http_options"]
    if len(asg) != 1 or not isinstance(asg[0].value, ast.Dict):
        raise ValueError("http_options is not assigned a dict literal")
    used = [n for n in ast.walk(prop) if isinstance(n, ast.keyword) and n.arg == "http_options"]
    if len(used) != 1 or ast.unparse(used[0].value) != "http_options":
        raise ValueError("http_options is not what the operations transport is given")
    out = []
    for k, v in zip(asg[0].value.keys, asg[0].value.values):
        if not (isinstance(k, ast.Constant) and isinstance(k.value, str)) or not isinstance(v, ast.List):
            raise ValueError(f"unexpected entry {ast.unparse(k) if k else k}")
        if k.value in [x for x, _ in out]:
            raise ValueError(f"duplicate key {k.value!r}: the later entry silently replaces the earlier one")
        bs = []
        for e in v.elts:
            if not isinstance(e, ast.Dict):
                raise ValueError("binding is not a dict literal")
            dd = {}
            for kk, vv in zip(e.keys, e.values):
                if not (isinstance(kk, ast.Constant) and isinstance(vv, ast.Constant) and isinstance(vv.value, str)):
                    raise ValueError("binding entry is not a string constant")
                dd[kk.value] = vv.value
            if set(dd) - {"method", "uri", "body"} or not {"method", "uri"} <= set(dd):
                raise ValueError(f"binding keys {sorted(dd)}")
            bs.append(dd)
        out.append((k.value, bs))
    calls = [n for n in ast.walk(prop) if isinstance(n, ast.Call) and any(k.arg == "http_options" for k in n.keywords)]
    prefix = [k.value for k in calls[0].keywords if k.arg == "path_prefix"]
    if len(prefix) != 1 or not (isinstance(prefix[0], ast.Constant) and isinstance(prefix[0].value, str)):
        raise ValueError("path_prefix is not a string constant of the operations transport")
    host = [ast.unparse(k.value) for k in calls[0].keywords if k.arg == "host"]
    return {"options": out, "path_prefix": prefix[0].value, "host": host, "ctor": ast.unparse(calls[0].func)}


def generate(cell, req, pkg, tag):
    sy = service_yaml(cell, pkg)
    if sy is None:
        return gen.run_generator(req)
    cdir = gen.case_dir(f"c08-opt-{tag}")
    try:
        return gen.run_generator(gen.with_params(req, [req.parameter], cdir, service_yaml=sy))
    finally:
        gen.rm(cdir)


def write_pb2_modules(req, root):
    """A <file>_pb2.py for every request file outside the generated package that is not installed (what protoc would emit)."""
    for fp in req.proto_file:
        if fp.name in req.file_to_generate or fp.name in apigen.std_files():
            continue
        path = os.path.join(root, fp.name[:-6] + "_pb2.py")
        os.makedirs(os.path.dirname(path), exist_ok=True)
        mod = fp.name[:-6].replace("/", ".") + "_pb2"
        with open(path, "w") as f:
            f.write("from google.protobuf import descriptor_pool as _descriptor_pool\n"
                    "from google.protobuf.internal import builder as _builder\n"
                    f"DESCRIPTOR = _descriptor_pool.Default().AddSerializedFile({fp.SerializeToString()!r})\n"
                    "_globals = globals()\n"
                    "_builder.BuildMessageAndEnumDescriptors(DESCRIPTOR, _globals)\n"
                    f"_builder.BuildTopDescriptorsAndMessages(DESCRIPTOR, {mod!r}, _globals)\n")


# ------------------------------------------------------------------ descriptor -> model term
def all_messages(fp):
    out = []

    def walk(prefix, m):
        fq = f"{prefix}.{m.name}" if prefix else m.name
        out.append(fq)
        for n in m.nested_type:
            walk(fq, n)

    for m in fp.message_type:
        walk(fp.package, m)
    return out


def files_term(req):
    return coq.lst(f"(mkFile {coq.s(fp.name)} {coq.s(fp.package)} {coq.slist(fp.dependency)} {coq.slist(all_messages(fp))})"
                   for fp in req.proto_file)


def method_term(mpb):
    from google.longrunning import operations_pb2
    if mpb.options.HasExtension(operations_pb2.operation_info):
        oi = mpb.options.Extensions[operations_pb2.operation_info]
        op = f"(Some (mkOp {coq.s(oi.response_type)} {coq.s(oi.metadata_type)}))"
    else:
        op = "None"
    return f"(mkMethod {coq.s(mpb.name)} {coq.s(mpb.output_type)} {op})"


def decision_term(d):
    k = d[0]
    if k == "plain":
        return "Plain"
    if k == "raw":
        return "Raw"
    if k == "lro":
        return f"(Lro {coq.s(d[1])} {coq.s(d[2])})"
    if k == "missing":
        return "(Rejected ErrMissingType)"
    if k == "unknown":
        return f"(Rejected (ErrUnknownType {coq.s(d[1])}))"
    return f"(Rejected (ErrUnknownType {coq.s('<unmapped ' + str(d) + '>')}))"


def subject(req, pkg):
    for fp in req.proto_file:
        if fp.package == pkg:
            for s in fp.service:
                return fp, s
    raise ValueError("service not found")


# ------------------------------------------------------------------ direct oracle helpers (independent of the model)
def oracle_resolve(req, pkg, name):
    """protobuf scoping for a name written in the method's package: package-relative first, then absolute.
    Returns the full name of an existing message or None."""
    universe = set()
    for fp in req.proto_file:
        universe.update(all_messages(fp))
    if not name or name.startswith("."):
        return None
    found = [cand for cand in ([f"{pkg}.{name}", name] if pkg else [name]) if cand in universe]
    if len(set(found)) > 1:
        return None          # two messages answer to the name: the sentence does not say which
    return found[0] if found else None


def py_class_of(req, pypkg, fqn):
    """Python class the emitted library uses for a message (naming convention, written independently of /repo)."""
    for fp in req.proto_file:
        if fqn in all_messages(fp):
            rel = fqn[len(fp.package) + 1:] if fp.package else fqn
            if fp.name in req.file_to_generate:
                # a proto sub-package of the API becomes a python sub-package with its own types/
                root = min((f.package for f in req.proto_file if f.name in req.file_to_generate), key=len)
                sub = fp.package[len(root) + 1:] if fp.package != root else ""
                return f"{pypkg}{'.' + sub if sub else ''}.types.{os.path.basename(fp.name)[:-6]}.{rel}"
            return fp.name[:-6].replace("/", ".") + "_pb2." + rel
    return None


def expectation(req, pkg, cell):
    """What the property's sentence demands for the Start method: ('future', resp, meta) | ('raw',) | ('rejected',)
    | ('unspecified',) for names the statement says nothing about."""
    if not cell["annotated"]:
        return ("raw",)
    r, m = annotation(cell["resp"], pkg, "Resp"), annotation(cell["meta"], pkg, "Meta")
    if not r or not m:
        return ("rejected",)
    rr, mm = oracle_resolve(req, pkg, r), oracle_resolve(req, pkg, m)
    if rr and mm:
        return ("future", rr, mm)
    return ("unspecified",)


# ------------------------------------------------------------------ T1 extraction (ast, fail-closed)
def _imports(tree):
    """alias -> module path, for `from X import Y [as Z]` and `import X.Y as Z`."""
    out = {}
    for n in tree.body:
        if isinstance(n, ast.ImportFrom) and n.module and n.level == 0:
            for a in n.names:
                out[a.asname or a.name] = f"{n.module}.{a.name}"
        elif isinstance(n, ast.Import):
            for a in n.names:
                if a.asname:
                    out[a.asname] = a.name
    return out


def _dotted(e):
    parts = []
    while isinstance(e, ast.Attribute):
        parts.append(e.attr)
        e = e.value
    if not isinstance(e, ast.Name):
        raise ValueError(f"not a dotted name: {ast.dump(e)[:80]}")
    parts.append(e.id)
    return list(reversed(parts))


def proto_name_of(expr, imports, files, req=None):
    """module_alias.Class[.Nested] in an emitted module -> proto full name, through the emitted types module (ast) or the
    installed pb2 module."""
    parts = _dotted(expr)
    mod = imports.get(parts[0])
    if mod is None:
        raise ValueError(f"{'.'.join(parts)}: module alias {parts[0]!r} is not imported")
    qual = parts[1:]
    path = mod.replace(".", "/") + ".py"
    if path in files:
        tree = ast.parse(files[path])
        package = None
        for n in tree.body:
            if isinstance(n, ast.Assign) and getattr(n.targets[0], "id", "") == "__protobuf__" and isinstance(n.value, ast.Call):
                for k in n.value.keywords:
                    if k.arg == "package" and isinstance(k.value, ast.Constant):
                        package = k.value.value
        if package is None:
            raise ValueError(f"{path}: proto.module(package=...) not found")
        body = tree.body
        for q in qual:
            cls = next((c for c in body if isinstance(c, ast.ClassDef) and c.name == q), None)
            if cls is None:
                raise ValueError(f"{path}: class {'.'.join(qual)} not defined")
            body = cls.body
        return f"{package}.{'.'.join(qual)}" if package else ".".join(qual)
    if req is not None and mod.endswith("_pb2"):
        fname = mod[:-4].replace(".", "/") + ".proto"
        fp = next((f for f in req.proto_file if f.name == fname), None)
        if fp is not None:
            fq = (fp.package + "." if fp.package else "") + ".".join(qual)
            if fq not in all_messages(fp):
                raise ValueError(f"{mod}: {'.'.join(qual)} is not a message of {fname}")
            return fq
    m = importlib.import_module(mod)
    o = m
    for q in qual:
        o = getattr(o, q)
    return o.DESCRIPTOR.full_name


def extract_wrapping(src, method, files, req=None):
    """The from_gapic call of one client method: dict or None when the method has no such call."""
    tree = ast.parse(src)
    imports = _imports(tree)
    fns = [n for c in tree.body if isinstance(c, ast.ClassDef) for n in c.body
           if isinstance(n, (ast.FunctionDef, ast.AsyncFunctionDef)) and n.name == method]
    if len(fns) != 1:
        raise ValueError(f"method {method}: {len(fns)} definitions")
    fn = fns[0]
    calls = [n for n in ast.walk(fn) if isinstance(n, ast.Call) and isinstance(n.func, ast.Attribute) and n.func.attr == "from_gapic"]
    ret = ast.unparse(fn.returns) if fn.returns is not None else ""
    if not calls:
        return {"returns": ret, "wrap": None}
    if len(calls) != 1:
        raise ValueError(f"method {method}: {len(calls)} from_gapic calls")
    c = calls[0]
    if len(c.args) != 3 or len(c.keywords) != 1 or not isinstance(c.args[0], ast.Name):
        raise ValueError(f"method {method}: unexpected from_gapic shape {ast.unparse(c)[:200]}")
    # the value must be what the method returns
    assigned = [n for n in ast.walk(fn) if isinstance(n, ast.Assign) and n.value is c]
    if not assigned or ast.unparse(assigned[0].targets[0]) != "response":
        raise ValueError(f"method {method}: the future is not bound to 'response'")
    rets = [n for n in ast.walk(fn) if isinstance(n, ast.Return)]
    if not rets or ast.unparse(rets[-1].value) != "response":
        raise ValueError(f"method {method}: does not return 'response'")
    unresolved = []

    def name_of(e):
        # a type argument that cannot be traced to a message is reported (T1 fails closed) but does not stop the driving
        try:
            return proto_name_of(e, imports, files, req)
        except Exception as ex:  # noqa
            unresolved.append(f"{ast.unparse(e)}: {ex}")
            return f"<unresolved {ast.unparse(e)}>"

    return {"returns": ret, "wrap": {
        "module": (imports.get(_dotted(c.func)[0]) or "<not imported>").rsplit(".", 1)[-1], "func": c.func.attr, "first": c.args[0].id, "client": ast.unparse(c.args[1]),
        "result_type": name_of(c.args[2]), "kw": c.keywords[0].arg,
        "metadata_type": name_of(c.keywords[0].value), "unresolved": unresolved,
        "module_import": imports.get(_dotted(c.func)[0]), "module_name": _dotted(c.func)[0],
        "params": [a.arg for a in fn.args.args + fn.args.kwonlyargs]}}


def has_ops_property(src, cls_suffix):
    """Does the transport class define the operations_client property?"""
    tree = ast.parse(src)
    classes = [c for c in tree.body if isinstance(c, ast.ClassDef) and c.name.endswith(cls_suffix) and not c.name.startswith("_")]
    if len(classes) != 1:
        raise ValueError(f"{len(classes)} classes *{cls_suffix}")
    props = [n for n in classes[0].body if isinstance(n, ast.FunctionDef) and n.name == "operations_client"]
    if props and not any(ast.unparse(d) == "property" for d in props[0].decorator_list):
        raise ValueError("operations_client is not a property")
    return bool(props)


def extract_ops_client(src, cls_suffix):
    """operations_client property of a gRPC transport: constructor, channel expression, cache attribute, and where
    self._logged_channel comes from."""
    tree = ast.parse(src)
    cls = next((c for c in tree.body if isinstance(c, ast.ClassDef) and c.name.endswith(cls_suffix)), None)
    if cls is None:
        raise ValueError(f"class *{cls_suffix} not found")
    prop = next((n for n in cls.body if isinstance(n, ast.FunctionDef) and n.name == "operations_client"), None)
    if prop is None:
        return None
    if not any(ast.unparse(d) == "property" for d in prop.decorator_list):
        raise ValueError("operations_client is not a property")
    asg = [n for n in ast.walk(prop) if isinstance(n, ast.Assign) and isinstance(n.value, ast.Call)]
    if len(asg) != 1 or len(asg[0].value.args) != 1 or asg[0].value.keywords:
        raise ValueError("operations_client: unexpected construction")
    ret = [n for n in ast.walk(prop) if isinstance(n, ast.Return)]
    if len(ret) != 1:
        raise ValueError("operations_client: unexpected returns")
    cached = ast.unparse(asg[0].targets[0])
    if ast.unparse(ret[0].value) != cached:
        raise ValueError("operations_client does not return what it builds")
    init = next((n for n in cls.body if isinstance(n, ast.FunctionDef) and n.name == "__init__"), None)
    logged = [ast.unparse(n.value) for n in ast.walk(init) if isinstance(n, ast.Assign)
              and ast.unparse(n.targets[0]) == "self._logged_channel"] if init else []
    return {"ctor": ast.unparse(asg[0].value.func), "channel": ast.unparse(asg[0].value.args[0]), "cached": cached, "logged": logged}


# ------------------------------------------------------------------ histories
def history_specs(r, tier_all):
    base = [
        {"id": "nd3-response", "initial_done": False, "not_done": 2, "final": "response"},
        {"id": "done-at-once", "initial_done": True, "not_done": 0, "final": "response"},
        {"id": "nd1-error", "initial_done": False, "not_done": 0, "final": "error", "code": r.choice(
            ["ABORTED", "NOT_FOUND", "INTERNAL", "PERMISSION_DENIED", "FAILED_PRECONDITION", "DEADLINE_EXCEEDED"])},
        {"id": "nd2-response", "initial_done": False, "not_done": 1, "final": "response"},
        {"id": "nd4-error", "initial_done": False, "not_done": 3, "final": "error", "code": "UNAVAILABLE"},
        {"id": "nd1-other-type", "initial_done": False, "not_done": 0, "final": "other_type"},
        {"id": "nd1-no-metadata", "initial_done": False, "not_done": 0, "final": "response", "no_metadata": True},
    ]
    return base if tier_all else base[:3] + [r.choice(base[3:])]


CODE_NUM = {"CANCELLED": 1, "UNKNOWN": 2, "INVALID_ARGUMENT": 3, "DEADLINE_EXCEEDED": 4, "NOT_FOUND": 5, "ALREADY_EXISTS": 6,
            "PERMISSION_DENIED": 7, "RESOURCE_EXHAUSTED": 8, "FAILED_PRECONDITION": 9, "ABORTED": 10, "OUT_OF_RANGE": 11,
            "UNIMPLEMENTED": 12, "INTERNAL": 13, "UNAVAILABLE": 14, "DATA_LOSS": 15, "UNAUTHENTICATED": 16}
CODE_EXC = {"CANCELLED": "Cancelled", "UNKNOWN": "Unknown", "INVALID_ARGUMENT": "InvalidArgument", "DEADLINE_EXCEEDED": "DeadlineExceeded",
            "NOT_FOUND": "NotFound", "ALREADY_EXISTS": "AlreadyExists", "PERMISSION_DENIED": "PermissionDenied",
            "RESOURCE_EXHAUSTED": "ResourceExhausted", "FAILED_PRECONDITION": "FailedPrecondition", "ABORTED": "Aborted",
            "OUT_OF_RANGE": "OutOfRange", "UNIMPLEMENTED": "MethodNotImplemented", "INTERNAL": "InternalServerError",
            "UNAVAILABLE": "ServiceUnavailable", "DATA_LOSS": "DataLoss", "UNAUTHENTICATED": "Unauthenticated"}


def sample_message(d, fqn, seed):
    m = d.new(fqn)
    for f in m.DESCRIPTOR.fields:
        if f.type == f.TYPE_STRING:
            setattr(m, f.name, f"{f.name}-{seed}")
        elif f.type == f.TYPE_INT32:
            setattr(m, f.name, 7 + seed)
    return m


def snapshots(d, resp_fqn, meta_fqn, h):
    """[Operation protos]: the method's own reply followed by the GetOperation replies, and their model view."""
    from google.longrunning import operations_pb2
    ops, view = [], []

    def snap(done, i, final=None):
        o = operations_pb2.Operation(name=h.get("op_name", OP_NAME), done=done)
        v = {"done": done, "meta": None, "result": None}
        if not h.get("no_metadata"):
            mm = sample_message(d, meta_fqn, i)
            o.metadata.Pack(mm)
            v["meta"] = [o.metadata.type_url, mm.SerializeToString(deterministic=True)]
        if final == "response":
            rm = sample_message(d, resp_fqn, 40 + i)
            o.response.Pack(rm)
            v["result"] = ["response", o.response.type_url, rm.SerializeToString(deterministic=True)]
        elif final == "other_type":
            rm = sample_message(d, "google.longrunning.GetOperationRequest", 1)
            o.response.Pack(rm)
            v["result"] = ["response", o.response.type_url, rm.SerializeToString(deterministic=True)]
        elif final == "error":
            o.error.code, o.error.message = CODE_NUM[h["code"]], "boom"
            v["result"] = ["error", CODE_NUM[h["code"]], "boom"]
        ops.append(o)
        view.append(v)

    if h["initial_done"]:
        snap(True, 0, h["final"])
    else:
        snap(False, 0)
        for i in range(h["not_done"]):
            snap(False, i + 1)
        snap(True, h["not_done"] + 1, h["final"])
    return ops, view


def op_term(v):
    meta = "None" if v["meta"] is None else f"(Some (mkAny {coq.s(v['meta'][0])} {coq.s(v['meta'][1])}))"
    if v["result"] is None:
        res = "NoResult"
    elif v["result"][0] == "response":
        res = f"(Response (mkAny {coq.s(v['result'][1])} {coq.s(v['result'][2])}))"
    else:
        res = f"(Failed {coq.nat(v['result'][1])} {coq.s(v['result'][2])})"
    return f"(mkOperation {coq.b(v['done'])} {meta} {res})"


def class_to_proto(req, pypkg, pyname):
    for fp in req.proto_file:
        for fq in all_messages(fp):
            if py_class_of(req, pypkg, fq) == pyname:
                return fq
    return "<unknown python type " + pyname + ">"


def observed_outcome(req, pypkg, val, err, want_for_type_error, is_async=False):
    """Implementation observation -> Coq outcome term."""
    if err is not None:
        ex = err["exception"]
        if ex == "TypeError" and "Could not convert" in err["message"]:
            short = err["message"].rsplit(" ", 1)[-1].strip("`")
            full = want_for_type_error if short in (want_for_type_error, want_for_type_error.rsplit(".", 1)[-1]) else f"<{short}>"
            return f"(Raised (ETypeError {coq.s(full)}))"
        if ex == "GoogleAPICallError" and "neither" in err["message"]:
            return "(Raised EUnexpectedState)"
        if is_async and ex == "GoogleAPICallError" and "grpc_status_code" not in err:
            msg = "boom" if "boom" in err["message"] else err["message"]
            return f"(Raised (EApiError {coq.s(msg)}))"
        if "grpc_status_code" in err and err["grpc_status_code"] in CODE_NUM:
            msg = "boom" if "boom" in err["message"] else err["message"]
            return f"(Raised (EStatus {coq.nat(CODE_NUM[err['grpc_status_code']])} {coq.s(msg)}))"
        if ex == "GoogleAPICallError" and "neither" in err["message"]:
            return "(Raised EUnexpectedState)"
        return f"(Raised (ETypeError {coq.s('<unmapped ' + ex + '>')}))"
    if val["kind"] == "none":
        return "(Returned PyNone)"
    if val["kind"] == "msg":
        return f"(Returned (Instance {coq.s(class_to_proto(req, pypkg, val['type']))} {coq.s(base64.b64decode(val['b64']))}))"
    return f"(Returned (Instance {coq.s('<unmapped value ' + val['kind'] + '>')} \"\"))"


# ------------------------------------------------------------------ schema-level T2 (+ oracle on the decision)
def corpus_cells():
    import glob
    return [json.load(open(f))["cell"] for f in sorted(glob.glob(os.path.join(env.VERIF, "corpus", "C08", "*.json")))]


def grid(ctx, n):
    cells = []
    corpus = corpus_cells() + [
        {"pkg_index": 0, "resp": "rel_notimported", "meta": "fq_same", "annotated": True, "order": "svc-first"},
        {"pkg_index": 0, "resp": "rel_same", "meta": "rel_same", "annotated": False, "order": "types-first"},
        {"pkg_index": 1, "resp": "missing", "meta": "rel_same", "annotated": True, "order": "types-first"},
        {"pkg_index": 1, "resp": "rel_same", "meta": "missing", "annotated": True, "order": "svc-first"},
        {"pkg_index": 2, "resp": "empty", "meta": "fq_notimported", "annotated": True, "order": "svc-first"},
        {"pkg_index": 0, "resp": "rel_nested", "meta": "rel_same", "annotated": True, "order": "types-first"},
        {"pkg_index": 0, "resp": "empty_elsewhere", "meta": "fq_nested", "annotated": True, "order": "svc-first"},
        {"pkg_index": 2, "resp": "fq_otherpkg", "meta": "rel_imported", "annotated": True, "order": "types-first"},
        {"pkg_index": 1, "resp": "missing", "meta": "missing", "annotated": True, "order": "svc-first"},
        {"pkg_index": 0, "resp": "rel_notimported", "meta": "fq_notimported", "annotated": True, "order": "svc-first", "types_name": "operation"},
    ]
    cells.extend(corpus)
    # one-kind-at-a-time sweep (the other slot is plain), then random pairs
    i = 0
    for k in ALL_KINDS:
        for slot in ("resp", "meta"):
            r = env.rng("C08-grid", i)
            i += 1
            c = {"pkg_index": r.randrange(len(PACKAGES)), "resp": "rel_same", "meta": "fq_same", "annotated": True,
                 "order": r.choice(["types-first", "svc-first", "types-middle"])}
            c[slot] = k
            cells.append(c)
    while len(cells) < n:
        r = env.rng("C08-grid", i)
        i += 1
        cells.append({"pkg_index": r.randrange(len(PACKAGES)), "resp": r.choice(ALL_KINDS), "meta": r.choice(ALL_KINDS),
                      "annotated": r.random() < 0.9, "order": r.choice(["types-first", "svc-first", "types-middle"]),
                      "raw_sibling": r.random() < 0.3, "types_name": r.choice(["types", "types"] + CLASH_NAMES), "sub_name": r.choice(["loose_types", "operation", "operation_async"])})
    seen, out = set(), []
    for c in cells:
        h = env.canon_hash(c)
        if h not in seen:
            seen.add(h)
            out.append(c)
    return out[:max(n, len(corpus))]


def impl_decision(o, key):
    if o["ok"]:
        m = o["methods"].get(key)
        if m is None:
            return ("absent",)
        if m["lro"]:
            return ("lro", m["lro"][0], m["lro"][1])
        if m["output"] == "google.longrunning.Operation":
            return ("raw",)
        return ("plain",)
    if o["error"] == "TypeError" and "missing a response type or metadata type" in o.get("message", ""):
        return ("missing",)
    if o["error"] == "KeyError":
        return ("unknown", o.get("arg", ""))
    return ("error", o["error"])


def check_decision(ctx, cell, req, pkg, got, where):
    """The property's own sentence on the generation outcome."""
    exp = expectation(req, pkg, cell)
    case = {"cell": cell, "request_b64": apigen.req_b64(req), "where": where}
    sig = None
    if cell["annotated"] and (cell["resp"] in QUIRK or cell["meta"] in QUIRK) and not ({cell["resp"], cell["meta"]} & set(MISSING + UNKNOWN)):
        sig = "lro.nested_relative_type"
    if exp[0] == "raw" and got != ("raw",):
        ctx.violation(f"un-annotated Operation method is not returned raw: {got}", case)
    elif exp[0] == "rejected" and got[0] not in ("missing", "unknown", "error"):
        ctx.violation(f"LRO method lacking a type name (response={annotation(cell['resp'], pkg, 'Resp')!r}, "
                      f"metadata={annotation(cell['meta'], pkg, 'Meta')!r}) was accepted: {got}", case)
    elif exp[0] == "future" and got != ("lro", exp[1], exp[2]):
        ctx.violation(f"LRO types (response={annotation(cell['resp'], pkg, 'Resp')!r}, metadata={annotation(cell['meta'], pkg, 'Meta')!r}) "
                      f"exist in the request as {exp[1]} / {exp[2]} but the generator decided {got}", case, sig)
    return exp


def run_schema(ctx, cells):
    built = []
    for c in cells:
        try:
            req, pkg, pypkg = build_api(c)
        except apigen.Invalid as e:
            ctx.features["invalid-candidate"] += 1
            continue
        built.append((c, req, pkg, pypkg))
    out = []
    chunk = 40
    parts = [built[i:i + chunk] for i in range(0, len(built), chunk)]
    for res in gen.pmap(lambda part: gen.impl("c08_schema", [{"request_b64": apigen.req_b64(x[1])} for x in part]), parts):
        out.extend(res)
    checks = []
    for (c, req, pkg, pypkg), o in zip(built, out):
        fp, svc = subject(req, pkg)
        for mpb in svc.method:
            got = impl_decision(o, f"{svc.name}.{mpb.name}") if (o["ok"] or mpb.name == "Start") else None
            if got is None:
                continue
            feats = [f"resp={c['resp']}", f"meta={c['meta']}"] if (mpb.name == "Start" and c["annotated"]) else [f"method={mpb.name}"]
            ctx.case({"cell": c, "method": mpb.name}, nontrivial=mpb.output_type == OPERATION, feature=feats + ["schema"])
            checks.append((f"decide {json.dumps(c, sort_keys=True)} {mpb.name}",
                           f"decision_eqb (decide {files_term(req)} {coq.s(pkg)} {method_term(mpb)}) {decision_term(got)}"))
            if mpb.name == "Start":
                check_decision(ctx, c, req, pkg, got, "schema")
            elif mpb.name == "Kick" and got != ("raw",):
                ctx.violation(f"un-annotated Operation method Kick is not returned raw: {got}",
                              {"cell": c, "request_b64": apigen.req_b64(req), "where": "schema"})
    failing, errors, nfiles = coq.eval_checks("c08schema", "From GV Require Import Model.Lro.", "", checks)
    ctx.oblige(f"T2 decide = _maybe_get_lro (through API.build) on {len(checks)} methods of {len(built)} requests ({nfiles} cases files)",
               not failing and not errors and len(checks) > 0, "; ".join((failing + errors)[:6]))
    ctx.notes["schema_disagreements"] = failing[:10]
    return failing


# ------------------------------------------------------------------ end to end: generate, T1, drive, oracle, T2
def e2e_case(args):
    cell, tier_all, idx = args
    res = {"cell": cell, "violations": [], "t1": [], "t2": [], "cases": [], "oblige": []}
    try:
        req, pkg, pypkg = build_api(cell)
    except apigen.Invalid as e:
        res["invalid"] = str(e)[:200]
        return res
    case = {"cell": cell, "request_b64": apigen.req_b64(req), "where": "e2e"}

    def bad(what, extra=None, sig=None):
        res["violations"].append((what, dict(case, **(extra or {})), sig or (PB2_CLASH_SIG if pb2_clash(cell) else None)))

    sync_cls, async_cls, start_py = client_names(cell)
    exp = expectation(req, pkg, cell)
    quirk_sig = "lro.nested_relative_type" if (cell["annotated"] and (cell["resp"] in QUIRK or cell["meta"] in QUIRK)) else None
    if pb2_clash(cell):
        quirk_sig = PB2_CLASH_SIG
    out, err = generate(cell, req, pkg, f"{idx}-{env.canon_hash(cell)}")
    fp, svc = subject(req, pkg)
    start = next(m for m in svc.method if m.name == "Start")
    F, P, M = files_term(req), coq.s(pkg), method_term(start)
    if out is None:
        kind = gen.error_kind(err)
        last = err.strip().splitlines()[-1] if err.strip() else ""
        if kind == "TypeError" and "missing a response type or metadata type" in last:
            got = ("missing",)
        elif kind == "KeyError":
            try:
                got = ("unknown", ast.literal_eval(last.split(":", 1)[1].strip()))
            except Exception:  # noqa
                got = ("error", kind)
        else:
            got = ("error", kind)
        res["t2"].append((f"generate {json.dumps(cell, sort_keys=True)}", f"decision_eqb (decide {F} {P} {M}) {decision_term(got)}"))
        res["cases"].append(({"cell": cell, "e2e": "generation-outcome"}, True, ["e2e-rejected"]))
        if exp[0] == "future":
            bad(f"generation failed ({kind}: {last[:160]}) although both LRO types exist in the request "
                f"({exp[1]}, {exp[2]})", sig=quirk_sig)
        elif exp[0] == "raw":
            bad(f"generation failed ({kind}: {last[:160]}) for an un-annotated Operation method")
        return res
    if exp[0] == "rejected":
        bad("an LRO method lacking a type name was generated instead of being rejected")
    files = gen.files_of(out)
    base = pypkg.replace(".", "/") + "/services/jobs/"
    # ---- T1: from_gapic arguments (sync + async) and the operations-client properties
    got, gots = None, {False: None, True: None}
    for fname, is_async in (("client.py", False), ("async_client.py", True)):
        try:
            w = extract_wrapping(files[base + fname], start_py, files, req)
        except Exception as e:  # noqa
            res["oblige"].append((f"T1 extraction of start() from {fname}", False, repr(e)[:300]))
            continue
        if w["wrap"] is None:
            d0 = ("raw",) if "Operation" in w["returns"] else ("plain",)
            res["t1"].append((f"{fname} start: no future [{json.dumps(cell, sort_keys=True)}]",
                              f"decision_eqb (decide {F} {P} {M}) {decision_term(d0)}"))
            got = got or d0
            gots[is_async] = d0
        else:
            ww = w["wrap"]
            got = got or ("lro", ww["result_type"], ww["metadata_type"])
            gots[is_async] = ("lro", ww["result_type"], ww["metadata_type"])
            term = (f"(mkWrap {coq.s(ww['module'])} {coq.s(ww['func'])} {coq.s(ww['first'])} {coq.s(ww['client'])} "
                    f"{coq.s(ww['result_type'])} {coq.s(ww['kw'])} {coq.s(ww['metadata_type'])})")
            res["t1"].append((f"{fname} start: from_gapic arguments [{json.dumps(cell, sort_keys=True)}]",
                              f"match client_output {coq.b(is_async)} (decide {F} {P} {M}) with "
                              f"Some (ReturnsFuture w) => wrapping_eqb w {term} | _ => false end"))
            res["oblige"].append((f"T1 {fname}: both from_gapic type arguments are traced to messages through the module's imports",
                                  not ww["unresolved"], "; ".join(ww["unresolved"])[:300]))
            want_mod = "google.api_core.operation_async" if is_async else "google.api_core.operation"
            res["oblige"].append((f"T1 {fname}: the from_gapic module is {want_mod}", ww["module_import"] == want_mod, str(ww["module_import"])))
            res["oblige"].append((f"T1 {fname}: the name the from_gapic module is called by (alias included) is not a parameter of the method",
                                  ww["module_name"] not in ww["params"], f"{ww['module_name']} in {ww['params']}"))
    has_future = got is not None and got[0] == "lro"
    sm_terms = coq.lst(f"(mkSM {coq.b(mm.name in internal_rpcs(cell))} (decide {F} {P} {method_term(mm)}))" for mm in svc.method)
    for fname, suffix in (("transports/base.py", "Transport"), ("transports/grpc.py", "GrpcTransport"),
                          ("transports/grpc_asyncio.py", "GrpcAsyncIOTransport"), ("transports/rest.py", "RestTransport")):
        try:
            present = has_ops_property(files[base + fname], suffix)
        except Exception as e:  # noqa
            res["oblige"].append((f"T1 reading the operations_client property of {fname}", False, repr(e)[:300]))
            continue
        res["t1"].append((f"{fname}: operations_client present = {present} [{json.dumps(cell, sort_keys=True)}]",
                          f"Bool.eqb (has_operations_client {sm_terms}) {coq.b(present)}"))
    rest_files = [("transports/rest.py", "operations_v1.OperationsRestTransport")]
    if cell.get("rest_async"):
        rest_files.append(("transports/rest_asyncio.py", "operations_v1.AsyncOperationsRestTransport"))
        if base + "transports/rest_asyncio.py" not in files:
            res["oblige"].append(("T1 rest_asyncio.py is emitted when rest_async_io_enabled is set", False, json.dumps(cell, sort_keys=True)))
            rest_files.pop()
    for fname, want_ctor in rest_files:
        try:
            ho = extract_rest_http_options(files[base + fname])
            if ho is not None:
                obs = coq.lst(f"({coq.s(k)}, " + coq.lst(f"(mkPB {coq.s(b['method'])} {coq.s(b['uri'])} {coq.opt(b.get('body'))})" for b in bs) + ")"
                              for k, bs in ho["options"])
                res["t1"].append((f"{fname}: http_options of operations_client [{json.dumps(cell, sort_keys=True)}]",
                                  f"http_options_eqb (ops_http_options {http_rules_term(service_yaml(cell, pkg))}) {obs}"))
                res["t1"].append((f"{fname}: path_prefix of operations_client = {ho['path_prefix']!r} [{json.dumps(cell, sort_keys=True)}]",
                                  f"String.eqb (ops_path_prefix {coq.s(pkg)}) {coq.s(ho['path_prefix'])}"))
                res["oblige"].append((f"T1 {fname}: the operations transport is {want_ctor}(host=self._host, ...)",
                                      ho["ctor"] == want_ctor and ho["host"] == ["self._host"], f"{ho['ctor']} host={ho['host']}"))
        except Exception as e:  # noqa
            res["oblige"].append((f"T1 reading http_options / path_prefix of the operations_client of {fname}", False,
                                  f"{json.dumps(cell, sort_keys=True)}: {e!r}"[:400]))
    for fname, suffix, is_async in (("transports/grpc.py", "GrpcTransport", False), ("transports/grpc_asyncio.py", "GrpcAsyncIOTransport", True)):
        try:
            oc = extract_ops_client(files[base + fname], suffix)
        except Exception as e:  # noqa
            res["oblige"].append((f"T1 extraction of operations_client from {fname}", False, repr(e)[:300]))
            continue
        if has_future:
            if oc is None:
                res["oblige"].append((f"T1 {fname}: operations_client property present for a service with an LRO method", False, ""))
                continue
            term = f"(mkOps {coq.s(oc['ctor'])} {coq.s(oc['channel'])} {coq.s(oc['cached'])})"
            res["t1"].append((f"{fname}: operations_client [{json.dumps(cell, sort_keys=True)}]",
                              f"ops_client_eqb (emit_ops_client {coq.b(is_async)}) {term}"))
            want = ["self._grpc_channel"] if is_async else ["grpc.intercept_channel(self._grpc_channel, self._interceptor)"]
            res["oblige"].append((f"T1 {fname}: self._logged_channel is the transport's own channel", oc["logged"] == want, str(oc["logged"])))
    check = {"exp": exp, "got": got}
    for is_async, g in gots.items():
        which = "async_client.py" if is_async else "client.py"
        if g is None:
            continue
        if exp[0] == "future" and g != ("lro", exp[1], exp[2]):
            bad(f"{which}: emitted start() wraps {g} but the annotated types are {exp[1]} / {exp[2]}", sig=quirk_sig)
        if exp[0] == "raw" and g != ("raw",):
            bad(f"{which}: un-annotated Operation method: emitted start() is {g}, expected the raw Operation")
    # ---- the twin rpc (same response type, another metadata type): its own wrapping, judged on its own annotation
    twin = None
    if cell["annotated"] and cell.get("twin_meta"):
        again = next(mm for mm in svc.method if mm.name == "Again")
        again_py = ("_" if cell.get("internal") else "") + "again"
        exp2 = expectation(req, pkg, dict(cell, meta=cell["twin_meta"]))
        gots2 = {False: None, True: None}
        for fname, is_async in (("client.py", False), ("async_client.py", True)):
            try:
                w2 = extract_wrapping(files[base + fname], again_py, files, req)
            except Exception as e:  # noqa
                res["oblige"].append((f"T1 extraction of again() from {fname}", False, repr(e)[:300]))
                continue
            if w2["wrap"] is None:
                gots2[is_async] = ("raw",) if "Operation" in w2["returns"] else ("plain",)
                continue
            ww = w2["wrap"]
            gots2[is_async] = ("lro", ww["result_type"], ww["metadata_type"])
            term = (f"(mkWrap {coq.s(ww['module'])} {coq.s(ww['func'])} {coq.s(ww['first'])} {coq.s(ww['client'])} "
                    f"{coq.s(ww['result_type'])} {coq.s(ww['kw'])} {coq.s(ww['metadata_type'])})")
            res["t1"].append((f"{fname} again: from_gapic arguments [{json.dumps(cell, sort_keys=True)}]",
                              f"match client_output {coq.b(is_async)} (decide {F} {P} {method_term(again)}) with "
                              f"Some (ReturnsFuture w) => wrapping_eqb w {term} | _ => false end"))
            if exp2[0] == "future" and gots2[is_async] != ("lro", exp2[1], exp2[2]):
                bad(f"{fname}: emitted {again_py}() wraps {gots2[is_async]} but rpc Again is annotated with {exp2[1]} / {exp2[2]} "
                    f"(its sibling Start shares the response type and has another metadata type)")
        g2 = gots2[False] or gots2[True]
        if g2 and g2[0] == "lro" and exp2[0] == "future":
            twin = {"py": again_py, "exp": exp2, "got": g2, "gots": gots2}
    # ---- drive
    if got is None or got[0] not in ("lro", "raw"):
        res["cases"].append(({"cell": cell, "e2e": "generated-only"}, True, ["e2e-generated-only"]))
        return res
    root = gen.case_dir(f"c08-{idx}-{env.canon_hash(cell)}")
    try:
        gen.materialize(out, root)
        write_pb2_modules(req, root)
        d = dyn.Dyn(req)
        r = env.rng("C08-hist", idx)
        rq = d.new(pkg + ".StartRequest", name="jobs/1")
        from google.protobuf import json_format
        from google.longrunning import operations_pb2
        transports = [(sync_cls, "grpc"), (async_cls, "grpc_asyncio"), (sync_cls, "rest")]
        if cell.get("rest_async") and got[0] == "lro":
            transports.append((async_cls, "rest_asyncio"))
        calls, metas = [], []
        if got[0] == "raw":
            o = operations_pb2.Operation(name=OP_NAME, done=False)
            for cn, tr in transports:
                spec = {"service_module": "jobs", "client": cn, "transport": tr, "method": start_py,
                        "request": {"mode": "message", "cls": f"{pypkg}:StartRequest", "b64": d.b64(rq)}, "consume": "value",
                        "grpc_script": {f"/{pkg}.Jobs/Start": [{"messages": [d.b64(o)]}]},
                        "http_script": [{"status": 200, "body": json_format.MessageToJson(o)}]}
                calls.append(spec)
                metas.append({"transport": tr, "raw": True})
        else:
            hs = history_specs(r, tier_all)
            for hi, h in enumerate(hs):
                # with several bindings per selector the operation names match each binding in turn
                h["op_name"] = MULTI_OP_NAMES[hi % 3] if cell.get("ops_http") == "multi" else OP_NAME
            for cn, tr in transports:
                for h in hs:
                    flat_names = FLAT.get(cell.get("flat"), [])
                    rmode = {"mode": "message", "cls": f"{pypkg}:StartRequest", "b64": d.b64(rq)}
                    if flat_names and h is hs[0]:
                        rqf = d.new(pkg + ".StartRequest", name="jobs/1")
                        for fnm in flat_names:
                            setattr(rqf, fnm, "x-" + fnm)
                        rmode = {"mode": "kwargs", "cls": f"{pypkg}:StartRequest", "b64": d.b64(rqf), "kwargs": ["name"] + flat_names}
                    subjects = [("Start", start_py, None)]
                    if cell.get("internal") == "some" and h is hs[0]:
                        subjects.append(("Restart", "restart", None))       # the public LRO rpc of the same service (control)
                    if twin and h in hs[:2]:
                        subjects.append(("Again", twin["py"], twin))          # same response type, its own metadata type
                    for rpc, py, own in subjects:
                        # the server speaks the API as declared: it packs the annotated types, whatever the emitted code expects
                        e_, g_ = (own["exp"], own["got"]) if own else (exp, got)
                        declared = (e_[1], e_[2]) if e_[0] == "future" else (g_[1], g_[2])
                        ops, view = snapshots(d, declared[0], declared[1], h)
                        spec = {"service_module": "jobs", "client": cn, "transport": tr, "method": py,
                                "request": rmode if rpc == "Start" else {"mode": "message", "cls": f"{pypkg}:StartRequest", "b64": d.b64(rq)},
                                "consume": "lro", "lro_timeout": 180,   # real-time bound of the polling loop: waits are patched
                                "grpc_script": {f"/{pkg}.Jobs/{rpc}": [{"messages": [d.b64(ops[0])]}],
                                                GET_OP: [{"messages": [d.b64(o)]} for o in ops[1:]]},
                                "http_script": [{"status": 200, "body": json_format.MessageToJson(o, descriptor_pool=d.pool)} for o in ops]}
                        calls.append(spec)
                        mt = {"transport": tr, "history": h, "view": view, "ops": ops, "rpc": rpc}
                        if own:
                            mt.update(exp=own["exp"], got=own["got"], gots=own["gots"])
                        metas.append(mt)
        # the asyncio REST transport has its own driver; results are put back in call order
        ra = [i for i, mt in enumerate(metas) if mt["transport"] == "rest_asyncio"]
        rest_of = [i for i in range(len(calls)) if i not in ra]
        outc = [None] * len(calls)
        for i, o in zip(rest_of, gen.impl("drive", {"root": root, "package": pypkg, "calls": [calls[i] for i in rest_of]})):
            outc[i] = o
        if ra:
            for i, o in zip(ra, gen.impl("c08_rest_async", {"root": root, "package": pypkg, "calls": [calls[i] for i in ra]})):
                outc[i] = o
        exp0, got0, gots0 = exp, got, gots
        for spec, meta, o in zip(calls, metas, outc):
            # a call on the twin rpc is judged on that rpc's own annotation and emitted wrapping
            exp, got, gots = meta.get("exp", exp0), meta.get("got", got0), meta.get("gots", gots0)
            tr = meta["transport"]
            tag = f"{spec['client']}/{tr}.{spec['method']}"
            if meta.get("raw"):
                res["cases"].append(({"cell": cell, "transport": tr, "raw": True}, True, ["drive-raw", f"transport={tr}"]))
                if not o["ok"]:
                    bad(f"{tag} (un-annotated) raised {o['error']['exception']}: {o['error']['message'][:200]}", {"transport": tr})
                    continue
                v = o["result"][0]
                if v.get("type") != "google.longrunning.operations_pb2.Operation":
                    bad(f"{tag} (un-annotated) returned {v.get('type') or v.get('kind')}, expected the raw google.longrunning Operation", {"transport": tr})
                    continue
                back = operations_pb2.Operation.FromString(base64.b64decode(v["b64"]))
                if back.name != OP_NAME or back.done:
                    bad(f"{tag} (un-annotated): returned Operation differs from the server's reply", {"transport": tr})
                polls = [c for c in o["grpc_calls"] if c["path"] == GET_OP] + [c for c in o["http_calls"] if c["verb"] == "GET"]
                if polls:
                    bad(f"{tag} (un-annotated) polled the operations service {len(polls)} times", {"transport": tr})
                continue
            h, view = meta["history"], meta["view"]
            domain = h["final"] != "other_type"
            res["cases"].append(({"cell": cell, "transport": tr, "history": h}, True,
                                 ["drive-lro", f"transport={tr}", f"history={h['id']}", f"resp={cell['resp']}", f"meta={cell['meta']}"]
                                 + ([f"internal={cell['internal']}", f"method={spec['method']}"] if cell.get("internal") else [])))
            xcase = {"transport": tr, "history": h, "method": spec["method"]}
            if not o["ok"]:
                bad(f"{tag} [{h['id']}] raised {o['error']['exception']}: {o['error']['message'][:200]}", xcase, quirk_sig)
                continue
            v = o["result"][0]
            want_future = ("google.api_core.operation_async.AsyncOperation" if tr in ("grpc_asyncio", "rest_asyncio")
                           else "google.api_core.operation.Operation")
            if v.get("type") != want_future:
                bad(f"{tag} returned {v.get('type')}, expected an operation future {want_future}", xcase)
                continue
            # where the polling went
            if tr in ("rest", "rest_asyncio"):
                polls = [c for c in o["http_calls"][1:]]
                prefix = OPS_PREFIX if cell.get("ops_http") else pkg.split(".")[-1]
                ok_paths = all(c["verb"] == "GET" and c["path"] == f"/{prefix}/{h['op_name']}" for c in polls)
                first_ok = o["http_calls"] and o["http_calls"][0]["path"] == f"/v1/jobs/1:{meta['rpc'].lower()}"
            else:
                polls = o["grpc_calls"][1:]
                ok_paths = all(c["path"] == GET_OP for c in polls)
                first_ok = o["grpc_calls"] and o["grpc_calls"][0]["path"] == f"/{pkg}.Jobs/{meta['rpc']}"
            expected_polls = 0 if h["initial_done"] else h["not_done"] + 1
            # ---- T2: the future contract, inside Coq
            is_a = tr in ("grpc_asyncio", "rest_asyncio")
            g = gots[is_a] if (gots[is_a] and gots[is_a][0] == "lro") else got
            w = f"(emit_wrap {coq.b(is_a)} {coq.s(g[1])} {coq.s(g[2])})"
            obs = (f"(mkObs {observed_outcome(req, pypkg, v.get('result'), v.get('result_error'), g[1], is_a)} "
                   f"{observed_outcome(req, pypkg, v.get('metadata'), v.get('metadata_error'), g[2], is_a)} {coq.nat(len(polls))})")
            res["t2"].append((f"future {tag} [{h['id']}] {json.dumps(cell, sort_keys=True)}",
                              f"observed_eqb (run_future {w} {op_term(view[0])} {coq.lst(op_term(x) for x in view[1:])}) {obs}"))
            if not domain:
                continue
            # ---- direct oracle
            if not first_ok or not ok_paths:
                bad(f"{tag} [{h['id']}]: polling did not go to google.longrunning.Operations.GetOperation on the client's own connection: "
                    f"{[c.get('path') for c in (o['http_calls'] if tr in ('rest', 'rest_asyncio') else o['grpc_calls'])]}", xcase)
            if len(polls) != expected_polls:
                bad(f"{tag} [{h['id']}]: {len(polls)} GetOperation calls, expected {expected_polls}", xcase)
            if tr not in ("rest", "rest_asyncio"):
                for c in polls:
                    rqn = operations_pb2.GetOperationRequest.FromString(base64.b64decode(c["requests"][0])) if c["requests"] else None
                    if rqn is None or rqn.name != h["op_name"]:
                        bad(f"{tag} [{h['id']}]: GetOperation asked for {rqn and rqn.name!r}, expected {h['op_name']!r}", xcase)
                        break
            final = meta["ops"][-1]
            if h["final"] == "response":
                rv = v.get("result")
                want_cls = py_class_of(req, pypkg, exp[1]) if exp[0] == "future" else None
                if rv is None:
                    e = v.get("result_error", {})
                    bad(f"{tag} [{h['id']}]: result() raised {e.get('exception')}: {e.get('message', '')[:160]} instead of returning "
                        f"the annotated response type {exp[1] if exp[0] == 'future' else got[1]}", xcase, quirk_sig)
                elif exp[0] == "future" and rv.get("type") != want_cls:
                    bad(f"{tag} [{h['id']}]: result() is a {rv.get('type')}, expected an instance of {want_cls} ({exp[1]})", xcase, quirk_sig)
                elif exp[0] == "future":
                    sent = d.cls(exp[1])()
                    final.response.Unpack(sent)
                    if d.parse(exp[1], rv["b64"]) != sent:
                        bad(f"{tag} [{h['id']}]: result() content differs from what the server packed", xcase)
            else:
                e = v.get("result_error")
                if e is None:
                    bad(f"{tag} [{h['id']}]: result() returned although the operation finished with error {h['code']}", xcase)
                elif "GoogleAPICallError" not in e.get("mro", []) or "boom" not in e.get("message", ""):
                    bad(f"{tag} [{h['id']}]: result() raised {e.get('exception')}: {e.get('message', '')[:120]}, expected the operation's "
                        f"error (status {h['code']}, message 'boom') as an API error", xcase)
                elif tr not in ("grpc_asyncio", "rest_asyncio") and (e.get("grpc_status_code") != h["code"] or e.get("exception") != CODE_EXC[h["code"]]):
                    bad(f"{tag} [{h['id']}]: result() raised {e.get('exception')} ({e.get('grpc_status_code')}), expected "
                        f"{CODE_EXC[h['code']]} for status {h['code']}", xcase)
            mv = v.get("metadata")
            if h.get("no_metadata"):
                if mv is None or mv.get("kind") != "none":
                    bad(f"{tag} [{h['id']}]: metadata is {mv or v.get('metadata_error')} for an operation without metadata", xcase)
            elif exp[0] == "future":
                want_cls = py_class_of(req, pypkg, exp[2])
                if mv is None:
                    e = v.get("metadata_error", {})
                    bad(f"{tag} [{h['id']}]: metadata raised {e.get('exception')}: {e.get('message', '')[:160]} instead of being an "
                        f"instance of the annotated metadata type {exp[2]}", xcase, quirk_sig)
                elif mv.get("type") != want_cls:
                    bad(f"{tag} [{h['id']}]: metadata is a {mv.get('type')}, expected an instance of {want_cls} ({exp[2]})", xcase, quirk_sig)
                else:
                    sent = d.cls(exp[2])()
                    final.metadata.Unpack(sent)
                    if d.parse(exp[2], mv["b64"]) != sent:
                        bad(f"{tag} [{h['id']}]: metadata content differs from the last snapshot the server sent", xcase)
    finally:
        gen.rm(root)
    return res


def e2e_cells(ctx, n):
    # the corpus witnesses run first; then one cell per remaining dimension; cells that repeat a corpus witness with other
    # details come last (the quick tier stops before them), random cells only in the thorough tier
    cells = corpus_cells() + [
        # operation_info types in a file of the API named like a module the client imports on the LRO path (control: corpus cells
        # with the ordinary names); the corpus holds operation.proto and <pkg>.common/operation_async.proto
        {"pkg_index": 2, "resp": "empty", "meta": "rel_notimported", "annotated": True, "order": "svc-first", "types_name": "empty"},
    ] + ([{"pkg_index": 1, "resp": "empty", "meta": "rel_notimported", "annotated": True, "order": "svc-first", "types_name": "empty_pb2"}]
         if registered(PB2_CLASH_SIG) else []) + [
        {"pkg_index": 2, "resp": "rel_same", "meta": "rel_same", "annotated": False, "order": "types-first"},
        {"pkg_index": 0, "resp": "missing", "meta": "rel_same", "annotated": True, "order": "types-first"},
        {"pkg_index": 2, "resp": "fq_same", "meta": "rel_imported", "annotated": True, "order": "svc-first", "internal": "some", "raw_sibling": True},
        {"pkg_index": 1, "resp": "fq_imported", "meta": "rel_same", "annotated": True, "order": "types-first", "rest_async": True, "ops_http": "multi"},
        {"pkg_index": 2, "resp": "empty", "meta": "rel_same", "annotated": True, "order": "svc-first", "twin_meta": "fq_notimported"},
        {"pkg_index": 1, "resp": "fq_upper_pkg", "meta": "rel_notimported", "annotated": True, "order": "types-middle", "selective": True},
        {"pkg_index": 1, "resp": "empty", "meta": "rel_imported", "annotated": True, "order": "types-first"},
        {"pkg_index": 1, "resp": "fq_nested", "meta": "empty_elsewhere", "annotated": True, "order": "svc-first"},
        {"pkg_index": 2, "resp": "fq_notimported", "meta": "rel_notimported", "annotated": True, "order": "svc-first", "raw_sibling": True},
        {"pkg_index": 1, "resp": "fq_otherpkg", "meta": "fq_transitive", "annotated": True, "order": "svc-first", "ops_http": True},
        {"pkg_index": 2, "resp": "unknown_rel", "meta": "rel_same", "annotated": True, "order": "types-first"},
        {"pkg_index": 0, "resp": "rel_notimported", "meta": "fq_notimported", "annotated": True, "order": "svc-first", "types_name": "operation"},
        {"pkg_index": 2, "resp": "rel_notimported", "meta": "rel_same", "annotated": True, "order": "svc-first", "flat": "operation"},
        {"pkg_index": 1, "resp": "fq_subpkg_imported", "meta": "rel_subpkg_notimported", "annotated": True, "order": "types-first"},
        {"pkg_index": 0, "resp": "empty", "meta": "rel_nested_imported", "annotated": True, "order": "types-first", "flat": "operation_async"},
        {"pkg_index": 1, "resp": "fq_notimported", "meta": "rel_same", "annotated": True, "order": "types-first", "types_name": "operation_async", "rest_async": True},
        {"pkg_index": 0, "resp": "rel_notimported", "meta": "rel_notimported", "annotated": True, "order": "types-middle", "types_name": "operations_pb2"},
        {"pkg_index": 2, "resp": "rel_same", "meta": "rel_notimported", "annotated": True, "order": "types-middle", "types_name": "operations"},
        {"pkg_index": 0, "resp": "rel_notimported", "meta": "fq_subpkg_notimported", "annotated": True, "order": "svc-first", "types_name": "operation", "sub_name": "operation"},
        {"pkg_index": 0, "resp": "fq_same", "meta": "rel_notimported", "annotated": True, "order": "svc-first", "types_name": "operation", "flat": "operation"},
        {"pkg_index": 1, "resp": "rel_notimported", "meta": "fq_same", "annotated": True, "order": "svc-first", "types_name": "operations_v1", "internal": "some"},
        {"pkg_index": 0, "resp": "rel_notimported", "meta": "fq_same", "annotated": True, "order": "svc-first"},
        {"pkg_index": 0, "resp": "rel_same", "meta": "missing", "annotated": True, "order": "svc-first"},
        {"pkg_index": 0, "resp": "rel_nested", "meta": "rel_same", "annotated": True, "order": "types-first"},
        {"pkg_index": 1, "resp": "missing", "meta": "missing", "annotated": True, "order": "svc-first"},
        {"pkg_index": 1, "resp": "rel_alone", "meta": "rel_same", "annotated": True, "order": "types-first"},
        {"pkg_index": 1, "resp": "rel_imported", "meta": "rel_same", "annotated": True, "order": "svc-first", "ops_http": "multi"},
        {"pkg_index": 2, "resp": "rel_same", "meta": "rel_notimported", "annotated": True, "order": "svc-first", "rest_async": True},
    ]
    i = 0
    while len(cells) < n:
        r = env.rng("C08-e2e", i)
        i += 1
        pool = VALID * 3 + MISSING + UNKNOWN
        c = {"pkg_index": r.randrange(len(PACKAGES)), "resp": r.choice(pool), "meta": r.choice(pool),
             "annotated": r.random() < 0.88, "order": r.choice(["types-first", "svc-first", "types-middle"]), "raw_sibling": r.random() < 0.25,
             "types_name": r.choice(["types", "types"] + CLASH_NAMES), "ops_http": r.choice([False, False, True, "multi"])}
        if r.random() < 0.3:
            c["sub_name"] = r.choice(["operation", "operation_async", "operations"])
        if r.random() < 0.2:
            c["sub_imp_name"] = r.choice(["operation", "operation_async"])
        if r.random() < 0.3:
            c["flat"] = r.choice(["operation", "operation_async", "both"])
        if r.random() < 0.3:
            c["internal"] = r.choice(["all", "some"])
        if r.random() < 0.3:
            c["rest_async"] = True
        if r.random() < 0.3 and not c.get("internal"):
            c["selective"] = True
        if r.random() < 0.3 and not c.get("internal"):
            c["twin_meta"] = r.choice(["rel_same", "rel_imported", "fq_notimported", "empty", "fq_nested"])
        if pb2_clash(c) and not registered(PB2_CLASH_SIG):
            continue
        if c not in cells:
            cells.append(c)
    out = []
    for c in cells:
        if c not in out:
            out.append(c)
    return out[:n]


def run_e2e(ctx, cells, tier_all, full=True):
    results = gen.pmap(e2e_case, [(c, tier_all, i) for i, c in enumerate(cells)])
    t1, t2, agg = [], [], {}
    for res in results:
        if "invalid" in res:
            ctx.features["invalid-candidate"] += 1
            continue
        for obj, nontrivial, feats in res["cases"]:
            ctx.case(obj, nontrivial=nontrivial, feature=feats)
        for what, case, sig in res["violations"]:
            ctx.violation(what, case, sig)
        for name, ok, detail in res["oblige"]:
            a = agg.setdefault(name, [0, 0, ""])
            a[0] += 1
            if not ok:
                a[1] += 1
                a[2] = a[2] or f"{json.dumps(res['cell'], sort_keys=True)}: {detail}"
        t1.extend(res["t1"])
        t2.extend(res["t2"])
    for name, (tot, badn, detail) in agg.items():
        ctx.oblige(f"{name} ({tot} libraries)", badn == 0, f"{badn} of {tot}: {detail}", "T1")
    f1, e1, _ = coq.eval_checks("c08t1", "From GV Require Import Model.Lro.", "", t1)
    ctx.oblige(f"T1 emitted from_gapic arguments / operations_client = model output ({len(t1)} comparisons over {len(cells)} generated libraries)",
               not f1 and not e1 and (len(t1) > 0 or not full), "; ".join((f1 + e1)[:6]), "T1")
    f2, e2, _ = coq.eval_checks("c08t2", "From GV Require Import Model.Lro.", "", t2)
    ctx.oblige(f"T2 generation outcome and future contract: model = implementation on {len(t2)} observations",
               not f2 and not e2 and (len(t2) > 0 or not full), "; ".join((f2 + e2)[:6]))
    ctx.notes["e2e_cells"] = len(cells)
    return f1 + f2


def run(ctx):
    # the two stages are independent: the schema-level grid runs beside the end-to-end libraries
    import threading, traceback
    errs = []

    def schema():
        try:
            run_schema(ctx, grid(ctx, ctx.n(70, 700)))
        except Exception:  # noqa
            errs.append(traceback.format_exc()[-1500:])

    t = threading.Thread(target=schema)
    t.start()
    try:
        run_e2e(ctx, e2e_cells(ctx, ctx.n(26, 120)), tier_all=not ctx.quick())
    finally:
        t.join()
    if errs:
        ctx.oblige("schema-level stage completed", False, errs[0], "build")


def search(ctx, broken):
    """A tie broke without an oracle failure: drive every history on a wider slice of the valid cells."""
    cells = [c for c in e2e_cells(ctx, 60) if c["annotated"]][:ctx.n(24, 60)]
    run_e2e(ctx, cells, tier_all=True)


def replay(ctx, rep):
    c = rep.get("case", {})
    cell = c.get("cell")
    if not cell:
        return run(ctx)
    run_schema(ctx, [cell])
    run_e2e(ctx, [cell], tier_all=True, full=False)
