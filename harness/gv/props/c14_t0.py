"""C14 T0 extractors (ast, fail-closed): the literals Model/Samples.v was written against. Writes Gen/SamplesGen.v."""
import ast, os, re
from .. import env, coq


def _parse(rel):
    p = os.path.join(env.REPO, rel)
    return ast.parse(open(p, encoding="utf-8").read(), filename=p)


def _fn(tree, name, cls=None):
    body = tree.body
    if cls:
        c = [n for n in body if isinstance(n, ast.ClassDef) and n.name == cls]
        if not c:
            raise ValueError(f"class {cls} not found")
        body = c[0].body
    f = [n for n in body if isinstance(n, ast.FunctionDef) and n.name == name]
    if len(f) != 1:
        raise ValueError(f"function {name} not found")
    return f[0]


def segment_literals():
    t = _parse("gapic/samplegen_utils/snippet_index.py")
    res = {}
    for n in t.body:
        if isinstance(n, ast.Assign) and isinstance(n.targets[0], ast.Name) and n.targets[0].id.endswith("_RE"):
            c = n.value
            if not (isinstance(c, ast.Call) and ast.unparse(c.func) == "re.compile" and len(c.args) == 1 and isinstance(c.args[0], ast.Constant)):
                raise ValueError(f"{n.targets[0].id} is not re.compile(<literal>)")
            res[n.targets[0].id] = c.args[0].value
    want = ["CLIENT_INIT_RE", "REQUEST_INIT_RE", "REQUEST_EXEC_RE", "RESPONSE_HANDLING_RE"]
    if sorted(res) != sorted(want):
        raise ValueError(f"segment regexes {sorted(res)}")
    fn = _fn(t, "_parse_snippet_segments", "Snippet")
    # the if / elif chain of the loop: (test source, assigned attributes)
    loop = [n for n in fn.body if isinstance(n, ast.For)]
    if len(loop) != 1 or ast.unparse(loop[0].iter) != "enumerate(self.sample_lines, start=1)":
        raise ValueError("the segment loop is no longer `for i, line in enumerate(self.sample_lines, start=1)`")
    chain, node = [], loop[0].body[0]
    while isinstance(node, ast.If):
        chain.append((ast.unparse(node.test), "; ".join(ast.unparse(s) for s in node.body)))
        node = node.orelse[0] if len(node.orelse) == 1 else None
    fs = _fn(t, "full_snippet", "Snippet")
    # what follows the loop, up to the call that stores the segments
    k = fn.body.index(loop[0])
    post = []
    for st in fn.body[k + 1:]:
        if isinstance(st, ast.Expr) and "segments.extend" in ast.unparse(st):
            break
        post.append(re.sub(r"\s+", " ", ast.unparse(st)))
    else:
        raise ValueError("_parse_snippet_segments no longer ends with metadata.segments.extend(...)")
    return [res[k] for k in want], chain, [ast.unparse(s) for s in fs.body if not isinstance(s, ast.Expr)], post


def request_object_literals():
    """The two places of generate_request_object the model depends on beyond its plain structure."""
    fn = _fn(_parse("gapic/samplegen/samplegen.py"), "generate_request_object")
    req = [n for n in ast.walk(fn) if isinstance(n, ast.Assign) and ast.unparse(n.targets[0]) == "required_fields"]
    if len(req) != 1:
        raise ValueError("required_fields is no longer assigned once in generate_request_object")
    loop = [n for n in fn.body if isinstance(n, ast.For) and ast.unparse(n.iter) == "request_fields"]
    if len(loop) != 1 or not isinstance(loop[0].body[-1], ast.If):
        raise ValueError("generate_request_object: the loop over request_fields changed shape")
    tests, node = [], loop[0].body[-1]
    while isinstance(node, ast.If):
        tests.append(ast.unparse(node.test))
        node = node.orelse[0] if len(node.orelse) == 1 and isinstance(node.orelse[0], ast.If) else None
    rec = [c for c in ast.walk(loop[0]) if isinstance(c, ast.Call) and ast.unparse(c.func) == "generate_request_object"]
    if len(rec) != 1:
        raise ValueError("generate_request_object: expected one recursive call")
    return re.sub(r"\s+", " ", ast.unparse(req[0].value)), tests, sorted(f"{k.arg}={ast.unparse(k.value)}" for k in rec[0].keywords)


def samplegen_literals():
    t = _parse("gapic/samplegen/samplegen.py")
    fn = _fn(t, "generate_sample_specs")
    tags = [n for n in ast.walk(fn) if isinstance(n, ast.Assign) and ast.unparse(n.targets[0]) == "region_tag"]
    aug = [n for n in ast.walk(fn) if isinstance(n, ast.AugAssign) and ast.unparse(n.target) == "region_tag"]
    if len(tags) != 1 or len(aug) != 1:
        raise ValueError("region_tag is no longer assigned once and extended once in generate_sample_specs")
    so = _fn(t, "_sync_or_async_from_transport")
    sg = _fn(t, "_supports_grpc")
    a = _parse("gapic/schema/api.py")
    consts = {}
    for n in a.body:
        if isinstance(n, ast.Assign) and isinstance(n.targets[0], ast.Name) and n.targets[0].id.startswith("TRANSPORT_"):
            consts[n.targets[0].id] = n.value.value
    if sorted(consts) != ["TRANSPORT_GRPC", "TRANSPORT_GRPC_ASYNC", "TRANSPORT_REST"]:
        raise ValueError(f"transport constants {sorted(consts)}")
    return (ast.unparse(tags[0].value), ast.unparse(aug[0]), [ast.unparse(s) for s in so.body], [ast.unparse(s) for s in sg.body],
            [consts[k] for k in ("TRANSPORT_GRPC", "TRANSPORT_GRPC_ASYNC", "TRANSPORT_REST")])


def index_literals():
    """How SnippetIndex files and fetches a snippet: the statements of add_snippet that store it, the return of get_snippet."""
    t = _parse("gapic/samplegen_utils/snippet_index.py")
    add = _fn(t, "add_snippet", "SnippetIndex")
    get = _fn(t, "get_snippet", "SnippetIndex")
    store = [re.sub(r"\s+", " ", ast.unparse(st)) for st in add.body
             if any(isinstance(n, ast.Subscript) and isinstance(n.ctx, ast.Store) and ast.unparse(n.value) == "method" for n in ast.walk(st))]
    ret = [ast.unparse(st) for st in get.body if isinstance(st, ast.Return)]
    if not store or len(ret) != 1:
        raise ValueError("SnippetIndex.add_snippet / get_snippet changed shape")
    return store, ret[0]


def calling_forms():
    t = _parse("gapic/samplegen_utils/types.py")
    c = [n for n in t.body if isinstance(n, ast.ClassDef) and n.name == "CallingForm"]
    if not c:
        raise ValueError("CallingForm not found")
    members = [n.targets[0].id for n in c[0].body if isinstance(n, ast.Assign) and isinstance(n.targets[0], ast.Name)]
    md = _fn(t, "method_default", "CallingForm")
    return members, [ast.unparse(s) for s in md.body]


def _flat(lines):
    return [re.sub(r"\s+", " ", x) for x in lines]


def gen_text():
    regs, chain, fs, post = segment_literals()
    rq, tests, rec = request_object_literals()
    tag, aug, so, sg, tr = samplegen_literals()
    members, md = calling_forms()
    store, ret = index_literals()
    q = coq.s
    return "\n".join([
        "(* Gen/SamplesGen.v — REGENERATED on every run (T0) from gapic/samplegen/samplegen.py, samplegen_utils/snippet_index.py,",
        "   samplegen_utils/types.py and gapic/schema/api.py with ast. Do not edit. *)",
        "From GV Require Import Base.Str.",
        f"Definition SEGMENT_RES : list string := {coq.slist(regs)}.",
        "Definition SEGMENT_CHAIN : list (string * string) := " + coq.lst(f"({q(a)}, {q(b)})" for a, b in chain) + ".",
        f"Definition FULL_SNIPPET_SRC : list string := {coq.slist(fs)}.",
        f"Definition SEGMENT_POST_SRC : list string := {coq.slist(post)}.",
        f"Definition GRO_REQUIRED_SRC : string := {q(rq)}.",
        f"Definition GRO_BRANCH_TESTS : list string := {coq.slist(tests)}.",
        f"Definition GRO_RECURSIVE_KWARGS : list string := {coq.slist(rec)}.",
        f"Definition INDEX_STORE_SRC : list string := {coq.slist(store)}.",
        f"Definition INDEX_GET_SRC : string := {q(ret)}.",
        f"Definition REGION_TAG_SRC : string := {q(tag)}.",
        f"Definition REGION_TAG_INTERNAL_SRC : string := {q(aug)}.",
        f"Definition SYNC_OR_ASYNC_SRC : list string := {coq.slist(_flat(so))}.",
        f"Definition SUPPORTS_GRPC_SRC : list string := {coq.slist(_flat(sg))}.",
        f"Definition TRANSPORTS : list string := {coq.slist(tr)}.",
        f"Definition CALLING_FORMS : list string := {coq.slist(members)}.",
        f"Definition METHOD_DEFAULT_SRC : list string := {coq.slist(_flat(md))}.",
        ""])


def write():
    coq.write_gen("SamplesGen", gen_text())
