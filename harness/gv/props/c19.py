"""C19 — resource path helpers build and parse names as mutual inverses."""
import ast, json, re, string
from .. import env, coq, gen, apis, apigen

RULE = ("patterns drawn from a grammar (1..6 variables, literal collection ids, separators / - _ ~ . between variables, "
        "trailing {v=**}, '*', regex metacharacters in literals) plus the corpus; for each pattern in-domain value tuples, "
        "noisy value tuples, built paths, mutated paths and random strings. A case is one (pattern, values-or-path) pair; "
        "distinct = distinct canonical JSON; non-trivial = the pattern has at least one variable. "
        "End-to-end: generated APIs whose emitted client helpers are read with ast and compared with the model.")
TRUSTED = [
    "Model/ResPath.v: hand-written model of PATH_ARG_RE tokenisation, resource_path_args/_formatted/path_regex_str and of "
    "Python re.match on the emitted regex class (escaped literals, lazy named groups, '$' before a final newline) and str.format",
    "contract: Python's re and str.format behave as Model/ResPath.v says on that class (validated on every run by T2)",
    "harness/gv/impl/respath.py, the ast reader of emitted *_path helpers, apigen + DescriptorPool as validity judge",
]
ASSUMES = ["patterns have distinct variable names that are Python identifiers and no brace characters in literal text "
           "(otherwise the emitted helper is not a valid function definition; outside C19's quantifier)"]

SEPS = ["/", "/", "/", "-", "_", "~", "."]
LITS = ["shelves", "books", "projects", "locations", "a", "x-y", "v1.2", "items", "k_s", "c+d", "e(f)", "g[h]", "q?", "r|s", "t^u", "w$", "m#n", "o p"]
VALCHARS = string.ascii_letters + string.digits + "-_.~+%@:,;=!$&'()*[]# "

CORPUS = [
    "shelves/{shelf}/books/{book}", "{x}.{y}", "{a}-{b}_{c}~{d}", "projects/{project}/locations/{location}/keyRings/{key_ring}",
    "*", "files/{file=**}", "a.b/{x}", "{only}", "plain/literal", "as/{a}-{b}/cs/{c}%{d}_{e}", "x/{y}/z", "p/{q}/r/{s=**}",
    "kingdoms-{kingdom}_{phylum}#classes%{klass}", "a+b/{c}", "{a}/{b}", "projects/{project}/metricDescriptors/{metric_descriptor=**}",
    # variables named by words of the generator's reserved list that are legal Python identifiers: the helper's parameters, the
    # format string and the parser's group names all use the pattern's own names
    "projects/{project}/types/{type}/formats/{format}", "buckets/{bucket}/objects/{object=**}", "lists/{list}/ranges/{range}~{hash}",
    "{any}/{all}/{next}", "licenses/{license}/{min}-{max}",
    # variable names that are identifiers but not lower snake case
    "publishers/{publisherId}/shelves/{Shelf}", "{_id}/{X9}", "orgs/{OrgID}/items/{item_2=**}", "{_}/{__}",
]


def gen_pattern(r):
    if r.random() < 0.04:
        return "*"
    nvars = r.randint(1, 6)
    parts, names = [], []
    pool = ["project", "location", "shelf", "book", "a", "b1", "key_ring", "x", "item_id", "zone", "v", "name2", "org", "folder",
            "type", "object", "format", "list", "range", "hash", "license", "filter", "max", "id", "input", "set",
            "publisherId", "Project", "_id", "shelfID", "X9", "topic_2", "_"]
    r.shuffle(pool)
    i = 0
    while i < nvars:
        if r.random() < 0.7:
            parts.append(r.choice(LITS))
        # one segment: one variable, or several joined by a non-slash separator
        k = 1 if r.random() < 0.7 else r.randint(2, min(3, nvars - i + 1))
        seg = []
        for _ in range(k):
            if i >= nvars:
                break
            seg.append("{" + pool[i] + "}")
            names.append(pool[i])
            i += 1
        sep = r.choice(["-", "_", "~", ".", "%", "--"])
        parts.append(sep.join(seg))
    if r.random() < 0.25:
        parts.append(r.choice(["config", "settings", "x.y"]))  # singleton suffix
    pat = "/".join(parts)
    if r.random() < 0.25 and pat.endswith("}"):
        pat = pat[:-1] + "=**}"
    return pat


PATH_ARG = re.compile(r"\{([a-zA-Z0-9_\-]+)(?:=\*\*)?\}")  # reference tokeniser of the oracle (independent of /repo)


def split_pattern(pat):
    """[('lit', text) | ('var', name)] — oracle-side view of the pattern."""
    out, pos = [], 0
    for m in PATH_ARG.finditer(pat):
        if m.start() > pos:
            out.append(("lit", pat[pos:m.start()]))
        out.append(("var", m.group(1)))
        pos = m.end()
    if pos < len(pat):
        out.append(("lit", pat[pos:]))
    return out


def in_domain_values(r, pat):
    toks = split_pattern(pat)
    vals = []
    for i, (k, v) in enumerate(toks):
        if k != "var":
            continue
        nxt = toks[i + 1] if i + 1 < len(toks) else None
        if nxt and nxt[0] == "var":
            return None  # adjacent variables: outside the domain
        avoid = {"\n"}
        if nxt:
            avoid.add(nxt[1][0])
        last = nxt is None
        chars = [c for c in VALCHARS + ("/" if last else "") if c not in avoid]
        vals.append([v, "".join(r.choice(chars) for _ in range(r.randint(1, 6)))])
    return vals


def noisy_values(r, pat):
    vals = []
    for k, v in split_pattern(pat):
        if k == "var":
            vals.append([v, "".join(r.choice(VALCHARS + "/\n") for _ in range(r.randint(0, 5)))])
    return vals


def mutate(r, s):
    if not s:
        return "x"
    i = r.randrange(len(s))
    op = r.choice(["del", "ins", "sub", "nl", "trunc"])
    if op == "del":
        return s[:i] + s[i + 1:]
    if op == "ins":
        return s[:i] + r.choice(VALCHARS + "/") + s[i:]
    if op == "sub":
        return s[:i] + r.choice(VALCHARS + "/") + s[i + 1:]
    if op == "nl":
        return s + "\n"
    return s[:i]


def env_term(pairs):
    # a group that did not participate (None) is rendered as a value the model can never produce
    return coq.lst(f"({coq.s(k)}, {coq.s(v if v is not None else chr(0) + 'None')})" for k, v in pairs)


def run_pure(ctx, patterns, nvals):
    """T2 + oracle on the pure functions and the re/format contract."""
    cases = []
    for idx, pat in enumerate(patterns):
        r = env.rng("C19", idx)
        vals, paths = [], []
        dom = []
        for _ in range(nvals):
            v = in_domain_values(r, pat)
            if v is not None and pat != "*":
                vals.append(v)
                dom.append(True)
        for _ in range(max(1, nvals // 2)):
            vals.append(noisy_values(r, pat))
            dom.append(False)
        cases.append({"pattern": pat, "vals": vals, "dom": dom, "paths": paths})
    # first implementation pass builds paths; second parses built + mutated + random strings
    out1 = gen.impl("respath", [{"pattern": c["pattern"], "vals": c["vals"], "paths": []} for c in cases])
    for idx, (c, o) in enumerate(zip(cases, out1)):
        r = env.rng("C19-paths", idx)
        built = [b for b in o["built"] if isinstance(b, str)]
        c["paths"] = list(built) + [mutate(r, b) for b in built] + \
            ["".join(r.choice(VALCHARS + "/") for _ in range(r.randint(0, 12))) for _ in range(3)] + ["", "\n"]
    out = gen.impl("respath", cases)
    checks, oracle_fail = [], 0
    for idx, (c, o) in enumerate(zip(cases, out)):
        pat = c["pattern"]
        P = coq.s(pat)
        toks = split_pattern(pat)
        nvar = sum(1 for k, _ in toks if k == "var")
        feats = ["star" if pat == "*" else f"vars={nvar}"]
        if "=**}" in pat:
            feats.append("trailing**")
        if any(ch in pat for ch in ".+()[]?|^$#"):
            feats.append("metachar-literal")
        checks.append((f"{pat!r}: args", f"list_eqb String.eqb (args (tokenize {P})) {coq.slist(o['args'])}"))
        checks.append((f"{pat!r}: formatted", f"String.eqb (formatted (tokenize {P})) {coq.s(o['fmt'])}"))
        checks.append((f"{pat!r}: regex", f"String.eqb (regex_str {P}) {coq.s(o['regex'])}"))
        for vals, dom, built in zip(c["vals"], c["dom"], o["built"]):
            ctx.case({"pattern": pat, "vals": vals}, nontrivial=nvar > 0, feature=feats + ["in-domain" if dom else "noisy"])
            if isinstance(built, dict):
                ctx.oblige(f"T2 build {pat!r} {vals!r}", False, f"implementation raised {built}")
                continue
            checks.append((f"{pat!r}: build {vals!r}", f"String.eqb (build {P} {env_term(vals)}) {coq.s(built)}"))
            if dom:
                checks.append((f"{pat!r}: okb {vals!r}", f"okb (tokenize {P}) {env_term(vals)}"))
        for path, parsed in zip(c["paths"], o["parsed"]):
            ctx.case({"pattern": pat, "path": path}, nontrivial=nvar > 0, feature=feats + ["parse"])
            if isinstance(parsed, dict):
                ctx.oblige(f"T2 parse {pat!r} {path!r}", False, f"implementation raised {parsed}")
                continue
            checks.append((f"{pat!r}: parse {path!r}", f"env_eqb (parse {P} {coq.s(path)}) {env_term(parsed)}"))
        # ---- direct oracle: the property's own sentence on the implementation ----
        parsed_of = dict(zip(c["paths"], o["parsed"]))
        for vals, dom, built in zip(c["vals"], c["dom"], o["built"]):
            if not dom or not isinstance(built, str):
                continue
            got = parsed_of.get(built)
            if got is None or isinstance(got, dict):
                continue
            if [list(x) for x in got] != [list(x) for x in vals]:
                sig = "respath.regex_metachar_literal" if any(ch in "".join(v for k, v in toks if k == "lit") for ch in ".+()[]?|^$*\\") else None
                ctx.violation(f"parse(build(vals)) != vals for pattern {pat!r}", {"pattern": pat, "vals": vals, "built": built, "parsed": got}, sig)
                oracle_fail += 1
        if pat != "*":
            for path, parsed in zip(c["paths"], o["parsed"]):
                if isinstance(parsed, dict) or not parsed or "\n" in path:
                    continue
                try:
                    rebuilt = o["fmt"].format(**dict(parsed))
                except Exception as e:  # noqa
                    rebuilt = f"<{type(e).__name__}>"
                if rebuilt != path:
                    ctx.violation(f"build(parse(path)) != path for pattern {pat!r}", {"pattern": pat, "path": path, "parsed": parsed, "rebuilt": rebuilt})
                    oracle_fail += 1
            # a string that cannot be an instance (first literal character changed) must parse to {}
            if toks and toks[0][0] == "lit":
                for path, parsed in zip(c["paths"], o["parsed"]):
                    if isinstance(parsed, dict):
                        continue
                    if not path.startswith(toks[0][1]) and parsed:
                        ctx.violation(f"non-matching string parsed non-empty for {pat!r}", {"pattern": pat, "path": path, "parsed": parsed})
                        oracle_fail += 1
    failing, errors, nfiles = coq.eval_checks("c19pure", "From GV Require Import Model.ResPath.", "", checks)
    ctx.oblige(f"T2 model = implementation on {len(checks)} evaluations of tokenise/format/regex/build/parse ({nfiles} cases files)",
               not failing and not errors, "; ".join((failing + errors)[:8]))
    ctx.notes["pure_checks"] = len(checks)
    ctx.notes["pure_disagreements"] = failing[:20]
    return failing


# ---------------------------------------------------------------- end to end
def snake(s):
    return re.sub(r"(?<=[a-z0-9])([A-Z])", r"_\1", s).lower()


def extract_helpers(client_src):
    """{class: {helper_name: {'args':[..],'fmt':str} | {'regex': str}}} read with ast (fail-closed)."""
    tree = ast.parse(client_src)
    out = {}
    for cls in [n for n in tree.body if isinstance(n, ast.ClassDef)]:
        h = {}
        for fn in [n for n in cls.body if isinstance(n, ast.FunctionDef) and n.name.endswith("_path")]:
            ret = next((s for s in fn.body if isinstance(s, ast.Return)), None)
            if fn.name.startswith("parse_"):
                asg = next((s for s in fn.body if isinstance(s, ast.Assign)), None)
                call = asg.value if asg is not None else None
                if not (isinstance(call, ast.Call) and isinstance(call.func, ast.Attribute) and call.func.attr == "match"
                        and isinstance(call.args[0], ast.Constant) and isinstance(call.args[0].value, str)):
                    raise ValueError(f"unexpected shape of {fn.name}")
                rs = ast.unparse(ret.value) if ret else ""
                if rs != "m.groupdict() if m else {}":
                    raise ValueError(f"unexpected return of {fn.name}: {rs}")
                h[fn.name] = {"regex": call.args[0].value, "decorators": [ast.unparse(d) for d in fn.decorator_list],
                              "src": ast.unparse(ast.FunctionDef(name=fn.name, args=fn.args, body=fn.body, returns=None, type_comment=None,
                                                                 decorator_list=[d for d in fn.decorator_list if ast.unparse(d) != "staticmethod"],
                                                                 lineno=0, col_offset=0))}
            else:
                call = ret.value if ret else None
                if not (isinstance(call, ast.Call) and isinstance(call.func, ast.Attribute) and call.func.attr == "format"
                        and isinstance(call.func.value, ast.Constant)):
                    raise ValueError(f"unexpected shape of {fn.name}")
                kws = [(k.arg, ast.unparse(k.value)) for k in call.keywords]
                if any(k != v for k, v in kws):
                    raise ValueError(f"{fn.name}: keyword not passed through: {kws}")
                h[fn.name] = {"args": [a.arg for a in fn.args.args], "kw": [k for k, _ in kws], "fmt": call.func.value.value}
        if h:
            out[cls.name] = h
    return out


COMMON = {"billing_account": "billingAccounts/{billing_account}", "folder": "folders/{folder}",
          "organization": "organizations/{organization}", "project": "projects/{project}",
          "location": "projects/{project}/locations/{location}"}


def expected_resources(req):
    """Reference (independent of /repo): per service, {helper base name: first pattern} visible to it."""
    from google.api import resource_pb2
    from google.longrunning import operations_pb2
    msgs, visible = {}, {}

    def walk(prefix, m, top):
        fqn = prefix + "." + m.name
        msgs[fqn] = m
        for n in m.nested_type:
            walk(fqn, n, False)

    for fp in req.proto_file:
        for rd in fp.options.Extensions[resource_pb2.resource_definition]:
            if rd.pattern:
                visible.setdefault(rd.type, rd.pattern[0])
        for m in fp.message_type:
            walk("." + fp.package if fp.package else "", m, True)
            rr = m.options.Extensions[resource_pb2.resource]
            if rr.type and rr.pattern:
                visible.setdefault(rr.type, rr.pattern[0])

    def closure(fqn):
        seen, todo = set(), [fqn]
        while todo:
            x = todo.pop()
            if x in seen or x not in msgs:
                continue
            seen.add(x)
            for f in msgs[x].field:
                if f.type == f.TYPE_MESSAGE:
                    todo.append(f.type_name)
        return seen

    out = {}
    for fp in req.proto_file:
        if fp.name not in req.file_to_generate:
            continue
        for s in fp.service:
            found = {}
            for m in s.method:
                roots = [m.input_type]
                oi = m.options.Extensions[operations_pb2.operation_info]
                if m.output_type == ".google.longrunning.Operation" and oi.response_type:
                    rt = oi.response_type
                    roots.append("." + rt if "." in rt else f".{fp.package}.{rt}")
                else:
                    roots.append(m.output_type)
                for root in roots:
                    for x in closure(root):
                        rr = msgs[x].options.Extensions[resource_pb2.resource]
                        if rr.pattern:
                            found[rr.type] = rr.pattern[0]
                        for f in msgs[x].field:
                            ref = f.options.Extensions[resource_pb2.resource_reference]
                            t = ref.type or ref.child_type
                            if t and t in visible:
                                found[t] = visible[t]
            out[s.name] = {snake(t[t.find("/") + 1:]): p for t, p in found.items()}
    return out


def vis_terms(req):
    """Per service: (schema term, table term, roots term) for Model/ResVis.v, derived from the INPUT descriptors."""
    from google.api import resource_pb2
    from google.longrunning import operations_pb2
    msgs, table = [], []

    def walk(prefix, m, top):
        fqn = prefix + "." + m.name
        ftypes = [f.type_name for f in m.field if f.type == f.TYPE_MESSAGE]
        refs = []
        for f in m.field:
            ref = f.options.Extensions[resource_pb2.resource_reference]
            if ref.type or ref.child_type:
                refs.append(ref.type or ref.child_type)
        rr = m.options.Extensions[resource_pb2.resource]
        res = (rr.type, rr.pattern[0]) if rr.pattern else None
        msgs.append((fqn, ftypes, refs, res))
        for n in m.nested_type:
            walk(fqn, n, False)
    for fp in req.proto_file:
        file_defs = [(rd.type, rd.pattern[0]) for rd in fp.options.Extensions[resource_pb2.resource_definition] if rd.pattern]
        tops = []
        for m in fp.message_type:
            walk("." + fp.package if fp.package else "", m, True)
            rr = m.options.Extensions[resource_pb2.resource]
            if rr.type and rr.pattern:
                tops.append((rr.type, rr.pattern[0]))
        table += file_defs + tops
    sch = coq.lst(f"mkV {coq.s(n)} {coq.slist(ft)} {coq.slist(rf)} " + ("None" if rs is None else f"(Some ({coq.s(rs[0])}, {coq.s(rs[1])}))")
                  for n, ft, rf, rs in msgs)
    tbl = coq.lst(f"({coq.s(t)}, {coq.s(p)})" for t, p in table)
    out = {}
    for fp in req.proto_file:
        if fp.name not in req.file_to_generate:
            continue
        for s in fp.service:
            roots = []
            for m in s.method:
                roots.append(m.input_type)
                oi = m.options.Extensions[operations_pb2.operation_info]
                if m.output_type == ".google.longrunning.Operation" and oi.response_type:
                    rt = oi.response_type
                    roots.append("." + rt if "." in rt else f".{fp.package}.{rt}")
                else:
                    roots.append(m.output_type)
            out[s.name] = coq.slist(roots)
    return sch, tbl, out


def resource_api(r):
    """A conventional API whose resource patterns come from the pattern grammar; also file-level definitions and references."""
    api = apis.conventional(r)
    # re-pattern the resources
    from google.api import resource_pb2
    for f in api.files:
        for m in f.proto.message_type:
            rr = m.options.Extensions[resource_pb2.resource]
            if rr.type and r.random() < 0.6:
                p = gen_pattern(r)
                if p != "*" and len(set(v for k, v in split_pattern(p) if k == "var")) == sum(1 for k, _ in split_pattern(p) if k == "var"):
                    del rr.pattern[:]
                    rr.pattern.extend([p, "alt/{alt}"])
    if r.random() < 0.6:
        # a resource referenced ONLY from the response type of a long-running operation (type and child_type forms)
        api.main.resource_def("library.example.com/Depot", ["depots/{depot}/bins/{bin=**}"])
        api.main.resource_def("library.example.com/Crate", ["crates/{crate}"])
        api.main.dep("google/longrunning/operations.proto")
        rq = api.main.message("ArchiveRequest"); rq.field("name", 1, "string")
        inner = api.main.message("ArchiveDetail"); inner.field("crate", 1, "string", child_ref="library.example.com/Crate")
        rs = api.main.message("ArchiveResponse"); rs.field("depot", 1, "string", ref="library.example.com/Depot").field("detail", 2, inner.fqn)
        md = api.main.message("ArchiveMetadata"); md.field("pct", 1, "int32")
        api.services[0].rpc("Archive", rq.fqn, ".google.longrunning.Operation", http=("post", "/v1/{name=things/*}:archive"), body="*",
                            lro=("ArchiveResponse", "ArchiveMetadata"))
    if r.random() < 0.7:
        api.main.resource_def("library.example.com/Vault", [gen_pattern(r).replace("*", "vaults/{vault}")])
        m = api.main.message("VaultRef")
        m.field("vault", 1, "string", ref="library.example.com/Vault")
        # reference it from some request
        tgt = api.main.proto.message_type[-2] if len(api.main.proto.message_type) > 1 else None
        if tgt is not None and tgt.name.endswith("Request"):
            f = tgt.field.add()
            f.name, f.number, f.label, f.type, f.type_name = "vault_ref", 99, 1, 11, m.fqn
    if r.random() < 0.7:
        # references two and three messages below a request / a response, through a cycle of message types
        api.main.resource_def("library.example.com/DeepTopic", ["deepTopics/{deep_topic}"])
        api.main.resource_def("library.example.com/DeepSink", ["deepSinks/{deep_sink}/parts/{part}"])
        pk = "." + api.main.proto.package
        d1 = api.main.message("DeepOne"); d1.field("two", 1, pk + ".DeepTwo").field("label", 2, "string")
        d2 = api.main.message("DeepTwo"); d2.field("sink", 1, "string", child_ref="library.example.com/DeepSink").field("three", 2, pk + ".DeepThree")
        d3 = api.main.message("DeepThree"); d3.field("topic", 1, "string", ref="library.example.com/DeepTopic").field("back", 2, d1.fqn, repeated=True)
        by_name = {"." + api.main.proto.package + "." + m.name: m for m in api.main.proto.message_type}
        svc = r.choice(api.services).proto
        cands = [t for meth in svc.method for t in (meth.input_type, meth.output_type) if t in by_name]
        if cands:
            tgt = by_name[r.choice(sorted(set(cands)))]
            f = tgt.field.add()
            f.name, f.number, f.label, f.type, f.type_name = "deep_one", 98, 1, 11, d1.fqn
    if r.random() < 0.7:
        api.main.resource_def("library.example.com/Codec", ["projects/{project}/types/{type}/formats/{format}"])
        api.main.resource_def("library.example.com/Blob", ["buckets/{bucket}/objects/{object=**}"])
        by_name = {"." + api.main.proto.package + "." + m.name: m for m in api.main.proto.message_type}
        svc = r.choice(api.services).proto
        cands = sorted({t for meth in svc.method for t in (meth.input_type, meth.output_type) if t in by_name})
        if cands:
            tgt = by_name[r.choice(cands)]
            for nm, num, typ in (("codec", 93, "library.example.com/Codec"), ("blob", 94, "library.example.com/Blob")):
                f = tgt.field.add(); f.name, f.number, f.label, f.type = nm, num, 1, 9
                f.options.Extensions[resource_pb2.resource_reference].type = typ
    if r.random() < 0.7:
        # an rpc whose RESPONSE is itself a resource message that embeds another resource message reached by nothing else
        # (and one more level: a resource inside a plain message inside that resource)
        gem = api.main.message("InnerGem"); gem.field("name", 1, "string"); gem.resource("library.example.com/InnerGem", ["innerGems/{inner_gem}"])
        speck = api.main.message("GemSpeck"); speck.field("name", 1, "string"); speck.resource("library.example.com/GemSpeck", ["innerGems/{inner_gem}/specks/{gem_speck}"])
        wrap = api.main.message("GemWrap"); wrap.field("speck", 1, speck.fqn)
        box = api.main.message("OuterBox"); box.field("name", 1, "string").field("gem", 2, gem.fqn).field("wrap", 3, wrap.fqn)
        box.resource("library.example.com/OuterBox", ["outerBoxes/{outer_box}"])
        gq = api.main.message("GetOuterBoxRequest"); gq.field("name", 1, "string")
        r.choice(api.services).rpc("GetOuterBox", gq.fqn, box.fqn, http=("get", "/v1/{name=outerBoxes/*}"), sigs=["name"])
    if r.random() < 0.7:
        # two different messages with the SAME short name (nested: Rack.Details / Tome.Details) on the way down from a response; a resource
        # message sits below one of them only. Both field orders, because the walk over field types is a stack.
        for tag, order in (("A", ("rack", "tome")), ("B", ("tome", "rack"))):
            auth = api.main.message(f"Curator{tag}"); auth.field("name", 1, "string")
            auth.resource(f"library.example.com/Curator{tag}", ["curators%s/{curator_%s}" % (tag, tag.lower())])
            rack = api.main.message(f"Rack{tag}"); rd = rack.nested("Details"); rd.field("curator", 1, auth.fqn)
            rack.field("details", 1, rd.fqn)
            tome = api.main.message(f"Tome{tag}"); td = tome.nested("Details"); td.field("note", 1, "string")
            tome.field("details", 1, td.fqn)
            cat = api.main.message(f"Catalog{tag}")
            for n, which in enumerate(order, 1):
                cat.field(which, n, (rack if which == "rack" else tome).fqn)
            cq = api.main.message(f"GetCatalog{tag}Request"); cq.field("name", 1, "string")
            r.choice(api.services).rpc(f"GetCatalog{tag}", cq.fqn, cat.fqn, http=("get", "/v1/{name=catalogs%s/*}" % tag), sigs=["name"])
    if r.random() < 0.7:
        # file-level definitions that carry one of the five COMMON resource types, reached only through references: the service sees
        # them like any other definition (location_path next to common_location_path)
        commons = [("locations.googleapis.com/Location", "projects/{project}/locations/{location}"),
                   ("cloudresourcemanager.googleapis.com/Project", "projects/{project}"),
                   ("cloudresourcemanager.googleapis.com/Folder", "folders/{folder}"),
                   ("cloudresourcemanager.googleapis.com/Organization", "organizations/{organization}"),
                   ("cloudbilling.googleapis.com/BillingAccount", "billingAccounts/{billing_account}")]
        by_name = {"." + api.main.proto.package + "." + m.name: m for m in api.main.proto.message_type}
        svc = r.choice(api.services).proto
        cands = sorted({t for meth in svc.method for t in (meth.input_type, meth.output_type) if t in by_name})
        if cands:
            tgt = by_name[r.choice(cands)]
            for n, (typ, pat) in enumerate(r.sample(commons, r.randint(1, 3))):
                api.main.resource_def(typ, [pat])
                f = tgt.field.add(); f.name, f.number, f.label, f.type = "common_ref_%d" % n, 85 + n, 1, 9
                ref = f.options.Extensions[resource_pb2.resource_reference]
                if n % 2:
                    ref.child_type = typ
                else:
                    ref.type = typ
    api.extra = []
    if r.random() < 0.6:
        # resources DECLARED in a dependency package's file (not generated), reached only through references
        dep = apigen.File("shelving/v1/resources.proto", "shelving.v1", deps=["google/api/resource.proto"])
        dep.resource_def("shelving.example.com/DepArchive", ["depArchives/{dep_archive}/boxes/{box=**}"])
        ds = dep.message("DepShelf"); ds.field("name", 1, "string"); ds.resource("shelving.example.com/DepShelf", ["depShelves/{dep_shelf}"])
        dn = dep.message("DepNote"); dn.field("text", 1, "string")
        api.main.dep(dep.proto.name)
        by_name = {"." + api.main.proto.package + "." + m.name: m for m in api.main.proto.message_type}
        svc = r.choice(api.services).proto
        cands = sorted({t for meth in svc.method for t in (meth.input_type, meth.output_type) if t in by_name})
        if cands:
            tgt = by_name[r.choice(cands)]
            for nm, num, kw in (("dep_shelf", 95, {"type": "shelving.example.com/DepShelf"}), ("dep_archive_parent", 96, {"child_type": "shelving.example.com/DepArchive"})):
                f = tgt.field.add(); f.name, f.number, f.label, f.type = nm, num, 1, 9
                ref = f.options.Extensions[resource_pb2.resource_reference]
                for k, v in kw.items():
                    setattr(ref, k, v)
            f = tgt.field.add(); f.name, f.number, f.label, f.type, f.type_name = "dep_note", 97, 1, 11, dn.fqn
            api.extra = [dep]
    return api


def run_e2e(ctx, n):
    jobs = []
    for i in range(n):
        r = env.rng("C19-e2e", i)
        try:
            api = resource_api(r)
            # every third library comes from the ads template tree (its client template has its own copy of the helpers)
            req = api.request("transport=grpc,python-gapic-templates=ads-templates,old-naming" if i % 3 == 2
                              else "transport=" + r.choice(["grpc", "rest", "grpc+rest"]), extra_files=api.extra)
        except apigen.Invalid:
            ctx.features["e2e-invalid-candidate"] += 1
            continue
        jobs.append((i, req))
    results = gen.pmap(lambda j: gen.run_generator(j[1]), jobs)
    checks = []
    vis_defs, vis_checks = [], []
    for (i, req), (res, err) in zip(jobs, results):
        case = {"e2e_index": i, "request_b64": apigen.req_b64(req)}
        if res is None:
            ctx.oblige(f"e2e #{i}: generation succeeds", False, err[-600:], "T1")
            continue
        exp = expected_resources(req)
        files = gen.files_of(res)
        vsch, vtbl, vroots = vis_terms(req)
        vis_defs.append(f"Definition vsch{i} : vschema := {vsch}.\nDefinition vtbl{i} : rtable := {vtbl}.")
        for name, src in files.items():
            m = re.search(r"/services/(\w+)/client\.py$", name)
            if not m:
                continue
            try:
                helpers = extract_helpers(src)
            except Exception as e:  # noqa
                ctx.oblige(f"e2e #{i}: T1 extraction of path helpers from {name}", False, repr(e), "T1")
                continue
            cls = next((c for c in helpers if c.endswith("Client")), None)
            svc = next((s for s in exp if snake(s) == m.group(1)), None)
            if cls is None or svc is None:
                ctx.oblige(f"e2e #{i}: client class/service for {name}", False, f"{list(helpers)} {list(exp)}", "T1")
                continue
            h = helpers[cls]
            want = dict(exp[svc])
            # T1 for Model/ResVis.v: the emitted (helper name, format string) set = the model's visible set for the input descriptors
            emitted = sorted({(k, v["fmt"]) for k, v in h.items() if not k.startswith("parse_") and not k.startswith("common_")})
            vis_checks.append((f"e2e#{i} {svc}: helpers offered = Model/ResVis.visible",
                               f"match visible vsch{i} vtbl{i} {vroots[svc]} with Some hs => list_eqb (pair_eqb String.eqb String.eqb) "
                               f"(sort_pairs (map helper_sig hs)) {coq.lst('(' + coq.s(a) + ', ' + coq.s(b) + ')' for a, b in emitted)} | None => false end"))
            have = {k[:-5] for k in h if not k.startswith("parse_") and not k.startswith("common_")}
            ctx.case({"service": svc, "resources": want, **case}, nontrivial=bool(want), feature=[f"e2e-resources={len(want)}"])
            if have != set(want):
                ctx.violation(f"service {svc}: path helpers {sorted(have)} but resources visible to it are {sorted(want)}", case,
                              None)
            for base, pat in list(want.items()) + [("common_" + k, v) for k, v in COMMON.items()]:
                b, p = h.get(base + "_path"), h.get("parse_" + base + "_path")
                if b is None or p is None:
                    if base.startswith("common_"):
                        ctx.violation(f"missing common helper {base}_path", case)
                    continue
                # oracle on the emitted helper itself: what its body computes (str.format / re.match) on in-domain values
                rv = env.rng("C19-e2e-values", i * 1000 + len(checks))
                for _ in range(3):
                    vals = in_domain_values(rv, pat)
                    if vals is None or len({k for k, _ in vals}) != len(vals):
                        break
                    kv = dict(vals)
                    try:
                        built = b["fmt"].format(**kv)
                    except (KeyError, IndexError, ValueError) as e:
                        ctx.violation(f"service {svc}: {base}_path({kv}) raises {type(e).__name__}: {e} (emitted format string {b['fmt']!r}, pattern {pat!r})", case)
                        break
                    try:
                        mm = re.match(p["regex"], built)
                    except re.error as e:
                        ctx.violation(f"service {svc}: parse_{base}_path: emitted regex {p['regex']!r} does not compile: {e}", case)
                        break
                    got = mm.groupdict() if mm else {}
                    if got != kv:
                        ctx.violation(f"service {svc}: parse_{base}_path({base}_path({kv})) = {got} (built {built!r}, pattern {pat!r})", case)
                        break
                    if got and b["fmt"].format(**got) != built:
                        ctx.violation(f"service {svc}: {base}_path(parse_{base}_path({built!r})) != {built!r}", case)
                        break
                    # the emitted parse helper itself, called twice around a mutation of its first result (a caller may edit the
                    # dict it got; the second parse of the same string must not see that)
                    if "src" in p:
                        try:
                            ns = {}
                            exec("import re, functools\nfrom typing import Dict, Optional\n" + p["src"], ns)
                            fnp = ns["parse_" + base + "_path"]
                            d1 = fnp(built); keep = dict(d1); d1["__edited__"] = "x"; d1.update({k: "edited" for k in list(keep)})
                            d2 = fnp(built)
                            e1 = fnp("\x00 no such path"); e1["__edited__"] = "x"; e2 = fnp("\x00 no such path")
                        except Exception as e:  # noqa
                            ctx.violation(f"service {svc}: emitted parse_{base}_path could not be executed on {built!r}: {type(e).__name__}: {e}", case)
                            break
                        em = re.match(p["regex"], "\x00 no such path")
                        if keep != kv or d2 != kv or e2 != (em.groupdict() if em else {}):
                            ctx.violation(f"service {svc}: parse_{base}_path({built!r}) returned {keep} then, after the caller edited that dict, {d2}; "
                                          f"the string '\\x00 no such path' parsed to {e2} on the second call", case)
                            break
                P = coq.s(pat)
                checks.append((f"e2e#{i} {svc}.{base}_path args", f"list_eqb String.eqb (args (tokenize {P})) {coq.slist(b['args'])}"))
                checks.append((f"e2e#{i} {svc}.{base}_path kwargs", f"list_eqb String.eqb (args (tokenize {P})) {coq.slist(b['kw'])}"))
                if base.startswith("common_"):
                    checks.append((f"e2e#{i} {svc}.{base}_path fmt", f"String.eqb {P} {coq.s(b['fmt'])}"))
                else:
                    checks.append((f"e2e#{i} {svc}.{base}_path fmt", f"String.eqb (formatted (tokenize {P})) {coq.s(b['fmt'])}"))
                checks.append((f"e2e#{i} {svc}.parse_{base}_path regex", f"String.eqb (regex_str {P}) {coq.s(p['regex'])}"))
    failing, errors, nfiles = coq.eval_checks("c19e2e", "From GV Require Import Model.ResPath.", "", checks)
    sortdef = ("Definition pair_key (p : string * string) : string := fst p ++ (sx [0]%N) ++ snd p.\n"
               "Definition sort_pairs (l : list (string * string)) : list (string * string) :=\n"
               "  let keys := GV.Model.Determ.sorted_strs (GV.Model.Determ.dedup (map pair_key l)) in\n"
               "  map (fun k => match find (fun p => String.eqb (pair_key p) k) l with Some p => p | None => (k, k) end) keys.\n")
    vf, ve, _ = coq.eval_checks("c19vis", "From GV Require Import Model.Selective Model.Case Model.ResPath Model.ResVis Model.Determ.", "\n".join(vis_defs) + "\n" + sortdef, vis_checks, chunk=40)
    ctx.oblige(f"T1 helpers offered by each emitted client = Model/ResVis.visible of the input descriptors ({len(vis_checks)} services)",
               not vf and not ve and len(vis_checks) > 0, "; ".join((vf + ve)[:6]), "T1")
    ctx.oblige(f"T1 emitted helper literals = model output for the input patterns ({len(checks)} comparisons, {len(jobs)} generated libraries)",
               not failing and not errors and len(checks) > 0, "; ".join((failing + errors)[:8]), "T1")


def run(ctx):
    pats = list(CORPUS)
    n = ctx.n(60, 600)
    for i in range(n):
        pats.append(gen_pattern(env.rng("C19-pat", i)))
    ctx.stage("pure T2", run_pure, ctx, pats, ctx.n(4, 10))
    ctx.stage("end-to-end T1 + oracle", run_e2e, ctx, ctx.n(6, 60))


def replay(ctx, rep):
    c = rep.get("case", {})
    if "pattern" in c:
        run_pure(ctx, [c["pattern"]], 6)
    else:
        run(ctx)
