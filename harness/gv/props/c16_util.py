"""C16 helpers: API generators, the address graph of the INPUT descriptors as a Coq term (for the model),
and the reference reachability used by the direct oracle (written separately from the graph derivation
and from /repo)."""
import hashlib, os, re
from google.protobuf import descriptor_pb2 as dp
from google.api import resource_pb2
from google.longrunning import operations_pb2
from google.cloud import extended_operations_pb2 as ex_pb2
from .. import coq, apis, apigen
from ..apigen import File

F = dp.FieldDescriptorProto
LRO_OUT = "google.longrunning.Operation"


def snake(s):
    return re.sub(r"(?<=[a-z0-9])([A-Z])", r"_\1", s).lower()


def target_package(req):
    return os.path.commonprefix([p.package for p in req.proto_file if p.name in req.file_to_generate]).rstrip(".")


def methods_by_service(req):
    """[(service fqn, [method names])] of the target files, declaration order (read from the descriptors)."""
    pkg = target_package(req)
    out = []
    for fp in req.proto_file:
        if fp.package.startswith(pkg):
            for s in fp.service:
                out.append((f"{fp.package}.{s.name}", [m.name for m in s.method]))
    return out


# =============================================================== graph of the input descriptors -> Coq term
def is_extended_operation_pb(m):
    if m.name != "Operation":
        return False
    have = {f.options.Extensions[ex_pb2.operation_field] for f in m.field}
    return {1, 2, 3, 4} <= have


def derive_graph(req):
    """Plain-data address graph (dict) read off the request; mirrors Model/Selective.v's [graph]."""
    pkg = target_package(req)
    msgs_by_fqn = {}

    def index(m, prefix):
        fqn = f"{prefix}.{m.name}" if prefix else m.name
        msgs_by_fqn[fqn] = m
        for n in m.nested_type:
            index(n, fqn)

    for fp in req.proto_file:
        for m in fp.message_type:
            index(m, fp.package)

    def msg(m, prefix):
        fqn = f"{prefix}.{m.name}" if prefix else m.name
        fields = []
        for f in m.field:
            ref = f.options.Extensions[resource_pb2.resource_reference]
            fields.append({
                "msg": f.type_name.lstrip(".") if f.type == F.TYPE_MESSAGE else None,
                "enum": f.type_name.lstrip(".") if f.type == F.TYPE_ENUM else None,
                "ref": (ref.type or ref.child_type or None),
            })
        return {"addr": fqn, "fields": fields, "enums": [f"{fqn}.{e.name}" for e in m.enum_type],
                "nested": [msg(n, fqn) for n in m.nested_type]}

    files = []
    for fp in req.proto_file:
        target = fp.package.startswith(pkg)
        svcs = []
        if target:
            for s in fp.service:
                saddr = f"{fp.package}.{s.name}"
                methods = []
                for m in s.method:
                    lro = None
                    if m.output_type.endswith(LRO_OUT) and m.options.HasExtension(operations_pb2.operation_info):
                        oi = m.options.Extensions[operations_pb2.operation_info]
                        res = lambda t: t if "." in t else f"{fp.package}.{t}"  # noqa
                        lro = (res(oi.response_type), res(oi.metadata_type))
                    opsvc = m.options.Extensions[ex_pb2.operation_service]
                    ext = None
                    if opsvc:
                        osv = next((x for x in fp.service if x.name == opsvc), None)
                        pm = next((x for x in osv.method if x.options.Extensions[ex_pb2.operation_polling_method]), None) if osv else None
                        if pm is not None:
                            ext = (pm.input_type.lstrip("."), pm.output_type.lstrip("."))
                    outm = msgs_by_fqn.get(m.output_type.lstrip("."))
                    polling = bool(m.options.Extensions[ex_pb2.operation_polling_method]) and outm is not None and is_extended_operation_pb(outm)
                    methods.append({"name": m.name, "addr": f"{saddr}.{m.name}", "input": m.input_type.lstrip("."),
                                    "output": m.output_type.lstrip("."), "lro": lro, "opsvc": opsvc, "ext": ext, "polling": polling})
                svcs.append({"name": s.name, "addr": saddr, "methods": methods})
        res_tab = [(rd.type, "") for rd in fp.options.Extensions[resource_pb2.resource_definition]]
        for m in fp.message_type:
            t = m.options.Extensions[resource_pb2.resource].type
            if t:
                res_tab.append((t, f"{fp.package}.{m.name}" if fp.package else m.name))
        files.append({"name": fp.name, "target": target,
                      "enums": [f"{fp.package}.{e.name}" if fp.package else e.name for e in fp.enum_type],
                      "msgs": [msg(m, fp.package) for m in fp.message_type], "svcs": svcs, "res": res_tab})
    return {"package": pkg, "files": files}


COQ_DEFS = """
Definition fs := mkField None None None.
Definition fm (a : string) := mkField (Some a) None None.
Definition fe (a : string) := mkField None (Some a) None.
Definition sv_eqb := list_eqb (pair_eqb String.eqb (list_eqb String.eqb)).
Definition ol_eqb := option_eqb (list_eqb String.eqb).
Definition built (o : outcome) : list ofile := match o with Built fs => fs | _ => [] end.
Definition is_built (o : outcome) : bool := match o with Built _ => true | _ => false end.
Definition crash_code (o : outcome) : string := match o with Crashed e => err_code e | _ => "" end.
Definition rejected (o : outcome) : list (string * verr) := match o with Rejected e => e | _ => [] end.
Definition is_rejected (o : outcome) : bool := match o with Rejected _ => true | _ => false end.
Definition allowed (r : res (list addr)) : list addr := match r with Ok l => l | Err _ => [] end.
Definition names_view (s : oservice) := (client_name s, async_client_name s :: map client_method_name (os_methods s)).
Definition flags_view (s : oservice) := (os_addr s, map (fun m => if om_internal m then "1" else "0") (os_methods s)).
Definition last_err (v : string) (e : list (string * verr)) : list (string * string) :=
  match assoc_last v e with Some x => verr_view x | None => [("", "absent")] end.
"""


def _field_term(f):
    if f["msg"] is None and f["enum"] is None and f["ref"] is None:
        return "fs"
    if f["ref"] is None and f["enum"] is None:
        return f"fm {coq.s(f['msg'])}"
    if f["ref"] is None and f["msg"] is None:
        return f"fe {coq.s(f['enum'])}"
    return f"mkField {coq.opt(f['msg'])} {coq.opt(f['enum'])} {coq.opt(f['ref'])}"


def _msg_term(m):
    return (f"Msg {coq.s(m['addr'])} {coq.lst(_field_term(f) for f in m['fields'])} {coq.slist(m['enums'])} "
            f"{coq.lst(_msg_term(n) for n in m['nested'])}")


def _pair(p):
    return "None" if p is None else f"(Some ({coq.s(p[0])}, {coq.s(p[1])}))"


def _file_term(f):
    svcs = []
    for s in f["svcs"]:
        ms = [f"mkMethod {coq.s(m['name'])} {coq.s(m['addr'])} {coq.s(m['input'])} {coq.s(m['output'])} {_pair(m['lro'])} "
              f"{coq.s(m['opsvc'])} {_pair(m['ext'])} {coq.b(m['polling'])}" for m in s["methods"]]
        svcs.append(f"mkSvc {coq.s(s['name'])} {coq.s(s['addr'])} {coq.lst(ms)}")
    return (f"mkFile {coq.s(f['name'])} {coq.b(f['target'])} {coq.slist(f['enums'])} {coq.lst(_msg_term(m) for m in f['msgs'])} "
            f"{coq.lst(svcs)} {coq.pairs(f['res'])}")


def graph_defs(graph, gname, shared):
    """Coq definitions for one graph; dependency files are emitted once in [shared] (dict term-hash -> name)."""
    lines, names = [], []
    for f in graph["files"]:
        term = _file_term(f)
        if f["target"]:
            names.append(f"({term})")
        else:
            h = "dep_" + hashlib.sha256(term.encode()).hexdigest()[:12]
            if h not in shared:
                shared[h] = f"Definition {h} : file := {term}."
            names.append(h)
    lines.append(f"Definition {gname} : graph := {coq.lst(names)}.")
    return "\n".join(lines)


def settings_term(settings):
    return coq.lst(f"mkLS {coq.s(s['version'])} {coq.slist(s['methods'])} {coq.b(s.get('internal', False))}" for s in settings)


def service_yaml(req, settings):
    y = {"apis": [{"name": s} for s, _ in methods_by_service(req)], "publishing": {"library_settings": []}}
    for s in settings:
        y["publishing"]["library_settings"].append({
            "version": s["version"],
            "python_settings": {"common": {"selective_gapic_generation": {
                "methods": list(s["methods"]), "generate_omitted_as_internal": bool(s.get("internal", False))}}}})
    return y


# =============================================================== reference reachability (oracle side)
class Ref:
    """Reachability over the input descriptors, as the property's sentence defines it: listed RPCs (plus the
    polling method of an extended operation service they name), then messages/enums/resource types through
    fields, nested types, LRO response/metadata types and resource references.

    A resource reference to type T leads to THE MESSAGE that carries google.api.resource type T whenever the descriptor
    set holds such a message: file-level google.api.resource_definition entries of the same type (in whichever file, in
    whichever request order) declare no message and never stand in for it. [twice_file_first] names the types that are
    also declared at file level in a file that comes strictly BEFORE the file of their message (the input class of the
    finding selective.resource_declared_twice_file_level_first); it only labels violations, it does not change what is expected."""

    def __init__(self, req):
        self.pkg = target_package(req)
        self.kind, self.pb, self.parent, self.file_of, self.children = {}, {}, {}, {}, {}
        self.target_types, self.res_msg, self.methods, self.services = set(), {}, {}, {}
        file_level_at, msg_at = {}, {}

        def walk(m, prefix, fp, parent):
            fqn = f"{prefix}.{m.name}"
            self.kind[fqn], self.pb[fqn], self.parent[fqn], self.file_of[fqn] = "message", m, parent, fp
            kids = []
            for e in m.enum_type:
                k = f"{fqn}.{e.name}"
                self.kind[k], self.parent[k], self.file_of[k] = "enum", fqn, fp
                kids.append(k)
            for n in m.nested_type:
                kids.append(walk(n, fqn, fp, fqn))
            self.children[fqn] = kids
            return fqn

        for fidx, fp in enumerate(req.proto_file):
            tgt = fp.package.startswith(self.pkg)
            before = set(self.kind)
            for rd in fp.options.Extensions[resource_pb2.resource_definition]:
                file_level_at.setdefault(rd.type, fidx)
            for e in fp.enum_type:
                k = f"{fp.package}.{e.name}"
                self.kind[k], self.parent[k], self.file_of[k] = "enum", None, fp
            for m in fp.message_type:
                fq = walk(m, fp.package, fp, None)
                t = m.options.Extensions[resource_pb2.resource].type
                if t:
                    self.res_msg.setdefault(t, fq)
                    msg_at.setdefault(t, fidx)
            if tgt:
                self.target_types |= set(self.kind) - before
                for s in fp.service:
                    sq = f"{fp.package}.{s.name}"
                    self.services[sq] = (fp, s)
                    for m in s.method:
                        self.methods[f"{sq}.{m.name}"] = (fp, s, m)

        self.twice_file_first = {t for t, i in msg_at.items() if t in file_level_at and file_level_at[t] < i}
        self.twice = {t for t in msg_at if t in file_level_at}

    def is_map_entry(self, fqn):
        return self.kind.get(fqn) == "message" and self.pb[fqn].options.map_entry

    def top(self, fqn):
        while self.parent.get(fqn):
            fqn = self.parent[fqn]
        return fqn

    def kept_methods(self, listed):
        kept, todo = set(), [m for m in listed if m in self.methods]
        while todo:
            m = todo.pop()
            if m in kept:
                continue
            kept.add(m)
            fp, s, mp = self.methods[m]
            ops = mp.options.Extensions[ex_pb2.operation_service]
            if ops:
                for s2 in fp.service:
                    if s2.name == ops:
                        for m2 in s2.method:
                            if m2.options.Extensions[ex_pb2.operation_polling_method]:
                                todo.append(f"{fp.package}.{s2.name}.{m2.name}")
                                break
        return kept

    def method_roots(self, m):
        fp, s, mp = self.methods[m]
        roots = [mp.input_type.lstrip("."), mp.output_type.lstrip(".")]
        if mp.output_type.lstrip(".") == LRO_OUT and mp.options.HasExtension(operations_pb2.operation_info):
            oi = mp.options.Extensions[operations_pb2.operation_info]
            for t in (oi.response_type, oi.metadata_type):
                roots.append(t if "." in t else f"{fp.package}.{t}")
        return roots

    def closure(self, roots, enclosing=False, skip_res=()):
        seen, todo = set(), list(roots)
        while todo:
            a = todo.pop()
            if a in seen or a not in self.kind:
                continue
            seen.add(a)
            if enclosing and self.parent.get(a):
                todo.append(self.parent[a])
            if self.kind[a] != "message":
                continue
            for f in self.pb[a].field:
                if f.type in (F.TYPE_MESSAGE, F.TYPE_ENUM):
                    todo.append(f.type_name.lstrip("."))
                ref = f.options.Extensions[resource_pb2.resource_reference]
                for t in (ref.type, ref.child_type):
                    if t and t in self.res_msg and t not in skip_res:
                        todo.append(self.res_msg[t])
            todo.extend(self.children[a])
        return seen

    def reach(self, listed, enclosing=False, skip_res=()):
        kept = self.kept_methods(listed)
        roots = [r for m in kept for r in self.method_roots(m)]
        return kept, self.closure(roots, enclosing, skip_res)


# =============================================================== API generators
def normalise_oneofs(api):
    """protoc requires the synthetic oneofs of proto3-optional fields to come after every real oneof. The shared
    random-field helper appends a real oneof after synthetic ones when an optional field was drawn first; reorder the
    declarations (real first, both groups in their original order) and renumber oneof_index accordingly."""
    def fix(m):
        synth = {f.oneof_index for f in m.field if f.proto3_optional and f.HasField("oneof_index")}
        n = len(m.oneof_decl)
        order = [i for i in range(n) if i not in synth] + [i for i in range(n) if i in synth]
        if order != list(range(n)):
            names = [m.oneof_decl[i].name for i in order]
            new_index = {old: new for new, old in enumerate(order)}
            for k, nm in enumerate(names):
                m.oneof_decl[k].name = nm
            for f in m.field:
                if f.HasField("oneof_index"):
                    f.oneof_index = new_index[f.oneof_index]
        for nmsg in m.nested_type:
            fix(nmsg)
    for f in api.files:
        for m in f.proto.message_type:
            fix(m)


def build_request(api, **kw):
    normalise_oneofs(api)
    return api.request(**kw)


def first_valid(make, tag, tries=12):
    """The first candidate (rng index 0, 1, ...) that is a valid descriptor set; (None, [errors]) when none is."""
    errs = []
    for k in range(tries):
        try:
            return make(env_rng(tag, k)), errs
        except apigen.Invalid as e:
            errs.append(str(e)[:200])
    return None, errs


def env_rng(tag, k):
    from .. import env
    return env.rng(tag, k)


def conventional_plus(r, features=None, file_shapes=False):
    """apis.conventional extended with the shapes C16 quantifies over. Returns (api, knobs)."""
    allf = ["lro", "streaming", "custom", "second_service", "multi_file", "nested_resource"]
    if features is None:
        features = {f for f in allf if r.random() < 0.5}
        if r.random() < 0.6:
            features.add("second_service")
    api = apis.conventional(r, features=set(features))
    main, pkgname = api.main, api.package
    knobs = set(features)
    protos = {m.name: m for f in api.files for m in f.proto.message_type}
    reqs = [m for n, m in protos.items() if n.endswith("Request")]
    r.shuffle(reqs)

    def add_field(mpb, name, typ, **kw):
        num = max([f.number for f in mpb.field] + [0]) + 1
        apigen.Msg(None, mpb, "").field(name, num, typ, **kw)

    def rpc_of(req_pb):
        for f in api.files:
            for sv in f.proto.service:
                for m in sv.method:
                    if m.input_type == f".{pkgname}.{req_pb.name}":
                        return f"{pkgname}.{sv.name}.{m.name}"
        return None

    if r.random() < 0.7 and reqs:
        # recursive tree with a nested, mutually recursive part and a nested enum
        t = main.message("Tree")
        meta = t.nested("Meta")
        meta.field("owner", 1, t.fqn).field("note", 2, "string")
        shade = t.enum("Shade", ["SHADE_UNSPECIFIED", "DARK", "LIGHT"])
        t.field("left", 1, t.fqn).field("kids", 2, t.fqn, repeated=True).field("meta", 3, meta.fqn).field("shade", 4, ("enum", shade))
        leaf = t.nested("Leaf")
        leaf.field("weight", 1, "int32")
        t.map_field("index", 5, "string", leaf.fqn)
        add_field(reqs[0], "tree", t.fqn)
        knobs.add("recursive")
    if r.random() < 0.8 and len(reqs) >= 2:
        # a type shared between two RPCs, with a top-level enum
        ak = main.enum("AuditKind", ["AUDIT_KIND_UNSPECIFIED", "READ", "WRITE"])
        a = main.message("Audit")
        a.field("who", 1, "string").field("kind", 2, ("enum", ak))
        add_field(reqs[0], "audit", a.fqn)
        add_field(reqs[1], "audit", a.fqn)
        knobs.add("shared")
    if r.random() < 0.6 and len(reqs) >= 2:
        # a nested type of one request named by another request: fine when both RPCs are kept,
        # the shape of DESIGN section 9 no. 4 when only the second is kept
        holder, user = reqs[0], reqs[1]
        hm = apigen.Msg(None, holder, f".{pkgname}.{holder.name}")
        if r.random() < 0.5:
            inner = hm.nested("Window")
            inner.field("start", 1, "int64").field("end", 2, "int64")
            add_field(user, "window", inner.fqn)
        else:
            en = hm.enum("Mode", ["MODE_UNSPECIFIED", "FAST", "SAFE"])
            add_field(user, "run_mode", ("enum", en))
        knobs.add("cross_nested")
    if r.random() < 0.6 and reqs:
        # a resource reference to a message no field type leads to, and one to a file-level definition
        v = main.message("Vault")
        v.field("name", 1, "string").field("capacity", 2, "int32")
        v.resource("library.example.com/Vault", ["vaults/{vault}"])
        add_field(reqs[-1], "vault", "string", ref="library.example.com/Vault")
        main.resource_def("library.example.com/Annex", ["annexes/{annex}"])
        add_field(reqs[-1], "annex", "string", child_ref="library.example.com/Annex")
        knobs.add("resource_ref")
    if file_shapes or r.random() < 0.5:
        # target files of special shapes: (a) only top-level enums, one of them the type of a field of a request in
        # another file; (b) only messages, used by one request; (c) only a service, whose types live in the main file.
        # Depending on the listed RPCs each of them is kept with a single kind of content, or becomes empty and vanishes.
        hints = []
        enums = File(f"{api.dir}/enums.proto", pkgname)
        grade = enums.enum("Grade", ["GRADE_UNSPECIFIED", "GRADE_LOW", "GRADE_HIGH"])
        enums.enum("Colour", ["COLOUR_UNSPECIFIED", "RED"])
        shapes = File(f"{api.dir}/shapes.proto", pkgname)
        shape = shapes.message("Shape")
        shape.field("sides", 1, "int32").field("label", 2, "string")
        shapes.message("Blob").field("mass", 1, "double")
        for extra_file in (enums, shapes):
            api.files.insert(1, extra_file)
            main.dep(extra_file.proto.name)
        if reqs:
            add_field(reqs[0], "grade", ("enum", grade))
            hints.append([rpc_of(reqs[0])])
            add_field(reqs[-1], "shape", shape.fqn)
            hints.append([rpc_of(reqs[-1])])
            svcf = File(f"{api.dir}/pinger.proto", pkgname, deps=list(apigen.STD_DEPS) + [main.proto.name])
            ps = svcf.service("Pinger", host=api.host)
            resp = next((m for m in main.proto.message_type if not m.name.endswith("Request")), reqs[0])
            ps.rpc("Ping", f".{pkgname}.{reqs[0].name}", f".{pkgname}.{resp.name}", http=("post", "/v1/ping"), body="*")
            api.files.insert(1, svcf)
            hints.append([f"{pkgname}.Pinger.Ping"])
            hints.append([h[0] for h in hints[:2] if h[0]])
        api.info["c16_subsets"] = api.info.get("c16_subsets", []) + [h for h in hints if h and all(h)]
        knobs.add("file_shapes")
    lro_m = next((m for sv in api.services for m in sv.proto.method if m.output_type == apis.OPERATION), None)
    if lro_m is not None and r.random() < 0.7:
        oi = lro_m.options.Extensions[operations_pb2.operation_info]
        meta_pb = protos.get(oi.metadata_type.split(".")[-1])
        req_pb = protos.get(lro_m.input_type.split(".")[-1])
        if meta_pb is not None and req_pb is not None:
            crate = main.message("Crate")
            cd = crate.nested("Lid")
            cd.field("tight", 1, "bool")
            crate.field("name", 1, "string").field("lid", 2, cd.fqn)
            crate.resource("library.example.com/Crate", ["crates/{crate}"])
            pallet = main.message("Pallet")
            pallet.field("name", 1, "string")
            pallet.resource("library.example.com/Pallet", ["pallets/{pallet}"])
            share = main.message("LroScope")
            share.field("pallet", 1, "string", child_ref="library.example.com/Pallet")
            add_field(meta_pb, "crate", "string", ref="library.example.com/Crate")
            add_field(meta_pb, "lro_scope", share.fqn)
            add_field(req_pb, "lro_scope", share.fqn)
            api.info.setdefault("c16_subsets", []).append([rpc_of(req_pb)])
            knobs.add("lro_metadata_ref")
    if r.random() < 0.5 and api.services:
        # a service whose name extends the first service's name, with an rpc of the same name over its own types
        s0 = api.services[0]
        m0 = s0.proto.method[0]
        ext_name = s0.proto.name + "Ext"
        xreq = main.message(f"{m0.name}ExtRequest")
        xreq.field("name", 1, "string")
        xres = main.message(f"{m0.name}ExtResponse")
        xres.field("note", 1, "string")
        xs = main.service(ext_name, host=api.host)
        xs.rpc(m0.name, xreq.fqn, xres.fqn, http=("post", "/v1/{name=exts/*}:" + m0.name[:1].lower() + m0.name[1:]), body="*")
        api.info.setdefault("c16_subsets", []).append([f"{pkgname}.{ext_name}.{m0.name}"])
        knobs.add("prefix_service")
    if r.random() < 0.5 and reqs:
        # a chain of enclosing closure of depth 2 or 3, in either declaration order
        add_enclosing_chain(main, pkgname, reqs[len(reqs) // 2], r.choice([2, 3]), r.random() < 0.5, tag="R")
        knobs.add("enclosing_chain")
        api.info.setdefault("c16_subsets", []).append([rpc_of(reqs[len(reqs) // 2])])
    if r.random() < 0.5:
        # a third target file nothing refers to: it disappears under selective generation
        extra = File(f"{api.dir}/extra.proto", pkgname, deps=list(apigen.STD_DEPS))
        extra.message("Spare").field("x", 1, "string")
        extra.enum("SpareKind", ["SPARE_KIND_UNSPECIFIED", "ONE"])
        api.files.insert(1, extra)
        knobs.add("vanishing_file")
    return api, knobs


def exfile():
    fp = dp.FileDescriptorProto()
    ex_pb2.DESCRIPTOR.CopyToProto(fp)
    return fp


def extended_api(r, cyclic=False):
    """A compute-style API with an extended operation service (REST only). Returns a validated request."""
    pkg = r.choice(["google.example.library.v1", "acme.storage.v2"])
    d = "/".join(pkg.split("."))
    f = File(f"{d}/things.proto", pkg, deps=list(apigen.STD_DEPS) + ["google/cloud/extended_operations.proto"])
    op = f.message("Operation")
    st = op.enum("Status", ["STATUS_UNSPECIFIED", "DONE", "RUNNING"])
    for i, (n, t) in enumerate([("name", "string"), ("status", ("enum", st)), ("error_code", "int32"), ("error_message", "string")], 1):
        op.field(n, i, t)
        op.proto.field[-1].options.Extensions[ex_pb2.operation_field] = i
    greq = f.message("GetOperationRequest")
    greq.field("operation", 1, "string", required=True).field("project", 2, "string", required=True)
    greq.proto.field[0].options.Extensions[ex_pb2.operation_response_field] = "name"
    creq = f.message("CreateThingRequest")
    creq.field("project", 1, "string", required=True).field("thing_name", 2, "string")
    creq.proto.field[0].options.Extensions[ex_pb2.operation_request_field] = "project"
    oreq = f.message("OtherRequest")
    oreq.field("x", 1, "string")
    ores = f.message("OtherResponse")
    ores.field("y", 1, "string")
    ops = f.service("ThingOperations", host="things.example.com")
    ops.rpc("Get", greq.fqn, op.fqn, http=("get", "/v1/projects/{project}/operations/{operation}"))
    ops.proto.method[-1].options.Extensions[ex_pb2.operation_polling_method] = True
    ops.rpc("Other", oreq.fqn, ores.fqn, http=("post", "/v1/other"), body="*")
    s = f.service("Things", host="things.example.com")
    s.rpc("CreateThing", creq.fqn, op.fqn, http=("post", "/v1/projects/{project}/things"), body="*")
    s.proto.method[-1].options.Extensions[ex_pb2.operation_service] = "ThingOperations"
    s.rpc("Other2", oreq.fqn, ores.fqn, http=("post", "/v1/other2"), body="*")
    if cyclic:
        ops.proto.method[0].options.Extensions[ex_pb2.operation_service] = "ThingOperations"
    return apigen.request([exfile(), f], to_generate=[f.proto.name])


def witness_api():
    """DESIGN section 9 no. 4 / Proofs.Selective.wit_g."""
    pkg = "google.example.library.v1"
    f = File("google/example/library/v1/library.proto", pkg, deps=list(apigen.STD_DEPS))
    outer = f.message("Outer")
    inner = outer.nested("Inner")
    inner.field("x", 1, "string")
    kind = outer.enum("Kind", ["KIND_UNSPECIFIED", "KIND_A"])
    outer.field("i", 1, inner.fqn)
    thing = f.message("Thing")
    thing.field("name", 1, "string")
    greq = f.message("GetThingRequest")
    greq.field("name", 1, "string").field("inner", 2, inner.fqn).field("kind", 3, ("enum", kind))
    oreq = f.message("PutOuterRequest")
    oreq.field("outer", 1, outer.fqn)
    s = f.service("Library", host="library.example.com")
    s.rpc("GetThing", greq.fqn, thing.fqn, http=("get", "/v1/{name=things/*}"))
    s.rpc("PutOuter", oreq.fqn, outer.fqn, http=("post", "/v1/outer"), body="*")
    return apigen.request([f])


def add_enclosing_chain(file, pkg, user_msg, depth, reverse, tag=""):
    """A chain that only the enclosing-closure loop of API.build can follow: [user_msg] names the nested enum
    L1.Kind; the top-level L1 (reached only as the encloser of Kind) has a field of the nested type L2.Slot; the
    top-level L2 (reached only as the encloser of Slot) has a field of L3.Slot; ... With [reverse] the messages are
    declared last-link first, so that every sweep of the loop can add only one of them."""
    names = [f"Link{tag}{i}" for i in range(1, depth + 1)]
    order = list(reversed(names)) if reverse else list(names)
    msgs = {n: file.message(n) for n in order}
    inner = {}
    for n in names:
        slot = msgs[n].nested("Slot")
        slot.field("pos", 1, "int32")
        inner[n] = slot.fqn
    kind = msgs[names[0]].enum("Kind", ["KIND_UNSPECIFIED", "KIND_A", "KIND_B"])
    for i, n in enumerate(names):
        msgs[n].field("label", 1, "string")
        if i + 1 < len(names):
            msgs[n].field("next_slot", 2, inner[names[i + 1]])
    num = max([f.number for f in user_msg.field] + [0]) + 1
    apigen.Msg(None, user_msg, "").field("link_kind", num, ("enum", kind))
    return [m.fqn.lstrip(".") for m in msgs.values()]


def chain_api(depth=3, reverse=True):
    """Minimal API for the enclosing-closure chain (seeded change C16-c): GetFoo keeps Link1..LinkN only through the loop."""
    pkg = "google.example.library.v1"
    f = File("google/example/library/v1/library.proto", pkg, deps=list(apigen.STD_DEPS))
    foo = f.message("Foo")
    foo.field("name", 1, "string")
    greq = f.message("GetFooRequest")
    greq.field("name", 1, "string")
    links = add_enclosing_chain(f, pkg, greq.proto, depth, reverse)
    preq = f.message("PutAllRequest")
    for i, l in enumerate(links, 1):
        preq.field(f"l{i}", i, "." + l)
    f.message("Unrelated").field("x", 1, "string")
    s = f.service("Library", host="library.example.com")
    s.rpc("GetFoo", greq.fqn, foo.fqn, http=("get", "/v1/{name=foos/*}"))
    s.rpc("PutAll", preq.fqn, foo.fqn, http=("post", "/v1/all"), body="*")
    return apigen.request([f])


def subpackage_api(r):
    """A service in a proto SUB-package (…v1.admin, file …/v1/admin/admin.proto) next to the root services; its request
    names a root-package message and the sub-package's own enum. Returns (request, hints): hints are RPC subsets naming
    methods of the root package, of the sub-package, and of both."""
    api = apis.conventional(r, features={"custom"})
    pkg = api.package
    sub = File(f"{api.dir}/admin/admin.proto", pkg + ".admin", deps=list(apigen.STD_DEPS) + [api.main.proto.name])
    res = next(m for m in api.main.proto.message_type if not m.name.endswith("Request") and not m.name.endswith("Response"))
    preq = sub.message("PurgeRequest")
    preq.field("name", 1, "string").field("victim", 2, f".{pkg}.{res.name}")
    mode = sub.enum("PurgeMode", ["PURGE_MODE_UNSPECIFIED", "HARD", "SOFT"])
    preq.field("mode", 3, ("enum", mode))
    pres = sub.message("PurgeResponse")
    pres.field("count", 1, "int32")
    sub.message("AdminSpare").field("x", 1, "string")
    s = sub.service("AdminOps", host=api.host)
    s.rpc("Purge", preq.fqn, pres.fqn, http=("post", "/v1/{name=things/*}:purge"), body="*")
    s.rpc("Audit", preq.fqn, pres.fqn, http=("post", "/v1/{name=things/*}:audit"), body="*")
    api.files.insert(1, sub)
    req = build_request(api)
    mbs = methods_by_service(req)
    root = next(f"{sv}.{ms[0]}" for sv, ms in mbs if not sv.startswith(pkg + ".admin."))
    subm = f"{pkg}.admin.AdminOps.Purge"
    return req, [[root, subm], [root], [subm]]


def add_dep_refs(dep, types):
    """In the DEPENDENCY file: a message whose string fields carry google.api.resource_reference annotations naming
    resources whose messages live in the TARGET package: type at depth 1, child_type at depth 2, type at depth 3."""
    ref = dep.message("BookRef")
    scope = ref.nested("Scope")
    deep = scope.nested("Deep")
    deep.field("vault", 1, "string", ref=types[2])
    scope.field("shelf_parent", 1, "string", child_ref=types[1]).field("deep", 2, deep.fqn)
    ref.field("book", 1, "string", ref=types[0]).field("scope", 2, scope.fqn)
    return ref


def depref_api():
    """Fixed names (seeded change C16-h): CheckOutRequest.ref is the dependency-package message
    google.example.type.BookRef, whose fields reference the target-package resources Book, Shelf and Vault;
    nothing else leads to them."""
    pkg = "google.example.library.v1"
    dep = File("google/example/type/refs.proto", "google.example.type", deps=["google/api/resource.proto"])
    ref = add_dep_refs(dep, ["example.googleapis.com/Book", "example.googleapis.com/Shelf", "example.googleapis.com/Vault"])
    dep.message("Unused").field("x", 1, "string")
    f = File("google/example/library/v1/library.proto", pkg, deps=list(apigen.STD_DEPS) + [dep.proto.name])
    book = f.message("Book")
    details = f.message("BookDetails")
    genre = details.enum("Genre", ["GENRE_UNSPECIFIED", "FICTION", "POETRY"])
    details.field("pages", 1, "int32").field("genre", 2, ("enum", genre))
    book.field("name", 1, "string").field("details", 2, details.fqn)
    book.resource("example.googleapis.com/Book", ["shelves/{shelf}/books/{book}"])
    shelf = f.message("Shelf")
    row = shelf.nested("Row")
    row.field("height", 1, "int32")
    shelf.field("name", 1, "string").field("rows", 2, row.fqn, repeated=True)
    shelf.resource("example.googleapis.com/Shelf", ["shelves/{shelf}"])
    vk = f.enum("VaultKind", ["VAULT_KIND_UNSPECIFIED", "COLD"])
    vault = f.message("Vault")
    vault.field("name", 1, "string").field("kind", 2, ("enum", vk))
    vault.resource("example.googleapis.com/Vault", ["vaults/{vault}"])
    creq = f.message("CheckOutRequest")
    creq.field("name", 1, "string").field("ref", 2, ref.fqn)
    cres = f.message("CheckOutResponse")
    cres.field("ok", 1, "bool")
    rreq = f.message("ReturnBookRequest")
    rreq.field("name", 1, "string")
    f.message("Unrelated").field("x", 1, "string")
    s = f.service("Library", host="library.example.com")
    s.rpc("CheckOut", creq.fqn, cres.fqn, http=("post", "/v1/{name=shelves/*/books/*}:checkOut"), body="*")
    s.rpc("ReturnBook", rreq.fqn, cres.fqn, http=("post", "/v1/{name=shelves/*/books/*}:return"), body="*")
    return apigen.request([dep, f], to_generate=[f.proto.name])


def prefix_services_api():
    """Fixed names (seeded change C16-i): two pairs of services in one package where one name is a textual prefix of the
    other (Library / LibraryAdmin, Svc1 / Svc10) and both members have rpcs of the same names, over disjoint types."""
    pkg = "google.example.library.v1"
    f = File("google/example/library/v1/library.proto", pkg, deps=list(apigen.STD_DEPS))
    hints = []
    for short, long_ in (("Library", "LibraryAdmin"), ("Svc1", "Svc10")):
        for sname in (short, long_):
            item = f.message(sname + "Item")
            kind = item.enum("Kind", ["KIND_UNSPECIFIED", "PLAIN"])
            item.field("name", 1, "string").field("kind", 2, ("enum", kind))
            greq = f.message(f"Get{sname}ItemRequest")
            greq.field("name", 1, "string")
            freq = f.message(f"Fetch{sname}ItemRequest")
            freq.field("name", 1, "string").field("depth", 2, "int32")
            fres = f.message(f"Fetch{sname}ItemResponse")
            fres.field("items", 1, item.fqn, repeated=True)
            s = f.service(sname, host="library.example.com")
            s.rpc("Get", greq.fqn, item.fqn, http=("get", f"/v1/{{name={sname.lower()}/*}}"))
            s.rpc("Fetch", freq.fqn, fres.fqn, http=("post", f"/v1/{{name={sname.lower()}/*}}:fetch"), body="*")
        hints += [[f"{pkg}.{long_}.Get"], [f"{pkg}.{short}.Get"]]
    hints.append([f"{pkg}.LibraryAdmin.Get", f"{pkg}.Svc10.Fetch"])
    return apigen.request([f]), hints


def lro_metadata_ref_api():
    """Fixed names (seeded change C16-l): a google.longrunning LRO whose METADATA type carries resource references that
    nothing else follows: `type` directly on the metadata (Book), `child_type` in a nested sub-message (Shelf), and
    `type` in the message Scope that the request and the metadata share (Vault)."""
    pkg = "google.example.library.v1"
    f = File("google/example/library/v1/library.proto", pkg, deps=list(apigen.STD_DEPS) + ["google/longrunning/operations.proto"])
    for word, pat, ref_field in (("Book", "shelves/{shelf}/books/{book}", None), ("Shelf", "shelves/{shelf}", None), ("Vault", "vaults/{vault}", None)):
        det = f.message(word + "Details")
        en = det.enum("Grade", ["GRADE_UNSPECIFIED", "FINE"])
        det.field("grade", 1, ("enum", en))
        m = f.message(word)
        m.field("name", 1, "string").field("details", 2, det.fqn)
        m.resource(f"example.googleapis.com/{word}", [pat])
    scope = f.message("Scope")
    scope.field("vault", 1, "string", ref="example.googleapis.com/Vault").field("depth", 2, "int32")
    req = f.message("ImportBooksRequest")
    req.field("parent", 1, "string").field("source", 2, "string").field("scope", 3, scope.fqn)
    res = f.message("ImportBooksResponse")
    res.field("count", 1, "int32")
    meta = f.message("ImportBooksMetadata")
    prog = meta.nested("Progress")
    prog.field("shelf_parent", 1, "string", child_ref="example.googleapis.com/Shelf").field("done", 2, "int32")
    meta.field("book", 1, "string", ref="example.googleapis.com/Book").field("progress", 2, prog.fqn).field("scope", 3, scope.fqn)
    preq = f.message("PingRequest")
    preq.field("x", 1, "string")
    pres = f.message("PingResponse")
    pres.field("y", 1, "string")
    f.message("Unrelated").field("z", 1, "string")
    s = f.service("Library", host="library.example.com")
    s.rpc("ImportBooks", req.fqn, apis.OPERATION, http=("post", "/v1/{parent=shelves/*}/books:import"), body="*",
          lro=("ImportBooksResponse", "ImportBooksMetadata"))
    s.rpc("Ping", preq.fqn, pres.fqn, http=("post", "/v1/ping"), body="*")
    return apigen.request([f]), [[f"{pkg}.Library.ImportBooks"]]


RESDUP_TYPE = "example.googleapis.com/Shelf"


def resource_twice_api(arrangement="a"):
    """Fixed names (seeded change C16-o): the resource type example.googleapis.com/Shelf is declared TWICE in the target
    package: by the message Shelf (google.api.resource) and by a file-level google.api.resource_definition. The kept RPC
    DeleteShelf reaches the resource only through the google.api.resource_reference on DeleteShelfRequest.name (its
    response is an empty message); only Shelf leads to the nested Shelf.Row, the nested enum Shelf.Kind, the top-level
    message Theme and the top-level enum Finish. Arrangements (request order of the files):
      a  resources.proto (message Shelf ...) first, then library.proto (file-level definition, service; imports resources.proto)
      b  library.proto (file-level definition, service) first, then resources.proto (message Shelf ...); no import either way
      c  one file library.proto holding both declarations
      d  as a, plus a second file-level definition of the type in resources.proto itself (message and definition in the
         earlier file, definition again in the later file)
    Returns (request, hints)."""
    pkg = "google.example.library.v1"
    d = "google/example/library/v1"
    one_file = arrangement == "c"
    lib_deps = list(apigen.STD_DEPS)
    resf = None
    if not one_file:
        resf = File(f"{d}/resources.proto", pkg, deps=list(apigen.STD_DEPS))
        if arrangement in ("a", "d"):
            lib_deps.append(resf.proto.name)
    lib = File(f"{d}/library.proto", pkg, deps=lib_deps)
    home = lib if one_file else resf
    finish = home.enum("Finish", ["FINISH_UNSPECIFIED", "MATT", "GLOSS"])
    theme = home.message("Theme")
    theme.field("colour", 1, "string").field("finish", 2, ("enum", finish))
    shelf = home.message("Shelf")
    row = shelf.nested("Row")
    row.field("height", 1, "int32")
    kind = shelf.enum("Kind", ["KIND_UNSPECIFIED", "WALL", "FLOOR"])
    shelf.field("name", 1, "string").field("rows", 2, row.fqn, repeated=True).field("kind", 3, ("enum", kind)).field("theme", 4, theme.fqn)
    shelf.resource(RESDUP_TYPE, ["shelves/{shelf}"])
    home.message("Spare").field("x", 1, "string")
    if arrangement == "d":
        resf.resource_def(RESDUP_TYPE, ["shelves/{shelf}"])
    lib.resource_def(RESDUP_TYPE, ["shelves/{shelf}"])
    dreq = lib.message("DeleteShelfRequest")
    dreq.field("name", 1, "string", ref=RESDUP_TYPE)
    dres = lib.message("DeleteShelfResponse")
    lreq = lib.message("ListThingsRequest")
    lreq.field("parent", 1, "string")
    lres = lib.message("ListThingsResponse")
    lres.field("things", 1, "string", repeated=True)
    s = lib.service("Library", host="library.example.com")
    s.rpc("DeleteShelf", dreq.fqn, dres.fqn, http=("delete", "/v1/{name=shelves/*}"))
    s.rpc("ListThings", lreq.fqn, lres.fqn, http=("get", "/v1/{parent=shelves/*}/things"))
    files = [lib] if one_file else ([lib, resf] if arrangement == "b" else [resf, lib])
    return apigen.request(files), [[f"{pkg}.Library.DeleteShelf"]]


def dep_package_api(r):
    """A target package that uses messages of its own dependency package; one of them carries resource references
    (type / child_type, down to depth 3 inside the dependency) to resources whose messages are in the target package."""
    dep = File("acme/common/meta.proto", "acme.common", deps=["google/api/resource.proto"])
    ref = add_dep_refs(dep, ["library.example.com/Crypt", "library.example.com/Niche", "library.example.com/Urn"])
    meta = dep.message("Meta")
    meta.field("name", 1, "string").field("tag", 2, "string")
    meta.resource("common.acme.test/Meta", ["metas/{meta}"])
    dk = dep.enum("Grade", ["GRADE_UNSPECIFIED", "A"])
    dep.message("Unrelated").field("g", 1, ("enum", dk))
    api, knobs = conventional_plus(r, features={"second_service", "custom"})
    api.main.dep(dep.proto.name)
    req0 = next(m for m in api.main.proto.message_type if m.name.endswith("Request"))
    num = max(f.number for f in req0.field) + 1
    apigen.Msg(None, req0, "").field("meta", num, meta.fqn).field("meta_ref", num + 1, "string", ref="common.acme.test/Meta")
    apigen.Msg(None, req0, "").field("book_ref", num + 2, ref.fqn)
    # target-package resources that only the dependency message's references lead to
    for word in ("Crypt", "Niche", "Urn"):
        m = api.main.message(word)
        extra = api.main.message(word + "Details")
        en = extra.enum("Grade", ["GRADE_UNSPECIFIED", "FINE"])
        extra.field("grade", 1, ("enum", en))
        m.field("name", 1, "string").field("details", 2, extra.fqn)
        m.resource(f"library.example.com/{word}", [f"{word.lower()}s/{{{word.lower()}}}"])
    for fobj in api.files:
        for sv in fobj.proto.service:
            for me in sv.method:
                if me.input_type == f".{api.package}.{req0.name}":
                    api.info.setdefault("c16_subsets", []).append([f"{api.package}.{sv.name}.{me.name}"])
    api.info["c16_subsets"] = api.info["c16_subsets"][-1:] + api.info["c16_subsets"][:-1]
    return build_request(api, extra_files=[dep], to_generate=[f.proto.name for f in api.files]), knobs | {"dep_package", "dep_resource_ref"}, [h for h in api.info.get("c16_subsets", []) if h and all(h)]


def pick_subsets(r, mbs, limit, first=()):
    """Interesting subsets of RPC selectors: singletons, one whole service, all, all but one, halves, pairs
    across services, LRO/list only. Deterministic order, capped at [limit] distinct subsets."""
    allm = [f"{s}.{m}" for s, ms in mbs for m in ms]
    cands = [list(c) for c in first]
    if not allm:
        return []
    cands.append([r.choice(allm)])
    if len(mbs) > 1:
        cands.append([f"{mbs[0][0]}.{m}" for m in mbs[0][1]])       # the other services become empty
    cands.append(list(allm))
    if len(mbs) > 1:
        cands.append([f"{mbs[-1][0]}.{mbs[-1][1][0]}"])
    for pat in ("List", "Import", "Export", "Reindex", "Create", "Get", "Stream"):
        hit = [m for m in allm if m.split(".")[-1].startswith(pat) or pat in m.split(".")[-1]]
        if hit:
            cands.append([r.choice(hit)])
    if len(allm) > 1:
        drop = r.choice(allm)
        cands.append([m for m in allm if m != drop])
        cands.append(r.sample(allm, max(1, len(allm) // 2)))
        cands.append(r.sample(allm, 2))
    for m in r.sample(allm, len(allm)):
        cands.append([m])
    out, seen = [], set()
    for c in cands:
        k = tuple(sorted(set(c)))
        if k and k not in seen:
            seen.add(k)
            out.append(list(c))
        if len(out) >= limit:
            break
    return out
