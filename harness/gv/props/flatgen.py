"""T0 extractors shared by C05 and C03 (owned by those checks): constants read from /repo with ast, fail-closed,
written to coq/theories/Gen/FlattenGen.v and Gen/StubsGen.v."""
import ast, keyword, os
from .. import env, coq


def _module(rel):
    path = os.path.join(env.REPO, rel)
    with open(path, encoding="utf-8") as f:
        return ast.parse(f.read())


def reserved_names():
    """gapic/utils/reserved_names.py: RESERVED_NAMES = frozenset([...])"""
    tree = _module("gapic/utils/reserved_names.py")
    for node in tree.body:
        if isinstance(node, ast.Assign) and any(isinstance(t, ast.Name) and t.id == "RESERVED_NAMES" for t in node.targets):
            call = node.value
            if not (isinstance(call, ast.Call) and isinstance(call.func, ast.Name) and call.func.id == "frozenset" and len(call.args) == 1
                    and isinstance(call.args[0], (ast.List, ast.Set, ast.Tuple))):
                raise ValueError("RESERVED_NAMES is no longer frozenset([...literal...])")
            vals = []
            for e in call.args[0].elts:
                if not (isinstance(e, ast.Constant) and isinstance(e.value, str)):
                    raise ValueError("non-literal element in RESERVED_NAMES")
                vals.append(e.value)
            return sorted(set(vals))
    raise ValueError("RESERVED_NAMES assignment not found")


def transport_unsafe_names():
    """gapic/schema/wrappers.py: Method.transport_safe_name: chain({...literals...}, keyword.kwlist)"""
    tree = _module("gapic/schema/wrappers.py")
    for cls in [n for n in tree.body if isinstance(n, ast.ClassDef) and n.name == "Method"]:
        for fn in [n for n in cls.body if isinstance(n, ast.FunctionDef) and n.name == "transport_safe_name"]:
            for node in ast.walk(fn):
                if isinstance(node, ast.Call) and isinstance(node.func, ast.Name) and node.func.id == "chain" and len(node.args) == 2:
                    a, b = node.args
                    if not (isinstance(a, ast.Set) and all(isinstance(e, ast.Constant) and isinstance(e.value, str) for e in a.elts)):
                        raise ValueError("TRANSPORT_UNSAFE_NAMES: first chain() argument is no longer a set literal of strings")
                    if ast.unparse(b) != "keyword.kwlist":
                        raise ValueError(f"TRANSPORT_UNSAFE_NAMES: second chain() argument is {ast.unparse(b)}")
                    ret = [n for n in ast.walk(fn) if isinstance(n, ast.Return)]
                    if len(ret) != 1 or ast.unparse(ret[0].value) != "f'{self.name}_' if self.name.lower() in TRANSPORT_UNSAFE_NAMES else self.name":
                        raise ValueError("transport_safe_name: return expression changed: " + (ast.unparse(ret[0].value) if ret else "none"))
                    return sorted(set(e.value for e in a.elts))
    raise ValueError("Method.transport_safe_name not found")


def write_flatten_gen():
    text = ("(* generated from /repo by harness/gv/props/flatgen.py; do not edit *)\n"
            "From GV Require Import Base.Str.\n"
            f"Definition RESERVED_NAMES : list string := {coq.slist(reserved_names())}.\n"
            f"Definition KWLIST : list string := {coq.slist(sorted(keyword.kwlist))}.\n")
    return coq.write_gen("FlattenGen", text)


def write_stubs_gen():
    text = ("(* generated from /repo by harness/gv/props/flatgen.py; do not edit *)\n"
            "From GV Require Import Base.Str.\n"
            f"Definition TRANSPORT_UNSAFE_LITERALS : list string := {coq.slist(transport_unsafe_names())}.\n"
            f"Definition PY_KWLIST : list string := {coq.slist(sorted(keyword.kwlist))}.\n")
    return coq.write_gen("StubsGen", text)
