"""C16 — selective generation keeps exactly the listed RPCs and a closed set of types."""
import ast, json, keyword, os, re
from .. import env, coq, gen, apigen, dyn
from . import c16_util as U

RULE = ("APIs: apis.conventional extended with a recursive tree (nested, mutually recursive part, map entry, nested enum), a type "
        "shared by two RPCs, a nested type of one request named by another request, target files that hold only top-level enums "
        "(one named from another file), only messages, only a service, pairs of services where one name is a textual prefix of the other with rpcs of the same names, a service in a proto sub-package next to root services (listing "
        "root methods, sub-package methods, both), chains of enclosing closure of depth 2 and 3 in both "
        "declaration orders (a top-level message reached only as the encloser of a nested type, whose field names a nested type of "
        "the next one), resource references (type / child_type, "
        "message-level and file-level; a resource type declared TWICE, by a message and by a file-level definition, reached only through a reference: message in the earlier file, both in one file, both in the earlier file and the definition again in the later one, and, once its finding is registered, definition in the earlier file; also on the metadata type of an LRO, in a sub-message of it and in a message shared by the request and the metadata), a second service and a third file that vanish, LRO and paged RPCs, streaming RPCs; a "
        "compute-style API with an extended-operation polling service, REST and gRPC+asyncio (also with a polling chain that loops); an API using its own "
        "dependency package, including dependency messages that carry resource references (type / child_type, down to depth 3) to "
        "resources whose messages are in the target package; the former DESIGN 9 no. 4 counterexample and the internal-polling one (corpus/C16, run first). Configurations: for each API subsets of RPC selectors (singletons, one "
        "whole service, all, all-but-one, half, pairs, LRO/list only) x generate_omitted_as_internal in {false,true}, plus empty "
        "list, unknown method, other-version entry, duplicate version, prefix version, two entries, and other spellings of a listed name "
        "(leading dot, trailing dot, surrounding blanks, wrong case; rejected, or accepted and then meaning that method). A case is one (API, settings) "
        "pair at schema level (API.build) or library level (generate + import + drive); distinct = distinct canonical JSON of "
        "(request hash, settings, level); non-trivial = at least one RPC listed.")
TRUSTED = [
    "Model/Selective.v: hand-written model of API.build's third pass (allow-list traversal over addresses, pruning, internal marking, "
    "settings validation, which declarations the type templates render); an address is its proto selector",
    "harness/gv/props/c16_util.derive_graph: reads the address graph (messages with fields/nested types/enums, services, methods, LRO and "
    "extended-operation annotations, resource table in per-file insertion order) off the input descriptors for the model; Ref: reference reachability of the oracle (a reference to a resource type leads to the message carrying it whenever one exists, whatever file-level definitions and file order)",
    "harness/gv/impl/selective.py (runs API.build as gapic.cli.generate does; records the allow-list by wrapping "
    "Proto.prune_messages_for_selective_generation in the child), impl/selective_inspect.py (imports the emitted library), impl/drive.py",
    "ast/json readers of the emitted types manifests and gapic_metadata.json; apigen + DescriptorPool as validity judge",
    "keyword.kwlist of /venv/bin/python regenerated into Gen/SelectiveKw.v (T0)",
]
ASSUMES = [
    "one target package: the package computed by gapic.cli.generate equals naming.proto_package (checked per case)",
    "addresses are unique per object (wf_tableb evaluated on every derived graph); no proto2 extensions fields",
    "C16_no_dangling carries wf_table g (the model follows types by address, the code by object reference); C16_allowlist_* quantify over graphs for which the polling chain terminates "
    "(roots g sel = Ok rs); a looping chain is modelled as Crashed ERecursion and replayed on the implementation",
]

SIG_NESTED = "selective.nested_enclosing_pruned"
SIG_POLL = "selective.internal_polling_method_renamed"
SIG_SUBPKG = "selective.subpackage_view_rejects_listed_method"
SIG_RESDUP = "selective.resource_declared_twice_file_level_first"


def registered(signature):
    """The finding is listed in findings/known_findings.json (known or fixed): the inputs of its class join the run. Until
    then they exist only as scratch/findings/C16-*.json (replayable) and the unchanged tree stays green."""
    try:
        listed = json.load(open(os.path.join(env.VERIF, "findings", "known_findings.json")))
    except (OSError, ValueError):
        return False
    return any(f.get("property") == "C16" and f.get("signature") == signature for f in listed)


def resdup_signature(ref, listed, missing):
    """SIG_RESDUP when every missing type is one that only a reference to a resource type of the class (declared by a
    file-level definition in an earlier file AND by a message in a later file) leads to; None otherwise."""
    if not ref.twice_file_first or not missing:
        return None
    without = ref.reach(listed, skip_res=set(ref.twice_file_first))[1]
    return SIG_RESDUP if not (set(missing) & without) else None
IMPORTS = "From GV Require Import Model.Selective.\nOpen Scope list_scope."


# ------------------------------------------------------------------ T0
def _ordered_strs(node):
    out = [(c.lineno, c.col_offset, c.value) for c in ast.walk(node) if isinstance(c, ast.Constant) and isinstance(c.value, str)]
    return [v for _, _, v in sorted(out)]


def _fn_in(tree, cls, name):
    scope = tree.body
    if cls:
        scope = next(n for n in tree.body if isinstance(n, ast.ClassDef) and n.name == cls).body
    return next(n for n in scope if isinstance(n, ast.FunctionDef) and n.name == name)


def _body_src(fn):
    return "; ".join(" ".join(ast.unparse(n).split()) for n in fn.body if not isinstance(n, ast.Expr))


def regen(ctx):
    """T0 (fail-closed: any lookup that fails raises): keyword.kwlist of the interpreter and, read with ast from the
    working tree, the naming expressions and error strings the model was written against (pinned in Proofs/Selective.v)."""
    if len(keyword.kwlist) < 30:
        raise RuntimeError("keyword.kwlist looks wrong")
    w = ast.parse(open(os.path.join(env.REPO, "gapic/schema/wrappers.py"), encoding="utf-8").read())
    parts = {}
    for name in ("client_name", "async_client_name"):
        rets = [n for n in ast.walk(_fn_in(w, "Service", name)) if isinstance(n, ast.Return)]
        if len(rets) != 1:
            raise RuntimeError(f"Service.{name}: expected one return")
        parts[name] = _ordered_strs(rets[0])
    cmn = _body_src(_fn_in(w, "Method", "client_method_name"))
    sint = _body_src(_fn_in(w, "Service", "is_internal"))
    mint = _body_src(_fn_in(w, "Method", "with_internal_methods"))
    c = ast.parse(open(os.path.join(env.REPO, "gapic/utils/code.py"), encoding="utf-8").read())
    mp = _body_src(_fn_in(c, None, "make_private"))
    a = ast.parse(open(os.path.join(env.REPO, "gapic/schema/api.py"), encoding="utf-8").read())
    errs = [s for s in _ordered_strs(_fn_in(a, "API", "enforce_valid_library_settings")) if "\n" not in s]
    text = ("(* regenerated by harness/gv/props/c16.py on every run (T0) *)\nFrom GV Require Import Base.Str.\n"
            "(* keyword.kwlist of the interpreter that runs the generator *)\n"
            f"Definition kwlist : list string := {coq.slist(sorted(keyword.kwlist))}.\n"
            "(* string constants of Service.client_name / async_client_name, source order *)\n"
            f"Definition client_name_parts : list string := {coq.slist(parts['client_name'])}.\n"
            f"Definition async_client_name_parts : list string := {coq.slist(parts['async_client_name'])}.\n"
            "(* bodies (ast.unparse) of Method.client_method_name, utils.make_private, Service.is_internal, Method.with_internal_methods *)\n"
            f"Definition client_method_name_src : string := {coq.s(cmn)}.\n"
            f"Definition make_private_src : string := {coq.s(mp)}.\n"
            f"Definition service_is_internal_src : string := {coq.s(sint)}.\n"
            f"Definition method_with_internal_src : string := {coq.s(mint)}.\n"
            "(* string constants of API.enforce_valid_library_settings *)\n"
            f"Definition settings_error_strings : list string := {coq.slist(errs)}.\n")
    coq.write_gen("SelectiveKw", text)
    ctx.oblige("T0 Gen/SelectiveKw.v regenerated (keyword.kwlist; naming expressions and error strings read with ast from the working tree)", True, "", "T0")


# ------------------------------------------------------------------ inputs
def other_version(pkg):
    parts = pkg.split(".")
    parts[-1] = "v9alpha" if parts[-1] != "v9alpha" else "v8"
    return ".".join(parts)


def configs_for(r, req, n_subsets, invalid=True, first=()):
    """[(label, settings list, intent)] — intent in valid / unknown / other_version / dup / prefix / none."""
    pkg = U.target_package(req)
    mbs = U.methods_by_service(req)
    allm = [f"{s}.{m}" for s, ms in mbs for m in ms]
    out = []
    for sub in U.pick_subsets(r, mbs, n_subsets + len(first), first=first):
        for internal in (False, True):
            out.append((f"sel={len(sub)}/{len(allm)}#{env.canon_hash(sorted(sub))[:4]} internal={internal}",
                        [{"version": pkg, "methods": sub, "internal": internal}], "valid"))
    if invalid and allm:
        one = r.choice(allm)
        out.append(("empty list", [{"version": pkg, "methods": [], "internal": r.random() < 0.5}], "none"))
        out.append(("unknown method", [{"version": pkg, "methods": [one, allm[0].rsplit(".", 1)[0] + ".NoSuchRpc"], "internal": False}], "unknown"))
        out.append(("unknown service", [{"version": pkg, "methods": [pkg + ".Ghost.Get"], "internal": True}], "unknown"))
        out.append(("other-version entry", [{"version": other_version(pkg), "methods": [one], "internal": False}], "other_version"))
        out.append(("other-version method", [{"version": pkg, "methods": [one.replace(pkg, other_version(pkg), 1)], "internal": False}], "unknown"))
        out.append(("duplicate version", [{"version": pkg, "methods": [one], "internal": False}, {"version": pkg, "methods": [], "internal": False}], "dup"))
        out.append(("prefix version", [{"version": pkg.rsplit(".", 1)[0], "methods": [one], "internal": False}], "prefix"))
        # other spellings of a listed name: either rejected, or accepted and then meaning exactly that method
        for kind, spell in (("leading dot", "." + one), ("trailing dot", one + "."), ("surrounding blanks", " " + one + " "),
                            ("wrong case", one.rsplit(".", 2)[0] + "." + ".".join(one.rsplit(".", 2)[1:]).lower())):
            for internal in (True, False):
                out.append((f"misspelt ({kind}) internal={internal}",
                            [{"version": pkg, "methods": [spell], "internal": internal, "canonical": [one]}], "misspelt"))
        out.append(("two entries", [{"version": other_version(pkg), "methods": [], "internal": False},
                                    {"version": pkg, "methods": [one], "internal": False}], "valid"))
    return out


def build_apis(ctx, n_random):
    """[{name, req, transport, knobs, e2e}]"""
    out = [{"name": "witness", "req": U.witness_api(), "transport": "grpc", "knobs": {"witness", "cross_nested"}, "e2e": True}]
    r = env.rng("C16-ext", 0)
    out.append({"name": "extended", "req": U.extended_api(r), "transport": "rest", "knobs": {"extended_lro"}, "e2e": True})
    rg = U.extended_api(env.rng("C16-ext", 0))
    pg = U.target_package(rg)
    out.append({"name": "extended-grpc", "req": rg, "transport": "grpc", "knobs": {"extended_lro", "asyncio_client"}, "e2e": True,
                "invalid": False, "first": [[pg + ".Things.Other2"], [pg + ".Things.CreateThing"], [pg + ".ThingOperations.Other"]]})
    out.append({"name": "extended-cyclic", "req": U.extended_api(r, cyclic=True), "transport": "rest", "knobs": {"extended_lro", "polling_cycle"}, "e2e": False})
    for depth, rev in ((3, True), (2, False), (3, False)):
        rq = U.chain_api(depth, rev)
        out.append({"name": f"chain{depth}{'r' if rev else 'f'}", "req": rq, "transport": "grpc", "knobs": {"enclosing_chain", f"chain_depth={depth}"},
                    "e2e": rev or depth == 2 or ctx.tier != "quick", "invalid": rev, "first": [[U.target_package(rq) + ".Library.GetFoo"]]})
    rd = U.depref_api()
    out.append({"name": "depref", "req": rd, "transport": "grpc", "knobs": {"dep_package", "dep_resource_ref"}, "e2e": True, "invalid": False,
                "first": [[U.target_package(rd) + ".Library.CheckOut"]]})
    rl, hl = U.lro_metadata_ref_api()
    out.append({"name": "lro-metadata-ref", "req": rl, "transport": "grpc", "knobs": {"lro", "lro_metadata_ref"}, "e2e": True, "invalid": False, "first": hl})
    # a resource type declared twice (by a message and by a file-level definition), reached only by a resource reference.
    # Arrangement b (file-level definition in the EARLIER file) is the former witness of the finding SIG_RESDUP (repaired in /repo):
    # a (message first), b, c (one file), d (message + definition first, definition again) always run
    for arr in ("a", "b", "c", "d"):
        rt, ht = U.resource_twice_api(arr)
        out.append({"name": f"resource-twice-{arr}", "req": rt, "transport": "grpc", "knobs": {"resource_ref", "resource_declared_twice", f"resource_twice={arr}"},
                    "e2e": arr in ("a", "b") or ctx.tier != "quick", "invalid": False, "first": ht})
    rp, hp = U.prefix_services_api()
    out.append({"name": "prefix-services", "req": rp, "transport": "grpc", "knobs": {"prefix_service"}, "e2e": True, "invalid": False, "first": hp})
    # dedicated APIs built on the shared random generator: the first valid candidate of a fixed rng sequence; a candidate
    # that is not a valid descriptor set is an invalid candidate (skipped and counted), never a failure of the check
    def dedicated(name, make, tag):
        got, errs = U.first_valid(make, tag)
        ctx.features["invalid-candidate"] += len(errs)
        if got is None:
            ctx.features[f"dedicated-api-unavailable:{name}"] += 1
            ctx.notes[f"{name}_invalid"] = errs[:3]
        return got
    got = dedicated("subpackage", U.subpackage_api, "C16-sub")
    if got:
        out.append({"name": "subpackage", "req": got[0], "transport": "grpc", "knobs": {"proto_subpackage"}, "e2e": True, "first": got[1]})
    got = dedicated("dep-package", U.dep_package_api, "C16-dep")
    if got:
        out.append({"name": "dep-package", "req": got[0], "transport": "grpc", "knobs": got[1], "e2e": True, "first": got[2][:1]})

    def multifile(r):
        api, knobs = U.conventional_plus(r, file_shapes=True)
        return api, knobs, U.build_request(api)
    got = dedicated("multifile", multifile, "C16-multifile")
    if got:
        out.append({"name": "multifile", "req": got[2], "transport": "grpc", "knobs": got[1], "e2e": True,
                    "first": [h for h in got[0].info.get("c16_subsets", []) if h and all(h)]})
    for i in range(n_random):
        r = env.rng("C16-api", i)
        try:
            api, knobs = U.conventional_plus(r)
            req = U.build_request(api)
        except apigen.Invalid:
            ctx.features["invalid-candidate"] += 1
            continue
        out.append({"name": f"conv{i}", "req": req, "transport": "grpc", "knobs": knobs, "e2e": True,
                    "first": [h for h in api.info.get("c16_subsets", []) if h and all(h)]})
    return out


# ------------------------------------------------------------------ T2 + schema-level oracle
def run_schema(ctx, items):
    """items: [{api, label, settings, intent}] — API.build vs model (T2) and the property's sentence on API.build's result."""
    _t0 = __import__("time").time()
    d = gen.case_dir("c16yaml")
    payload = []
    for k, it in enumerate(items):
        req = it["api"]["req"]
        frags = gen.write_option_files(os.path.join(d, f"s{k}"), service_yaml=U.service_yaml(req, it["settings"]))
        payload.append({"request_b64": apigen.req_b64(req), "parameter": ",".join(frags)})
    chunks = [list(range(i, min(i + 6, len(items)))) for i in range(0, len(items), 6)]
    results = [None] * len(items)
    for idxs, res in zip(chunks, gen.pmap(lambda ix: gen.impl("selective", [payload[i] for i in ix]), chunks)):
        for i, o in zip(idxs, res):
            results[i] = o
    ctx.notes.setdefault("schema_seconds", {})["impl"] = round(__import__("time").time() - _t0, 1)
    # group by API so that each cases file carries only the graphs it needs; the model's outcome of a case is
    # computed once (a let in the check's term) and shared by the comparisons of that case
    by_api = {}
    for k, it in enumerate(items):
        by_api.setdefault(id(it["api"]), []).append(k)
    groups = list(by_api.values())
    batches = [[g[i:i + 9]] for g in groups for i in range(0, len(g), 9)]   # at most 9 cases of one API per cases file
    jobs = []
    for bi, batch in enumerate(batches):
        shared, defs, checks = {}, [], []
        for gi, ks in enumerate(batch):
            api = items[ks[0]]["api"]
            graph = api.setdefault("graph", U.derive_graph(api["req"]))
            G = f"g{gi}"
            defs.append(U.graph_defs(graph, G, shared))
            wf = (f"{api['name']}: derived graph has unique addresses", f"wf_tableb {G}")
            checks.append(wf + (1, [wf]))
            first_sel = True
            for k in ks:
                it, obs = items[k], results[k]
                sub = schema_checks(ctx, api, G, graph, it, obs, "o", with_deps=first_sel and obs.get("ok", False))
                checks.append(combine(f"{api['name']} [{it['label']}]", G, graph["package"], it["settings"], sub))
                if obs.get("ok"):
                    first_sel = False
                schema_oracle(ctx, api, it, obs)
        jobs.append((f"c16t2_{bi}", U.COQ_DEFS + "\n".join(shared.values()) + "\n" + "\n".join(defs), checks))
    ctx.notes["schema_seconds"]["terms"] = round(__import__("time").time() - _t0, 1)
    all_failing, nchecks = [], 0
    for (tag, defs, checks), (failing, errors, nfiles) in zip(jobs, gen.pmap(lambda j: coq.eval_checks(j[0], IMPORTS, j[1], [c[:2] for c in j[2]], chunk=100000), jobs)):
        nchecks += sum(c[2] for c in checks)
        all_failing += errors
        if failing:
            # second pass: which comparison of the failing cases disagrees
            detail = [d for c in checks if c[0] in failing for d in c[3]]
            f2, e2, _ = coq.eval_checks(tag + "_detail", IMPORTS, defs, detail, chunk=100000)
            all_failing += (f2 or failing) + e2
    ctx.oblige(f"T2 model = API.build on {len(items)} (API, settings) cases: outcome, per-proto messages/enums/top-level/services/methods, "
               f"internal marks and client names, allow-list, validation errors ({nchecks} comparisons)",
               not all_failing and nchecks > 0, "; ".join(all_failing[:8]))
    ctx.notes["schema_seconds"]["coq"] = round(__import__("time").time() - _t0, 1)
    ctx.notes["schema_seconds"]["files"] = len(jobs)
    ctx.notes["t2_checks"] = nchecks
    ctx.notes["t2_disagreements"] = all_failing[:20]
    return all_failing


def combine(label, G, pkg, settings, sub):
    """One boolean per case: the model's outcome (and allow-list) is computed once and shared by the comparisons.
    Returns (label, expr, number of comparisons, detailed (label, expr) list for a second pass)."""
    sel = next((s for s in reversed(settings) if s["version"] == pkg), None)
    al = f"allowlist {G} {coq.slist(sel['methods'])}" if sel is not None else "@Ok (list addr) []"
    # a beta-redex, not a let: the body is type-checked with o and al abstract (a let lets unification unfold
    # [build], which costs tens of seconds on large terms); vm_compute evaluates the arguments once
    pre = "(fun (o : outcome) (al : res (list addr)) => "
    post = f") (build {G} {coq.s(pkg)} {U.settings_term(settings)}) ({al})"
    expr = f"({pre}match failing {coq.lst('(' + e + ')' for _, e in sub)} with [] => true | _ => false end{post})"
    return (label, expr, len(sub), [(l, f"({pre}{e}{post})") for l, e in sub])


def schema_checks(ctx, api, G, graph, it, obs, O, with_deps):
    pkg = graph["package"]
    lab = f"{api['name']} [{it['label']}]"
    ch = []
    if obs.get("ok"):
        if obs["package"] != obs["proto_package"] or obs["package"] != pkg:
            ctx.oblige(f"{lab}: one target package", False, f"{obs['package']} / {obs['proto_package']} / {pkg}")
        ch.append((f"{lab}: outcome Built", f"is_built {O}"))
        ch.append((f"{lab}: all_protos names", f"list_eqb String.eqb (map o_name (built {O})) {coq.slist(p['name'] for p in obs['protos'])}"))
        for p in obs["protos"]:
            if not p["target"] and not with_deps:
                continue
            FO = f"(find_ofile (built {O}) {coq.s(p['name'])})"
            n = p["name"]
            ch.append((f"{lab}: {n} all_messages", f"ol_eqb (option_map o_msgs {FO}) (Some {coq.slist(p['messages'])})"))
            ch.append((f"{lab}: {n} all_enums", f"ol_eqb (option_map o_enums {FO}) (Some {coq.slist(p['enums'])})"))
            ch.append((f"{lab}: {n} top-level messages", f"ol_eqb (option_map (fun o => map m_addr (o_top o)) {FO}) (Some {coq.slist(p['top'])})"))
            ch.append((f"{lab}: {n} top-level enums", f"ol_eqb (option_map o_top_enums {FO}) (Some {coq.slist(p['top_enums'])})"))
            if p["target"]:
                sv = coq.lst(f"({coq.s(s['addr'])}, {coq.slist(m['name'] for m in s['methods'])})" for s in p["services"])
                ch.append((f"{lab}: {n} services/methods", f"option_eqb sv_eqb (option_map (fun o => map svc_view (o_svcs o)) {FO}) (Some {sv})"))
                nv = coq.lst(f"({coq.s(s['client_name'])}, {coq.slist([s['async_client_name']] + [m['client_method_name'] for m in s['methods']])})" for s in p["services"])
                ch.append((f"{lab}: {n} client and method names", f"option_eqb sv_eqb (option_map (fun o => map names_view (o_svcs o)) {FO}) (Some {nv})"))
                fv = coq.lst(f"({coq.s(s['addr'])}, {coq.slist('1' if m['is_internal'] else '0' for m in s['methods'])})" for s in p["services"])
                ch.append((f"{lab}: {n} internal marks", f"option_eqb sv_eqb (option_map (fun o => map flags_view (o_svcs o)) {FO}) (Some {fv})"))
                ch.append((f"{lab}: {n} service internal", f"list_eqb Bool.eqb (match {FO} with Some o => map svc_internal (o_svcs o) | None => [] end) "
                                                            f"{coq.lst(coq.b(s['is_internal']) for s in p['services'])}"))
        sel = next((s for s in reversed(it["settings"]) if s["version"] == pkg), None)
        if obs["allowlist"] is not None:
            if sel is None:
                ch.append((f"{lab}: allow-list recorded without a setting for the package", "false"))
            else:
                A = "al"
                ch.append((f"{lab}: allow-list", f"match {A} with Ok al => set_eqb al {coq.slist(obs['allowlist'])} | Err _ => false end"))
        else:
            pruning = sel is not None and sel["methods"] and not sel.get("internal")
            ch.append((f"{lab}: no pruning pass ran", coq.b(not pruning)))
        ch.append((f"{lab}: all_methods after the pass is a subset of the input's", f"subsetb {coq.slist(obs['all_methods'])} (all_methods {G})"))
    elif obs["error"] == "ClientLibrarySettingsError":
        det = obs["detail"]
        if not isinstance(det, dict):
            ctx.oblige(f"{lab}: settings error text understood", False, str(det))
            return ch
        ch.append((f"{lab}: outcome Rejected", f"is_rejected {O}"))
        ch.append((f"{lab}: versions with errors", f"set_eqb (map fst (rejected {O})) {coq.slist(det)}"))
        for v, e in det.items():
            exp = coq.pairs([("", "dup")] if e == "dup" else sorted(e.items()))
            ch.append((f"{lab}: errors of {v}", f"pairs_set_eqb (last_err {coq.s(v)} (rejected {O})) {exp}"))
    elif obs["error"] == "RecursionError":
        ch.append((f"{lab}: outcome Crashed ERecursion", f"String.eqb (crash_code {O}) \"RecursionError\""))
    else:
        ctx.oblige(f"{lab}: API.build outcome is one the model knows", False, f"{obs['error']}: {obs['detail']}")
    return ch


def case_of(api, it, level):
    return {"level": level, "api": api["name"], "label": it["label"], "settings": it["settings"], "intent": it["intent"],
            "transport": api["transport"], "request_b64": apigen.req_b64(api["req"])}


def case_key(api, it, level):
    return {"level": level, "req": env.canon_hash(apigen.req_b64(api["req"])), "settings": it["settings"]}


def schema_oracle(ctx, api, it, obs):
    """The property's sentence on what API.build returned (independent of the model)."""
    ref = api.setdefault("ref", U.Ref(api["req"]))
    pkg = ref.pkg
    case = case_of(api, it, "schema")
    sel = next((s for s in reversed(it["settings"]) if s["version"] == pkg), None)
    listed = list(sel["methods"]) if sel else []
    ctx.case(case_key(api, it, "schema"), nontrivial=bool(listed) or it["intent"] not in ("valid", "none"),
             feature=[f"intent={it['intent']}", f"internal={bool(sel and sel.get('internal'))}"] + [f"knob={k}" for k in sorted(api["knobs"])])
    intent = it["intent"]
    if intent in ("unknown", "other_version", "dup"):
        if obs.get("ok") or obs.get("error") != "ClientLibrarySettingsError":
            ctx.violation(f"{intent} selective-generation entry was not rejected ({obs.get('error', 'built')})", case)
        return
    if intent == "misspelt" and not obs.get("ok"):
        if obs.get("error") != "ClientLibrarySettingsError":
            ctx.violation(f"a misspelt listed name was neither rejected as a settings error nor accepted: {obs.get('error')}", case)
        return
    if intent not in ("valid", "none", "misspelt"):
        return
    if intent == "misspelt" and sel is not None:
        # accepted: it must then mean the method it misspells (the property: listed RPCs are exposed, only unlisted ones get the underscore)
        listed = list(sel.get("canonical") or listed)
        case = {**case, "note": f"the spelling {sel['methods']} was accepted; it must then mean {listed}"}
    if not obs.get("ok"):
        if obs.get("error") == "RecursionError" and "polling_cycle" in api["knobs"] and listed and not sel.get("internal"):
            # outside the property: the FULL library of an API whose polling chain loops cannot be imported either
            # (its service modules import each other); only the model/implementation correspondence is checked here
            ctx.features["polling-cycle: API.build RecursionError (not judged)"] += 1
        else:
            ctx.violation(f"valid selective-generation settings failed: {obs.get('error')}: {str(obs.get('detail'))[:300]}", case)
        return
    have_methods = {m["addr"]: (s, m) for p in obs["protos"] if p["target"] for s in p["services"] for m in s["methods"]}
    have_types = {t for p in obs["protos"] if p["target"] for t in p["messages"] + p["enums"]}
    have_services = {s["addr"] for p in obs["protos"] if p["target"] for s in p["services"]}
    if not listed:
        exp_methods, exp_types = set(ref.methods), set(ref.target_types)
        upper = exp_types
    elif sel.get("internal"):
        exp_methods, exp_types = set(ref.methods), set(ref.target_types)
        upper = exp_types
        for a, (s, m) in have_methods.items():
            want = a not in listed
            if bool(m["is_internal"]) != want or m["client_method_name"].startswith("_") != want:
                ctx.violation(f"generate_omitted_as_internal: {a} internal={m['is_internal']} name={m['client_method_name']} but listed={not want}", case)
        for p in obs["protos"]:
            for s in p["services"] if p["target"] else []:
                base = any(m["addr"] not in listed for m in s["methods"])
                if s["client_name"] != ("Base" if base else "") + s["name"] + "Client" or s["async_client_name"] != ("Base" if base else "") + s["name"] + "AsyncClient":
                    ctx.violation(f"generate_omitted_as_internal: client names of {s['addr']} are {s['client_name']}/{s['async_client_name']}", case)
    else:
        exp_methods, exp_types = ref.reach(listed)
        exp_types = exp_types & ref.target_types
        # a nested type can only exist inside its enclosing message: keeping those (and what they need) is allowed
        upper = ref.reach(listed, enclosing=True)[1] & ref.target_types
    if set(have_methods) != exp_methods:
        ctx.violation(f"RPCs after API.build {sorted(set(have_methods) ^ exp_methods)[:6]} differ from the listed RPCs (+ polling methods)", case)
    exp_services = {a.rsplit(".", 1)[0] for a in exp_methods} if listed and not sel.get("internal") else set(ref.services)
    if have_services != exp_services:
        ctx.violation(f"services after API.build differ: {sorted(have_services ^ exp_services)[:6]}", case)
    if exp_types - have_types:
        sig = resdup_signature(ref, listed, exp_types - have_types) if listed and not sel.get("internal") else None
        ctx.violation(f"types reachable from the kept RPCs are missing after API.build: {sorted(exp_types - have_types)[:8]}", case, sig)
    # a kept nested type only exists inside its outermost enclosing message: that message must be kept too
    orphans = sorted(t for t in have_types if t in ref.kind and ref.parent.get(t) and ref.top(t) not in have_types)
    if orphans:
        ctx.violation(f"nested types are kept while their outermost enclosing message is pruned (they are never rendered): {orphans[:6]}",
                      case, SIG_NESTED)
    if have_types - upper:
        ctx.violation(f"types of the target package that no kept RPC reaches survive API.build: {sorted(have_types - upper)[:8]}", case)
    # dependency packages untouched
    for p in obs["protos"]:
        if not p["target"]:
            want = sorted(t for t, fp in ref.file_of.items() if fp.name == p["name"])
            if sorted(p["messages"] + p["enums"]) != want:
                ctx.violation(f"dependency file {p['name']} was altered", case)
    missing_deps = {fp.name for fp in api["req"].proto_file if not fp.package.startswith(pkg)} - {p["name"] for p in obs["protos"]}
    if missing_deps:
        ctx.violation(f"dependency files dropped: {sorted(missing_deps)[:4]}", case)


# ------------------------------------------------------------------ library level: T1 + oracle
def write_dep_pb2(req, root):
    """<pkg>/<file>_pb2.py for every dependency file that is not an installed one: the lines protoc would emit
    around the serialized FileDescriptorProto (there is no protoc here)."""
    pkg = U.target_package(req)
    std = apigen.std_files()
    for fp in req.proto_file:
        if fp.package.startswith(pkg) or fp.name in std:
            continue
        imports = "".join(f"import {d[:-len('.proto')].replace('/', '.')}_pb2  # noqa\n" for d in fp.dependency)
        modname = fp.name[:-len(".proto")].replace("/", ".") + "_pb2"
        path = os.path.join(root, fp.name[:-len(".proto")] + "_pb2.py")
        os.makedirs(os.path.dirname(path), exist_ok=True)
        with open(path, "w") as f:
            f.write("from google.protobuf import descriptor_pool as _descriptor_pool\n"
                    "from google.protobuf.internal import builder as _builder\n" + imports +
                    f"DESCRIPTOR = _descriptor_pool.Default().AddSerializedFile({fp.SerializeToString()!r})\n"
                    "_globals = globals()\n_builder.BuildMessageAndEnumDescriptors(DESCRIPTOR, _globals)\n"
                    f"_builder.BuildTopDescriptorsAndMessages(DESCRIPTOR, {modname!r}, _globals)\n")


def lib_package(files):
    cands = sorted((n for n in files if n.endswith("/gapic_metadata.json")), key=lambda n: (n.count("/"), n))
    if not cands:
        return None, None
    return os.path.dirname(cands[0]).replace("/", "."), json.loads(files[cands[0]])


def read_manifests(files, libdir):
    """{(sub-package path, module): (package, set(names))} from the types modules, with ast (fail-closed)."""
    out = {}
    for n, c in files.items():
        m = re.fullmatch(re.escape(libdir) + r"/((?:\w+/)*)types/(\w+)\.py", n)
        if not m or m.group(2) == "__init__":
            continue
        tree = ast.parse(c)
        found = None
        for node in tree.body:
            if isinstance(node, ast.Assign) and len(node.targets) == 1 and isinstance(node.targets[0], ast.Name) and node.targets[0].id == "__protobuf__":
                call = node.value
                if not (isinstance(call, ast.Call) and isinstance(call.func, ast.Attribute) and call.func.attr == "module"):
                    raise ValueError(f"{n}: unexpected __protobuf__ value")
                kw = {k.arg: k.value for k in call.keywords}
                man = kw.get("manifest")
                if not isinstance(man, (ast.Set, ast.Dict)):
                    raise ValueError(f"{n}: manifest is not a set literal")
                elts = man.elts if isinstance(man, ast.Set) else []
                if not all(isinstance(e, ast.Constant) and isinstance(e.value, str) for e in elts):
                    raise ValueError(f"{n}: non-literal manifest entry")
                if not isinstance(kw.get("package"), ast.Constant):
                    raise ValueError(f"{n}: package is not a literal")
                found = (kw["package"].value, {e.value for e in elts})
        if found is None:
            raise ValueError(f"{n}: no __protobuf__ assignment")
        out[(m.group(1).rstrip("/"), m.group(2))] = found
    return out


def run_library(ctx, libs):
    """libs: [{api, label, settings|None, intent}] — settings None is the full library of the API."""
    d = gen.case_dir("c16lib")
    jobs = []
    for k, lb in enumerate(libs):
        api = lb["api"]
        params = [f"transport={api['transport']}", "metadata"]
        sy = U.service_yaml(api["req"], lb["settings"]) if lb["settings"] is not None else None
        jobs.append(gen.with_params(api["req"], params, os.path.join(d, f"l{k}"), service_yaml=sy))
    gens = gen.pmap(gen.run_generator, jobs)
    # materialise + inspect
    roots = {}
    for k, (lb, (res, err)) in enumerate(zip(libs, gens)):
        lb["gen_ok"], lb["stderr"] = res is not None, err
        if res is not None:
            lb["files"] = gen.files_of(res)
            roots[k] = gen.materialize(res, os.path.join(d, f"out{k}"))
            write_dep_pb2(lb["api"]["req"], roots[k])
            lb["libpkg"], lb["meta"] = lib_package(lb["files"])
    insp = gen.pmap(lambda k: gen.impl("selective_inspect", {"root": roots[k], "package": libs[k]["libpkg"]}) if libs[k].get("libpkg") else None, list(roots))
    for k, o in zip(list(roots), insp):
        libs[k]["inspect"] = o
    # drive: the full library of each API once, then every selective library
    plans = {}
    for k, lb in enumerate(libs):
        if k in roots and lb.get("libpkg") and lb["intent"] in ("full", "valid", "misspelt"):
            plans[k] = drive_plan(lb)
    drv = gen.pmap(lambda k: _drive(roots[k], libs[k]["libpkg"], plans[k]), list(plans))
    for k, o in zip(list(plans), drv):
        libs[k]["drive"] = o
        libs[k]["plan"] = plans[k]
    full_of = {id(lb["api"]): lb for lb in libs if lb["intent"] == "full"}
    t1 = []
    per_api_graph = {}
    for lb in libs:
        if lb["intent"] == "full":
            if not lb["gen_ok"]:
                ctx.oblige(f"{lb['api']['name']}: the full library is generated", False, lb["stderr"][-500:], "T1")
            continue
        library_oracle(ctx, lb, full_of.get(id(lb["api"])))
        sub = library_t1(ctx, lb, per_api_graph)
        if sub:
            gname, graph = per_api_graph[id(lb["api"])]
            t1.append(combine(f"{lb['api']['name']} [{lb['label']}]", gname, graph["package"], lb["settings"], sub))
    if t1:
        shared, defs = {}, []
        for gname, graph in per_api_graph.values():
            defs.append(U.graph_defs(graph, gname, shared))
        alldefs = U.COQ_DEFS + "\n".join(shared.values()) + "\n" + "\n".join(defs)
        parts = [t1[i::4] for i in range(4) if t1[i::4]]
        failing, errors = [], []
        for part, (f1, e1, _) in zip(parts, gen.pmap(lambda pi: coq.eval_checks(f"c16t1_{pi[0]}", IMPORTS, alldefs, [c[:2] for c in pi[1]], chunk=100000), list(enumerate(parts)))):
            errors += e1
            if f1:
                f2, e2, _ = coq.eval_checks("c16t1_detail", IMPORTS, alldefs, [d for c in part if c[0] in f1 for d in c[3]], chunk=100000)
                failing += (f2 or f1)
                errors += e2
        n1 = sum(c[2] for c in t1)
        ctx.oblige(f"T1 emitted types manifests and gapic_metadata.json = model output ({n1} comparisons over {len(libs)} libraries)",
                   not failing and not errors, "; ".join((failing + errors)[:8]), "T1")
        ctx.notes["t1_checks"] = n1
    for k in roots:
        gen.rm(roots[k])


def _drive(root, pkg, plan):
    """Runs the plan; calls are grouped by the Python package of their client (the root package or a proto sub-package)."""
    if not plan:
        return []
    groups = {}
    for i, p in enumerate(plan):
        groups.setdefault(p.get("pkg", pkg), []).append(i)
    out = [None] * len(plan)
    for gpkg, idxs in groups.items():
        err, res = None, None
        for _ in range(2):  # loopback sockets under load: one retry of the whole driver process
            try:
                res = gen.impl("drive", {"root": root, "package": gpkg, "calls": [plan[i]["spec"] for i in idxs]}, timeout=300)
                break
            except Exception as e:  # noqa
                err = e
        if res is None:
            return {"error": str(err)[-800:]}
        for i, rec in zip(idxs, res):
            out[i] = rec
    return out


def drive_plan(lb):
    """One call per RPC the library is expected to expose (per the property's sentence)."""
    api = lb["api"]
    ref = api.setdefault("ref", U.Ref(api["req"]))
    dy = api.setdefault("dyn", dyn.Dyn(api["req"]))
    pkg = ref.pkg
    sel = None
    if lb["settings"] is not None:
        sel = next((s for s in reversed(lb["settings"]) if s["version"] == pkg), None)
    listed = set(sel.get("canonical") or sel["methods"]) if sel and sel["methods"] else None
    internal = bool(sel and sel.get("internal"))
    if listed is None or internal:
        kept = set(ref.methods)
    else:
        kept = ref.kept_methods(listed)
    plan = []
    for addr in sorted(kept):
        fp, s, m = ref.methods[addr]
        svc_unlisted = listed is not None and internal and any(f"{fp.package}.{s.name}.{x.name}" not in listed for x in s.method)
        m_unlisted = listed is not None and internal and addr not in listed
        r = env.rng("C16-req", int(env.canon_hash(addr), 16) % 10**9)
        inp = m.input_type.lstrip(".")
        if api["transport"] == "rest":
            msg = dy.new(inp)
            for f in msg.DESCRIPTOR.fields:
                if f.type == f.TYPE_STRING and f.label != f.LABEL_REPEATED:
                    setattr(msg, f.name, f.name[:3] + "1")
        else:
            msg = dy.random(r, inp, fill=0.8)
        b64 = dyn.Dyn.b64(msg)
        ifp = ref.file_of.get(inp)
        if ifp is None or not ifp.package.startswith(pkg) or not inp.startswith(ifp.package + "."):
            continue  # request type outside the target package (not generated by these APIs)
        rel = inp[len(ifp.package) + 1:]
        tpkg = lb["libpkg"] + ifp.package[len(pkg):]          # types package of the (sub-)package declaring the request
        cpkg = lb["libpkg"] + fp.package[len(pkg):]           # package holding the client of this service
        unary = "_unary" if api["transport"] != "rest" and m.options.Extensions[U.ex_pb2.operation_service] else ""
        spec = {"service_module": U.snake(s.name), "client": ("Base" if svc_unlisted else "") + s.name + "Client",
                "transport": api["transport"], "method": ("_" if m_unlisted else "") + U.snake(m.name) + unary}
        if m.client_streaming:
            spec["request"] = {"mode": "stream", "cls": f"{tpkg}.types:{rel}", "stream": [b64]}
        else:
            spec["request"] = {"mode": "message", "cls": f"{tpkg}.types:{rel}", "b64": b64}
        spec["consume"] = "stream" if m.server_streaming else "value"
        plan.append({"addr": addr, "spec": spec, "pkg": cpkg})
    return plan


def wire_view(rec):
    """What a call put on the wire + what it returned, without volatile parts."""
    if not isinstance(rec, dict):
        return {"bad": str(rec)[:200]}
    g = [{"path": c["path"], "requests": c["requests"], "params": sorted(v for k, v in c["metadata"] if k == "x-goog-request-params")}
         for c in rec.get("grpc_calls", [])]
    h = [{"verb": c["verb"], "path": c["path"], "query": sorted(map(tuple, c["query"])), "body": c["body"]} for c in rec.get("http_calls", [])]
    res = rec.get("result")
    if isinstance(res, list):
        res = [{k: v for k, v in x.items() if k in ("kind", "b64", "items", "type")} if isinstance(x, dict) else x for x in res]
        for x in res:
            if isinstance(x, dict) and x.get("kind") == "other":
                x["type"] = x.get("type", "").split(".")[-1]
    return {"ok": rec.get("ok"), "error": (rec.get("error") or {}).get("exception"), "grpc": g, "http": h, "result": res}


def has_nested_defect(ref, reach_types):
    return sorted(t for t in reach_types if t in ref.target_types and ref.parent.get(t) and ref.top(t) not in reach_types)


def library_oracle(ctx, lb, full):
    api = lb["api"]
    ref = api.setdefault("ref", U.Ref(api["req"]))
    pkg = ref.pkg
    case = case_of(api, lb, "library")
    sel = next((s for s in reversed(lb["settings"]) if s["version"] == pkg), None)
    listed = list(sel["methods"]) if sel else []
    internal = bool(sel and sel.get("internal"))
    ctx.case(case_key(api, lb, "library"), nontrivial=bool(listed) or lb["intent"] != "valid",
             feature=[f"lib-intent={lb['intent']}", f"lib-internal={internal}"] + [f"lib-knob={k}" for k in sorted(api["knobs"])])
    if lb["intent"] == "misspelt":
        if not lb["gen_ok"]:
            kind = gen.error_kind(lb["stderr"])
            if kind != "ClientLibrarySettingsError":
                ctx.violation(f"a misspelt listed name was neither rejected as a settings error nor accepted: {kind}", case)
            return
        listed = list(sel.get("canonical") or listed) if sel else listed
        case = {**case, "note": f"the spelling {sel['methods'] if sel else None} was accepted; it must then mean {listed}"}
    if lb["intent"] in ("unknown", "other_version", "dup"):
        kind = gen.error_kind(lb["stderr"]) if not lb["gen_ok"] else "generated"
        if lb["gen_ok"] or kind != "ClientLibrarySettingsError":
            ctx.violation(f"{lb['intent']} selective-generation entry was not rejected at generation time ({kind})", case)
        return
    if not lb["gen_ok"]:
        kind = gen.error_kind(lb["stderr"])
        has_sub = any(fp.package.startswith(pkg) and fp.package != pkg for fp in api["req"].proto_file)
        sig = SIG_SUBPKG if kind == "ClientLibrarySettingsError" and has_sub and "Method does not exist" in lb["stderr"] else None
        ctx.violation(f"generation failed for valid selective settings: {kind}: {lb['stderr'][-300:]}", case, sig)
        return
    insp = lb.get("inspect")
    if not insp or not insp.get("ok"):
        ctx.violation(f"the selective library does not import: {(insp or {}).get('error')}", case)
        return
    if listed and not internal:
        kept, rtypes = ref.reach(listed)
        _, rplus = ref.reach(listed, enclosing=True)
    else:
        kept, rtypes, rplus = set(ref.methods), set(ref.kind), set(ref.kind)
    nested_defect = has_nested_defect(ref, rtypes) if listed and not internal else []
    # --- classes of the types package vs reference reachability
    have = {t["proto"] for t in insp["types"] if t.get("proto")}
    want = {t for t in rtypes if t in ref.target_types and not ref.is_map_entry(t)}
    missing = sorted(want - have)
    extra = sorted(t for t in have if t in ref.target_types and t not in rplus)
    if missing:
        sig = SIG_NESTED if nested_defect and all(ref.parent.get(t) and ref.top(t) not in rtypes for t in missing) else None
        if sig is None and listed and not internal:
            sig = resdup_signature(ref, listed, missing)
        ctx.violation(f"types reachable from the kept RPCs are not exposed by the library: {missing[:6]}", case, sig)
    if extra:
        ctx.violation(f"types of the target package that no kept RPC reaches are still emitted: {extra[:6]}", case)
    # --- clients and methods
    svc_mods = insp["services"]
    by_service = {}
    for a in ref.methods:
        by_service.setdefault(a.rsplit(".", 1)[0], []).append(a)
    for saddr, maddrs in by_service.items():
        sname = saddr.rsplit(".", 1)[1]
        mod = svc_mods.get(U.snake(sname))
        any_kept = any(a in kept for a in maddrs)
        if not any_kept:
            if mod is not None:
                ctx.violation(f"service {sname} has no kept RPC but its client module is emitted", case)
            continue
        if mod is None:
            ctx.violation(f"service {sname} has kept RPCs but no client module", case)
            continue
        base = internal and any(a not in listed for a in maddrs)
        cname = ("Base" if base else "") + sname + "Client"
        aname = ("Base" if base else "") + sname + "AsyncClient"
        if cname not in mod["classes"] or (api["transport"] != "rest" and aname not in mod["classes"]):
            ctx.violation(f"client classes of {sname}: {mod['classes']} (expected {cname})", case)
            continue
        # the method names each client exposes for the RPCs of the service. An extended-operation RPC (annotated with
        # google.cloud.operation_service) appears as <name>_unary in both clients and also as <name> (the wrapper that
        # returns an ExtendedOperation) in the sync client; an unlisted RPC under generate_omitted_as_internal has every
        # one of its names prefixed with an underscore; an RPC that is not kept has none of them.
        for cls, is_async in ((cname, False), (aname, True)):
            if cls not in mod["classes"]:
                continue
            attrs = set(mod["attrs"].get(cls, []))
            for a in maddrs:
                sn = U.snake(a.rsplit(".", 1)[1])
                ext = bool(ref.methods[a][2].options.Extensions[U.ex_pb2.operation_service])
                shapes = ([sn + "_unary"] if is_async else [sn, sn + "_unary"]) if ext else [sn]
                cands = {x for b in (sn, sn + "_unary") for x in (b, "_" + b)}
                if a not in kept:
                    want = set()
                elif internal and a not in listed:
                    want = {"_" + x for x in shapes}
                else:
                    want = set(shapes)
                got = attrs & cands
                if got != want:
                    ctx.violation(f"client {cls}: RPC {a} (kept={a in kept}, listed={a in listed}, extended operation={ext}) is exposed as "
                                  f"{sorted(got)}; expected {sorted(want)}", case)
    # --- kept RPCs behave as in the full library
    if full is None or "drive" not in full or "drive" not in lb:
        ctx.oblige(f"{api['name']} [{lb['label']}]: kept RPCs were driven in both libraries", False, "no drive result", "T1")
        return
    if isinstance(lb["drive"], dict) or isinstance(full["drive"], dict):
        ctx.oblige(f"{api['name']} [{lb['label']}]: driver ran", False, str(lb["drive"] if isinstance(lb["drive"], dict) else full["drive"])[:500], "T1")
        return
    fullview = {p["addr"]: wire_view(rec) for p, rec in zip(full["plan"], full["drive"])}
    for p, rec in zip(lb["plan"], lb["drive"]):
        v, fv = wire_view(rec), fullview.get(p["addr"])
        if fv is None or not fv["ok"] or not (fv["grpc"] or fv["http"]):
            ctx.oblige(f"{api['name']}: RPC {p['addr']} can be driven in the full library", False, json.dumps(fv)[:400], "T1")
            continue
        if v != fv:
            diff = [k for k in v if v[k] != fv[k]]
            sig = SIG_NESTED if nested_defect and not v["ok"] else None
            fp_, s_, m_ = ref.methods[p["addr"]]
            ops = m_.options.Extensions[U.ex_pb2.operation_service]
            if sig is None and internal and ops and v["error"] == "AttributeError" and v["http"] == fv["http"] and v["grpc"] == fv["grpc"]:
                poll = ref.kept_methods([p["addr"]]) - {p["addr"]}
                if poll and not (poll & set(listed)):
                    sig = SIG_POLL
            ctx.violation(f"kept RPC {p['addr']} behaves differently from the full library ({', '.join(diff)}; error={v['error']})",
                          {**case, "rpc": p["addr"], "selective": v, "full": fv}, sig)


def library_t1(ctx, lb, per_api_graph):
    """Emitted artefacts (types manifests by ast, gapic_metadata.json) against the model's output."""
    if not lb["gen_ok"] or lb["intent"] not in ("valid", "none"):
        return []
    api = lb["api"]
    graph = api.setdefault("graph", U.derive_graph(api["req"]))
    gname, _ = per_api_graph.setdefault(id(api), (f"g{len(per_api_graph)}", graph))
    pkg = graph["package"]
    lab = f"{api['name']} [{lb['label']}]"
    O = "o"
    libdir = lb["libpkg"].replace(".", "/") if lb.get("libpkg") else None
    ch = []
    try:
        if libdir is None:
            raise ValueError("no gapic_metadata.json in the response")
        man = read_manifests(lb["files"], libdir)
    except Exception as e:  # noqa
        ctx.oblige(f"{lab}: T1 extraction of types manifests", False, repr(e), "T1")
        return []
    tfiles = [f for f in graph["files"] if f["target"]]
    pkg_of_file = {fp.name: fp.package for fp in api["req"].proto_file}
    mod_of = {(pkg_of_file[f["name"]][len(pkg):].strip(".").replace(".", "/"), os.path.basename(f["name"])[:-len(".proto")]): f for f in tfiles}
    ch.append((f"{lab}: emitted types modules = target files left by the model",
               f"set_eqb (map o_name (filter o_target (built {O}))) {coq.slist(mod_of[m]['name'] for m in man if m in mod_of)} && "
               f"Nat.eqb (length (filter o_target (built {O}))) {len(man)}"))
    for m, (ppkg, names) in man.items():
        if m not in mod_of:
            ctx.oblige(f"{lab}: types module {m} corresponds to a target file", False, str(sorted(mod_of)), "T1")
            continue
        fq = [f"{ppkg}.{n}" for n in sorted(names)]
        FO = f"(find_ofile (built {O}) {coq.s(mod_of[m]['name'])})"
        ch.append((f"{lab}: manifest of {'/'.join(x for x in m if x)} (types module)", f"match {FO} with Some o => set_eqb (o_top_enums o ++ map m_addr (o_top o)) {coq.slist(fq)} | None => false end"))
    # gapic_metadata.json
    meta = lb.get("meta") or {}
    obs = []
    try:
        for sname, sd in meta.get("services", {}).items():
            clients = sd["clients"]
            tr = "grpc" if "grpc" in clients else "rest"
            obs.append(f"{sname}|{clients[tr]['libraryClient']}")
            if "grpc-async" in clients:
                obs.append(f"{sname}|async|{clients['grpc-async']['libraryClient']}")
            for rpc, md in clients[tr]["rpcs"].items():
                (mn,) = md["methods"]
                obs.append(f"{sname}.{rpc}|{'_' if mn.startswith('_') else ''}")
    except Exception as e:  # noqa
        ctx.oblige(f"{lab}: T1 extraction of gapic_metadata.json", False, repr(e), "T1")
        return ch
    asyn = "true" if api["transport"] != "rest" else "false"
    ch.append((f"{lab}: gapic_metadata.json services, client names, rpcs and underscore marks",
               f"set_eqb (flat_map (fun o => flat_map (fun s => (os_name s ++ \"|\" ++ client_name s)%string :: "
               f"(if {asyn} then [(os_name s ++ \"|async|\" ++ async_client_name s)%string] else []) ++ "
               f"map (fun m => (os_name s ++ \".\" ++ me_name (om m) ++ \"|\" ++ (if starts_with \"_\" (client_method_name m) then \"_\" else \"\"))%string) "
               f"(os_methods s)) (o_svcs o)) (filter o_target (built {O}))) {coq.slist(obs)}"))
    return ch


# ------------------------------------------------------------------ run / replay / search
def run(ctx):
    import time
    t0 = time.time()
    apis_ = build_apis(ctx, ctx.n(1, 30))
    schema_items, libs = [], []
    # corpus: minimised witnesses of the fixed findings and of earlier misses (and anything triage adds). A corpus case on
    # the very request of a dedicated API joins that API (its configuration goes first, at schema and library level);
    # any other corpus case runs on its own, before everything else.
    corpus = {}
    cdir = os.path.join(env.VERIF, "corpus", "C16")
    for fn in sorted(os.listdir(cdir)) if os.path.isdir(cdir) else []:
        if not fn.endswith(".json"):
            continue
        c = json.load(open(os.path.join(cdir, fn))).get("case", {})
        if "request_b64" in c:
            corpus.setdefault((env.canon_hash(c["request_b64"]), c.get("transport", "grpc")), []).append((fn[:-5], c))
    for ai, api in enumerate(apis_):
        r = env.rng("C16-cfg", ai)
        mine = corpus.pop((env.canon_hash(apigen.req_b64(api["req"])), api["transport"]), [])
        forced = [(f"corpus:{fn} {c.get('label', '')}", c["settings"], c.get("intent", "valid")) for fn, c in mine]
        # quick: one generic subset next to the forced ones (two when there are none), the invalid/edge configurations on four APIs only
        inv_default = ctx.tier != "quick" or api["name"] in ("witness", "multifile", "conv0", "extended")
        cfgs = configs_for(r, api["req"], ctx.n(1 if api.get("first") else 2, 12), invalid=api.get("invalid", True) and inv_default, first=api.get("first", ()))
        seen_settings = {json.dumps(st, sort_keys=True) for _, st, _ in forced}
        cfgs = forced + [c for c in cfgs if json.dumps(c[1], sort_keys=True) not in seen_settings]
        for label, settings, intent in cfgs:
            schema_items.append({"api": api, "label": label, "settings": settings, "intent": intent})
        # quick: witness / extended run at library level only with their corpus configurations
        only_forced = ctx.tier == "quick" and api["name"] in ("witness", "extended")
        if (api["e2e"] and not only_forced) or forced:
            libs.append({"api": api, "label": "full", "settings": None, "intent": "full"})
            valid = [c for c in cfgs[len(forced):] if c[2] == "valid"]
            bad = [c for c in cfgs if c[2] in ("unknown", "other_version", "dup")]
            nv, nb = ctx.n(2, 8), ctx.n(1, 2)
            if api["name"] in ("witness", "extended", "extended-cyclic"):
                nv = ctx.n(2, 4)
            if api["name"] == "extended-grpc":
                nv = 0
            if api["name"].startswith("chain"):
                nv = 0
            nv += 2 * min(len(api.get("first", ())), ctx.n(2, 99))
            if only_forced or not api["e2e"]:
                valid, bad = [], []
            dotted = [c for c in cfgs if c[2] == "misspelt" and "leading dot" in c[0] and c[1][0]["internal"]][:1]
            if only_forced or not api["e2e"]:
                dotted = []
            for label, settings, intent in forced + valid[:nv] + r.sample(bad, min(nb, len(bad))) + dotted:
                libs.append({"api": api, "label": label, "settings": settings, "intent": intent})
    for entries in corpus.values():
        fn, c0 = entries[0]
        api = {"name": "corpus:" + fn, "req": apigen.req_from_b64(c0["request_b64"]), "transport": c0.get("transport", "grpc"),
               "knobs": {"corpus"}, "e2e": True}
        libs.insert(0, {"api": api, "label": "full", "settings": None, "intent": "full"})
        for k, (fn, c) in enumerate(entries):
            it = {"api": api, "label": f"corpus:{fn} {c.get('label', '')}", "settings": c["settings"], "intent": c.get("intent", "valid")}
            schema_items.insert(0, it)
            libs.insert(1, dict(it))
        apis_.append(api)
    ctx.notes["apis"] = len(apis_)
    ctx.notes["schema_cases"] = len(schema_items)
    ctx.notes["libraries"] = len(libs)
    t1 = time.time()
    run_schema(ctx, schema_items)
    t2 = time.time()
    run_library(ctx, libs)
    ctx.notes["seconds"] = {"inputs": round(t1 - t0, 1), "schema": round(t2 - t1, 1), "library": round(time.time() - t2, 1)}
    # the former counterexample (DESIGN 9 no. 4, fixed): on the graph derived from the corpus API the model keeps the
    # enclosing message, renders the nested types and agrees with Proofs.Selective.wit_g
    wit = apis_[0]
    g = wit.setdefault("graph", U.derive_graph(wit["req"]))
    shared = {}
    defs = U.graph_defs(g, "gw", shared)
    pk = g["package"]
    sel = [{"version": pk, "methods": [pk + ".Library.GetThing"], "internal": False}]
    O = f"(build gw {coq.s(pk)} {U.settings_term(sel)})"
    failing, errors, _ = coq.eval_checks("c16wit", IMPORTS + "\nFrom GV Require Import Proofs.Selective.", U.COQ_DEFS + "\n".join(shared.values()) + "\n" + defs, [
        ("derived witness graph: no dangling reference in the model's outcome", f"match dangling gw (built {O}) with [] => is_built {O} | _ => false end"),
        ("derived witness graph: Outer is kept by the closing loop only",
         f"mem {coq.s(pk + '.Outer')} (allowed (allowlist gw {coq.slist(sel[0]['methods'])})) && negb (mem {coq.s(pk + '.Outer')} (allowed (allowlist0 gw {coq.slist(sel[0]['methods'])})))"),
        ("derived witness graph: Outer.Inner is rendered", f"mem {coq.s(pk + '.Outer.Inner')} (rendered (built {O}))"),
        ("derived witness graph has the allow-list of Proofs.wit_g",
         f"set_eqb (allowed (allowlist gw {coq.slist(sel[0]['methods'])})) (allowed (allowlist wit_g (flat_map ls_methods wit_l)))"),
    ])
    ctx.oblige("example of C16_ex_enclosing_kept = the corpus API run on the implementation", not failing and not errors, "; ".join(failing + errors))
    # the graphs of C16_ex_res_lookup_order / C16_resource_reference_keeps_message_witness are the ones derived from
    # c16_util.resource_twice_api: a (message first) and b (file-level definition first, the former witness of the repaired
    # finding); both run on the implementation above (T2)
    shared, defs, checks = {}, [], []
    for arr, coqg in (("a", "[rt_res; rt_lib]"), ("b", "[rt_lib; rt_res]")):
        rq, ht = U.resource_twice_api(arr)
        ga = U.derive_graph(rq)
        defs.append(U.graph_defs(ga, f"grt_{arr}", shared))
        checks.append((f"derived graph of resource_twice_api({arr!r}): resource tables of Proofs.rt_res / rt_lib",
                       f"list_eqb (list_eqb (pair_eqb String.eqb String.eqb)) (map fi_res (filter fi_target grt_{arr})) (map fi_res {coqg})"))
        checks.append((f"derived graph of resource_twice_api({arr!r}): allow-list of the Coq example",
                       f"is_built (build grt_{arr} {coq.s(ga['package'])} {U.settings_term([{'version': ga['package'], 'methods': ht[0]}])}) && "
                       f"set_eqb (allowed (allowlist grt_{arr} {coq.slist(ht[0])})) (allowed (allowlist {coqg} rt_sel)) && "
                       f"(mem {coq.s(ga['package'] + '.Shelf')} (allowed (allowlist grt_{arr} {coq.slist(ht[0])})))"))
    failing, errors, _ = coq.eval_checks("c16rt", IMPORTS + "\nFrom GV Require Import Proofs.Selective.", U.COQ_DEFS + "\n".join(shared.values()) + "\n" + "\n".join(defs), checks)
    ctx.oblige("examples C16_ex_res_lookup_order / C16_resource_reference_keeps_message_witness = the graphs derived from resource_twice_api a / b",
               not failing and not errors, "; ".join(failing + errors))


def replay(ctx, rep):
    c = rep.get("case", {})
    if "request_b64" not in c:
        return run(ctx)
    req = apigen.req_from_b64(c["request_b64"])
    api = {"name": c.get("api", "replay"), "req": req, "transport": c.get("transport", "grpc"), "knobs": set(), "e2e": True}
    it = {"api": api, "label": c.get("label", "replay"), "settings": c["settings"], "intent": c.get("intent", "valid")}
    run_schema(ctx, [it])
    run_library(ctx, [{"api": api, "label": "full", "settings": None, "intent": "full"}, dict(it)])
    for v in ctx.violations:
        print("  replay:", v["what"])


def search(ctx, broken):
    """A theorem or correspondence broke without an oracle failure: look harder near the disagreement."""
    apis_ = build_apis(ctx, 4)
    items, libs = [], []
    for ai, api in enumerate(apis_):
        r = env.rng("C16-search", ai)
        cfgs = configs_for(r, api["req"], 5, invalid=False, first=api.get("first", ()))
        for label, settings, intent in cfgs:
            items.append({"api": api, "label": label, "settings": settings, "intent": intent})
        if api["e2e"] and api["name"].startswith(("conv", "multifile", "depref", "subpackage")):
            libs.append({"api": api, "label": "full", "settings": None, "intent": "full"})
            for label, settings, intent in [c for c in cfgs if c[2] == "valid"][:4]:
                libs.append({"api": api, "label": label, "settings": settings, "intent": intent})
    before = len(ctx.obligations)
    run_schema(ctx, items)
    if not ctx.violations:
        run_library(ctx, libs)
    del ctx.obligations[before:]
