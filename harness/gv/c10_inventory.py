"""T0 site inventory for C10: every place where /repo builds or iterates a set, and every sorting filter in the templates.
Sites are keyed by (file, enclosing class.function, kind, ordinal inside that function) — never by line number."""
import ast, os, re
from . import env

PY_DIRS = ["gapic/schema", "gapic/generator", "gapic/utils", "gapic/samplegen", "gapic/samplegen_utils", "gapic/cli"]


def py_sites():
    out = []
    for d in PY_DIRS:
        root = os.path.join(env.REPO, d)
        for fn in sorted(os.listdir(root)):
            if not fn.endswith(".py") or fn.endswith("_pb2.py"):
                continue
            rel = f"{d}/{fn}"
            tree = ast.parse(open(os.path.join(root, fn), encoding="utf-8").read())
            counters = {}

            def visit(node, scope):
                for child in ast.iter_child_nodes(node):
                    sc = scope
                    if isinstance(child, (ast.FunctionDef, ast.AsyncFunctionDef, ast.ClassDef)):
                        sc = scope + [child.name]
                    kind = None
                    if isinstance(child, ast.Set):
                        kind = "set-literal"
                    elif isinstance(child, ast.SetComp):
                        kind = "set-comprehension"
                    elif isinstance(child, ast.Call) and isinstance(child.func, ast.Name) and child.func.id in ("set", "frozenset"):
                        kind = child.func.id + "-call"
                    if kind:
                        key = (rel, ".".join(sc) or "<module>", kind)
                        counters[key] = counters.get(key, 0) + 1
                        out.append({"file": rel, "scope": key[1], "kind": kind, "ordinal": counters[key],
                                    "text": ast.unparse(child)[:90]})
                    visit(child, sc)

            visit(tree, [])
    return out


SORT_RE = re.compile(r"\|\s*(sort_lines|sort|dictsort|unique)\b(\([^)]*\))?")


def template_sites():
    out = []
    for tdir in ("gapic/templates", "gapic/ads-templates"):
        base = os.path.join(env.REPO, tdir)
        for root, _, files in os.walk(base):
            for fn in sorted(files):
                if not fn.endswith(".j2"):
                    continue
                rel = os.path.relpath(os.path.join(root, fn), env.REPO)
                counters = {}
                for m in SORT_RE.finditer(open(os.path.join(root, fn), encoding="utf-8").read()):
                    kind = m.group(1) + (m.group(2) or "")
                    counters[kind] = counters.get(kind, 0) + 1
                    out.append({"file": rel, "kind": kind, "ordinal": counters[kind]})
    return sorted(out, key=lambda s: (s["file"], s["kind"], s["ordinal"]))


def site_key(s):
    return "|".join(str(s.get(k, "")) for k in ("file", "scope", "kind", "ordinal"))
