"""Descriptor DSL: build FileDescriptorProtos / CodeGeneratorRequests without protoc.

Every request is validated by loading all files into a fresh DescriptorPool (the cross-linking
checks protoc applies); invalid candidates raise Invalid and are counted by the callers."""
import base64, importlib
from google.protobuf import descriptor_pb2 as dp, descriptor_pool
from google.protobuf.compiler import plugin_pb2
from google.api import annotations_pb2, client_pb2, field_behavior_pb2, resource_pb2, routing_pb2, field_info_pb2, http_pb2
from google.longrunning import operations_pb2

F = dp.FieldDescriptorProto
SCALARS = {
    "double": F.TYPE_DOUBLE, "float": F.TYPE_FLOAT, "int64": F.TYPE_INT64, "uint64": F.TYPE_UINT64,
    "int32": F.TYPE_INT32, "fixed64": F.TYPE_FIXED64, "fixed32": F.TYPE_FIXED32, "bool": F.TYPE_BOOL,
    "string": F.TYPE_STRING, "bytes": F.TYPE_BYTES, "uint32": F.TYPE_UINT32, "sfixed32": F.TYPE_SFIXED32,
    "sfixed64": F.TYPE_SFIXED64, "sint32": F.TYPE_SINT32, "sint64": F.TYPE_SINT64,
}
INT_SCALARS = ["int64", "uint64", "int32", "fixed64", "fixed32", "uint32", "sfixed32", "sfixed64", "sint32", "sint64"]
MAP_KEY_SCALARS = INT_SCALARS + ["bool", "string"]

WELL_KNOWN_MODULES = [
    "google.protobuf.any_pb2", "google.protobuf.duration_pb2", "google.protobuf.empty_pb2",
    "google.protobuf.field_mask_pb2", "google.protobuf.struct_pb2", "google.protobuf.timestamp_pb2",
    "google.protobuf.wrappers_pb2", "google.protobuf.descriptor_pb2",
    "google.api.annotations_pb2", "google.api.client_pb2", "google.api.field_behavior_pb2",
    "google.api.resource_pb2", "google.api.routing_pb2", "google.api.field_info_pb2", "google.api.http_pb2",
    "google.api.launch_stage_pb2", "google.rpc.status_pb2", "google.longrunning.operations_pb2",
    "google.iam.v1.iam_policy_pb2", "google.iam.v1.policy_pb2", "google.iam.v1.options_pb2",
    "google.type.expr_pb2", "google.cloud.location.locations_pb2",
]


class Invalid(Exception):
    pass


_std_cache = {}


def std_files():
    """name -> FileDescriptorProto for every installed dependency file we may reference."""
    if not _std_cache:
        todo = [importlib.import_module(m).DESCRIPTOR for m in WELL_KNOWN_MODULES]
        while todo:
            d = todo.pop()
            if d.name in _std_cache:
                continue
            fp = dp.FileDescriptorProto()
            d.CopyToProto(fp)
            _std_cache[d.name] = fp
            todo.extend(d.dependencies)
    return _std_cache


class Msg:
    def __init__(self, file, proto, fqn):
        self.file, self.proto, self.fqn = file, proto, fqn

    def field(self, name, number, typ, *, repeated=False, optional=False, oneof=None, required=False,
              uuid4=False, ref=None, child_ref=None, json_name=None):
        """typ: scalar name | '.fully.qualified.Message' | ('enum', '.fq.Enum')."""
        f = self.proto.field.add()
        f.name, f.number = name, number
        f.label = F.LABEL_REPEATED if repeated else F.LABEL_OPTIONAL
        if isinstance(typ, tuple):
            f.type, f.type_name = F.TYPE_ENUM, typ[1]
        elif typ in SCALARS:
            f.type = SCALARS[typ]
        else:
            f.type, f.type_name = F.TYPE_MESSAGE, typ
        if json_name:
            f.json_name = json_name
        if optional:
            f.proto3_optional = True
            od = self.proto.oneof_decl.add()
            od.name = "_" + name
            f.oneof_index = len(self.proto.oneof_decl) - 1
        elif oneof is not None:
            names = [o.name for o in self.proto.oneof_decl]
            if oneof not in names:
                # real oneofs must precede synthetic ones (protoc's order; the descriptor pool insists on it):
                # insert before the first synthetic one and renumber the fields that pointed at or behind that slot
                syn = [g.oneof_index for g in self.proto.field if g.proto3_optional and g.HasField("oneof_index")]
                at = min(syn) if syn else len(names)
                names.insert(at, oneof)
                del self.proto.oneof_decl[:]
                for n in names:
                    self.proto.oneof_decl.add().name = n
                for g in self.proto.field:
                    if g is not f and g.HasField("oneof_index") and g.oneof_index >= at:
                        g.oneof_index += 1
            f.oneof_index = names.index(oneof)
        if required:
            f.options.Extensions[field_behavior_pb2.field_behavior].append(field_behavior_pb2.REQUIRED)
        if uuid4:
            f.options.Extensions[field_info_pb2.field_info].format = field_info_pb2.FieldInfo.UUID4
        if ref:
            f.options.Extensions[resource_pb2.resource_reference].type = ref
        if child_ref:
            f.options.Extensions[resource_pb2.resource_reference].child_type = child_ref
        return self

    def map_field(self, name, number, key, value):
        entry = self.proto.nested_type.add()
        entry.name = "".join(p.capitalize() for p in name.split("_")) + "Entry"
        entry.options.map_entry = True
        k = entry.field.add(); k.name, k.number, k.label, k.type = "key", 1, F.LABEL_OPTIONAL, SCALARS[key]
        v = entry.field.add(); v.name, v.number, v.label = "value", 2, F.LABEL_OPTIONAL
        if isinstance(value, tuple):
            v.type, v.type_name = F.TYPE_ENUM, value[1]
        elif value in SCALARS:
            v.type = SCALARS[value]
        else:
            v.type, v.type_name = F.TYPE_MESSAGE, value
        f = self.proto.field.add()
        f.name, f.number, f.label, f.type = name, number, F.LABEL_REPEATED, F.TYPE_MESSAGE
        f.type_name = self.fqn + "." + entry.name
        return self

    def resource(self, typ, patterns):
        r = self.proto.options.Extensions[resource_pb2.resource]
        r.type = typ
        r.pattern.extend(patterns)
        return self

    def nested(self, name):
        m = self.proto.nested_type.add()
        m.name = name
        return Msg(self.file, m, self.fqn + "." + name)

    def enum(self, name, values):
        e = self.proto.enum_type.add()
        e.name = name
        for i, v in enumerate(values):
            ev = e.value.add()
            ev.name, ev.number = (v, i) if isinstance(v, str) else v
        return self.fqn + "." + name


class Svc:
    def __init__(self, file, proto):
        self.file, self.proto = file, proto

    def rpc(self, name, inp, out, *, cs=False, ss=False, http=None, more_http=(), body=None, sigs=(),
            routing=None, lro=None, deprecated=False):
        """http: (verb, uri) ; more_http: [(verb, uri, body)] ; routing: [(field, template)] ; lro: (resp, meta)"""
        m = self.proto.method.add()
        m.name, m.input_type, m.output_type = name, inp, out
        m.client_streaming, m.server_streaming = cs, ss
        if http:
            r = m.options.Extensions[annotations_pb2.http]
            setattr(r, http[0], http[1])
            if body is not None:
                r.body = body
            for verb, uri, b in more_http:
                ab = r.additional_bindings.add()
                setattr(ab, verb, uri)
                if b is not None:
                    ab.body = b
        for s in sigs:
            m.options.Extensions[client_pb2.method_signature].append(s)
        if routing is not None:
            rr = m.options.Extensions[routing_pb2.routing]
            for fld, tmpl in routing:
                p = rr.routing_parameters.add()
                p.field = fld
                if tmpl is not None:
                    p.path_template = tmpl
        if lro:
            oi = m.options.Extensions[operations_pb2.operation_info]
            oi.response_type, oi.metadata_type = lro
        if deprecated:
            m.options.deprecated = True
        return self


class File:
    def __init__(self, name, package, deps=()):
        self.proto = dp.FileDescriptorProto()
        self.proto.name, self.proto.package, self.proto.syntax = name, package, "proto3"
        self.proto.dependency.extend(deps)

    def dep(self, name):
        if name not in self.proto.dependency:
            self.proto.dependency.append(name)

    def message(self, name):
        m = self.proto.message_type.add()
        m.name = name
        return Msg(self, m, "." + self.proto.package + "." + name if self.proto.package else "." + name)

    def enum(self, name, values):
        e = self.proto.enum_type.add()
        e.name = name
        for i, v in enumerate(values):
            ev = e.value.add()
            ev.name, ev.number = (v, i) if isinstance(v, str) else v
        return ("." + self.proto.package + "." + name) if self.proto.package else "." + name

    def service(self, name, host=None, scopes=None, api_version=None):
        s = self.proto.service.add()
        s.name = name
        if host is not None:
            s.options.Extensions[client_pb2.default_host] = host
        if scopes:
            s.options.Extensions[client_pb2.oauth_scopes] = scopes
        if api_version:
            s.options.Extensions[client_pb2.api_version] = api_version
        return Svc(self, s)

    def resource_def(self, typ, patterns):
        r = self.proto.options.Extensions[resource_pb2.resource_definition].add()
        r.type = typ
        r.pattern.extend(patterns)

    def comment(self, path, leading):
        loc = self.proto.source_code_info.location.add()
        loc.path.extend(path)
        loc.leading_comments = leading


STD_DEPS = ["google/api/annotations.proto", "google/api/client.proto", "google/api/field_behavior.proto",
            "google/api/resource.proto"]


def _topo(files):
    byname = {f.name: f for f in files}
    std = std_files()
    out, seen = [], set()

    def visit(n):
        if n in seen:
            return
        seen.add(n)
        fp = byname.get(n) or std.get(n)
        if fp is None:
            raise Invalid(f"unknown dependency {n}")
        for d in fp.dependency:
            visit(d)
        out.append(fp)

    for f in files:
        visit(f.name)
    return out


def request(files, to_generate=None, parameter=""):
    """files: list of File/FileDescriptorProto. Returns a validated CodeGeneratorRequest."""
    protos = [f.proto if isinstance(f, File) else f for f in files]
    ordered = _topo(protos)
    pool = descriptor_pool.DescriptorPool()
    try:
        for fp in ordered:
            pool.AddSerializedFile(fp.SerializeToString())
        for fp in protos:
            pool.FindFileByName(fp.name)
    except Exception as e:  # noqa
        raise Invalid(f"{type(e).__name__}: {e}")
    req = plugin_pb2.CodeGeneratorRequest()
    req.proto_file.extend(ordered)
    req.file_to_generate.extend(to_generate if to_generate is not None else [p.name for p in protos])
    req.parameter = parameter
    return req


def req_b64(req) -> str:
    return base64.b64encode(req.SerializeToString()).decode()


def req_from_b64(s):
    r = plugin_pb2.CodeGeneratorRequest()
    r.ParseFromString(base64.b64decode(s))
    return r
