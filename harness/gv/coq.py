"""Coq side of the harness: project file, build under a lock, Print Assumptions, case evaluation."""
import fcntl, os, re, subprocess, time, concurrent.futures as cf
from . import env

HEADER = "From GV Require Import Base.Str.\n"
_FORBIDDEN = re.compile(
    r"\b(Admitted|admit|Axiom|Axioms|Parameter|Parameters|Conjecture|Conjectures|Abort All|"
    r"Unset Guard Checking|Unset Positivity Checking|Unset Universe Checking|bypass_check|"
    r"Admit Obligations|native_compute|type-in-type|impredicative-set)\b")


def v_files():
    out = []
    for root, _, files in os.walk(env.THEORIES):
        for f in files:
            if f.endswith(".v"):
                out.append(os.path.relpath(os.path.join(root, f), env.COQ))
    return sorted(out)


def strip_comments(txt):
    """Remove (nested) Coq comments and string literals' contents (Coq lexes strings inside comments too)."""
    out, i, depth, n = [], 0, 0, len(txt)
    while i < n:
        if txt.startswith("(*", i):
            depth += 1; i += 2
        elif depth and txt.startswith("*)", i):
            depth -= 1; i += 2
        elif txt[i] == '"':
            j = i + 1
            while j < n:
                if txt[j] == '"':
                    if j + 1 < n and txt[j + 1] == '"':
                        j += 2; continue
                    break
                j += 1
            if not depth:
                out.append('""')
            i = j + 1
        else:
            if not depth:
                out.append(txt[i])
            i += 1
    return "".join(out)


def hygiene():
    """Forbidden vernacular anywhere in the development (checked on every run)."""
    bad = []
    for rel in v_files():
        txt = open(os.path.join(env.COQ, rel), encoding="utf-8").read()
        txt = strip_comments(txt)
        for m in _FORBIDDEN.finditer(txt):
            bad.append(f"{rel}: {m.group(0)}")
        # Variable/Hypothesis outside a section
        depth = 0
        for line in txt.split("\n"):
            s = line.strip()
            if re.match(r"Section\b", s):
                depth += 1
            elif re.match(r"End\b", s) and depth > 0:
                depth -= 1
            elif depth == 0 and re.match(r"(Variable|Variables|Hypothesis|Hypotheses|Context)\b", s):
                bad.append(f"{rel}: {s[:40]} outside a section")
    return bad


class _Lock:
    def __enter__(self):
        self.f = open(env.LOCK, "w")
        fcntl.flock(self.f, fcntl.LOCK_EX)
        return self

    def __exit__(self, *a):
        fcntl.flock(self.f, fcntl.LOCK_UN)
        self.f.close()


def _write_if_changed(path, text):
    try:
        if open(path, encoding="utf-8").read() == text:
            return False
    except FileNotFoundError:
        pass
    os.makedirs(os.path.dirname(path), exist_ok=True)
    with open(path, "w", encoding="utf-8") as f:
        f.write(text)
    return True


def write_gen(name, text):
    """Write a regenerated Gen/<name>.v only when its content changed (keeps make incremental)."""
    with _Lock():
        return _write_if_changed(os.path.join(env.THEORIES, "Gen", name + ".v"), text)


def prepare_project():
    files = v_files()
    text = "-R theories GV\n-arg -w -arg -all\n" + "\n".join(files) + "\n"
    changed = _write_if_changed(os.path.join(env.COQ, "_CoqProject"), text)
    if changed or not os.path.exists(os.path.join(env.COQ, "Makefile")):
        subprocess.run(["coq_makefile", "-f", "_CoqProject", "-o", "Makefile"], cwd=env.COQ,
                       check=True, stdout=subprocess.DEVNULL, stderr=subprocess.DEVNULL)


def build(targets=None, timeout=420):
    """Full .vo build of the given targets (relative to coq/), never -vos. Returns (ok, log, cmd)."""
    with _Lock():
        prepare_project()
        cmd = ["timeout", str(timeout), "make", "-j", str(env.NCPU), "-k"]
        if targets:
            cmd += list(targets)
        p = subprocess.run(cmd, cwd=env.COQ, stdout=subprocess.PIPE, stderr=subprocess.STDOUT, text=True)
        return p.returncode == 0, p.stdout, " ".join(cmd)


def vo_ok(rel_v):
    """True when the .vo of a source exists and is newer than the source."""
    v = os.path.join(env.COQ, rel_v)
    vo = v[:-2] + ".vo"
    return os.path.exists(vo) and os.path.getmtime(vo) >= os.path.getmtime(v)


def print_assumptions(prop):
    """Compile Properties/<prop>.v on its own and return {theorem: 'closed' | [axioms]} plus log."""
    rel = f"theories/Properties/{prop}.v"
    src = open(os.path.join(env.COQ, rel), encoding="utf-8").read()
    names = re.findall(r"^Print Assumptions\s+([\w.']+)\s*\.", src, flags=re.M)
    theorems = re.findall(r"^(?:Theorem|Lemma|Corollary|Example)\s+([\w']+)", src, flags=re.M)
    with _Lock():
        p = subprocess.run(["timeout", "600", "coqc", "-R", "theories", "GV", "-w", "-all", rel],
                           cwd=env.COQ, stdout=subprocess.PIPE, stderr=subprocess.STDOUT, text=True)
    out = p.stdout
    res = {}
    if p.returncode == 0:
        blocks = re.split(r"^(?=Closed under the global context|Axioms:)", out, flags=re.M)
        blocks = [b for b in blocks if b.startswith("Closed under") or b.startswith("Axioms:")]
        for n, b in zip(names, blocks):
            if b.startswith("Closed under"):
                res[n] = "closed"
            else:
                res[n] = [ln.split(":")[0].strip() for ln in b.split("\n")[1:]
                          if ln and not ln.startswith(" ") and ":" in ln]
    return {"ok": p.returncode == 0, "theorems": theorems, "printed": names, "assumptions": res, "log": out,
            "cmd": f"cd {env.COQ} && coqc -R theories GV {rel}"}


# ---- emitting Coq terms ----
_PLAIN = set(range(32, 127)) - {ord('"')}


def s(x) -> str:
    """A Coq [string] term for arbitrary bytes/str (utf-8 encoded)."""
    b = x.encode("utf-8") if isinstance(x, str) else bytes(x)
    if all(c in _PLAIN for c in b):
        return '"' + b.decode("ascii") + '"'
    return "(sx [" + ";".join(str(c) for c in b) + "]%N)"


def lst(items) -> str:
    return "[" + "; ".join(items) + "]"


def slist(items) -> str:
    return lst(s(i) for i in items)


def opt(x, f=s) -> str:
    return "None" if x is None else f"(Some {f(x)})"


def b(x) -> str:
    return "true" if x else "false"


def nat(n) -> str:
    return f"{int(n)}%nat"


def z(n) -> str:
    return f"({int(n)})%Z"


def pairs(d, fk=s, fv=s) -> str:
    items = d.items() if isinstance(d, dict) else d
    return lst(f"({fk(k)}, {fv(v)})" for k, v in items)


def _run_one(args):
    path, timeout = args
    d = os.path.dirname(path)
    t0 = time.time()
    p = subprocess.run(["timeout", str(timeout), "coqc", "-R", env.THEORIES, "GV", "-w", "-all", path],
                       cwd=d, stdout=subprocess.PIPE, stderr=subprocess.STDOUT, text=True)
    return path, p.returncode, p.stdout, time.time() - t0


def eval_checks(tag, imports, defs, checks, chunk=300, timeout=600):
    """Evaluate boolean Coq expressions with vm_compute inside coqc.

    checks: list of (label, coq_bool_expr). Returns (failing_labels, errors, n_files).
    An error (coqc failure, unparsable output) is a broken correspondence, never a pass."""
    d = os.path.join(env.scratch(), f"cases_{tag}")
    os.makedirs(d, exist_ok=True)
    jobs = []
    for k in range(0, len(checks), chunk):
        part = checks[k:k + chunk]
        name = f"cases_{re.sub(r'[^A-Za-z0-9]', '_', tag)}_{k // chunk}"
        body = [HEADER, imports, "Open Scope string_scope.\n", defs, "\nDefinition checks : list bool := ["]
        body.append(";\n".join(f"  ({e})" for _, e in part))
        body.append("].\nEval vm_compute in (failing checks).\n")
        path = os.path.join(d, name + ".v")
        with open(path, "w", encoding="utf-8") as f:
            f.write("\n".join(body))
        jobs.append((path, part))
    failing, errors = [], []
    with cf.ThreadPoolExecutor(max_workers=env.NCPU) as ex:
        for (path, part), (_, rc, out, dt) in zip(jobs, ex.map(_run_one, [(p, timeout) for p, _ in jobs])):
            if rc != 0:
                errors.append(f"{os.path.basename(path)}: coqc exit {rc}: {out[-1500:]}")
                continue
            flat = " ".join(out.split())
            m = re.search(r"= \[(.*?)\] : list nat", flat)
            if not m:
                errors.append(f"{os.path.basename(path)}: unparsable output: {flat[-300:]}")
                continue
            idx = [int(t.replace("%nat", "")) for t in m.group(1).split(";") if t.strip()]
            for i in idx:
                failing.append(part[i][0])
    return failing, errors, len(jobs)


def eval_term(tag, imports, defs, term, timeout=300):
    """Evaluate one term; returns the flattened text after '=' (or raises)."""
    d = os.path.join(env.scratch(), f"eval_{tag}")
    os.makedirs(d, exist_ok=True)
    path = os.path.join(d, f"eval_{re.sub(r'[^A-Za-z0-9]', '_', tag)}.v")
    with open(path, "w", encoding="utf-8") as f:
        f.write("\n".join([HEADER, imports, "Open Scope string_scope.\n", defs,
                           f"\nEval vm_compute in ({term}).\n"]))
    _, rc, out, _ = _run_one((path, timeout))
    if rc != 0:
        raise RuntimeError(out[-2000:])
    return " ".join(out.split())
