"""./check Cxx [--tier quick|thorough] [--replay file] — one property, one verdict, one evidence file."""
import argparse, collections, importlib, json, os, sys, time, traceback
from . import env, coq

KERNEL_TB = [
    "Coq 8.16.1 kernel (Debian build), full .vo compilation (no -vos/-vok), guard/positivity/universe checks on",
    "vm_compute (finite theorems and every correspondence evaluation); native_compute not used",
    "no Axiom/Parameter/Conjecture/Admitted in the development (grepped on every run); no extraction, hence no Extract directives",
]


class Ctx:
    def __init__(self, prop, tier, replay=None):
        self.prop, self.tier, self.replay = prop, tier, replay
        self.seed = env.seed()
        self.obligations = []          # dicts: name kind ok detail
        self.violations = []           # dicts: what case signature
        self.evaluations = 0
        self.hashes = set()
        self.features = collections.Counter()
        self.samples = []
        self.trusted = list(KERNEL_TB)
        self.assumptions = []
        self.notes = {}
        self.rule = ""
        self.checker_cmds = []
        self.t0 = time.time()

    # -- obligations (theorems, pins, T1/T2 correspondences) --
    def oblige(self, name, ok, detail="", kind="T2"):
        self.obligations.append({"name": name, "kind": kind, "ok": bool(ok), "detail": str(detail)[:2000]})
        return bool(ok)

    def stage(self, name, fn, *a, **kw):
        """Run one stage of a property module; a stage that crashes (e.g. a model/implementation tie that cannot even be
        evaluated on a changed tree) is a broken obligation and the remaining stages still run, so that the oracles get the
        chance to produce a concrete failing input."""
        import traceback
        try:
            return fn(*a, **kw)
        except Exception:  # noqa
            self.oblige(f"stage '{name}' ran to completion", False, traceback.format_exc()[-1500:], "T2")
            return None

    # -- explored cases --
    def case(self, obj, nontrivial=True, feature=None):
        self.evaluations += 1
        if nontrivial:
            self.hashes.add(env.canon_hash(obj))
        if feature:
            for f in ([feature] if isinstance(feature, str) else feature):
                self.features[f] += 1
        if len(self.samples) < 6:
            self.samples.append(obj)

    def violation(self, what, case, signature=None):
        self.violations.append({"what": what, "case": case, "signature": signature})

    def quick(self):
        return self.tier == "quick"

    def n(self, quick, thorough):
        return quick if self.tier == "quick" else thorough


def load_findings():
    p = os.path.join(env.VERIF, "findings", "known_findings.json")
    try:
        return json.load(open(p))
    except FileNotFoundError:
        return []
    # (single committed file; never written at run time)


def write_replay(prop, obj):
    d = os.path.join(env.VERIF, "replays")
    os.makedirs(d, exist_ok=True)
    path = os.path.join(d, f"{prop}-{env.canon_hash(obj)}.json")
    with open(path, "w") as f:
        json.dump(obj, f, indent=1, sort_keys=True, default=str)
    return path


def coq_stage(ctx, mod):
    """T0 regeneration, build, Print Assumptions. Every theorem of Properties/<prop>.v is an obligation."""
    bad = coq.hygiene()
    ctx.oblige("hygiene: no Admitted/Axiom/Parameter/unchecked flags in coq/theories", not bad, "; ".join(bad), "build")
    if hasattr(mod, "regen"):
        try:
            mod.regen(ctx)
        except Exception as e:  # fail-closed extractor
            ctx.oblige("T0 regeneration of Gen/*.v from /repo", False, f"{type(e).__name__}: {e}", "T0")
    # Gen files of other properties that this one may Require (kept fresh; their own checks judge them)
    import pkgutil
    import gv.props as _P
    for m in pkgutil.iter_modules(_P.__path__):
        if m.name == ctx.prop.lower() or not m.name.startswith("c") or not m.name[1:].isdigit():
            continue
        try:
            other = importlib.import_module(f"gv.props.{m.name}")
            if hasattr(other, "regen"):
                other.regen(Ctx(m.name.upper(), ctx.tier))
        except Exception:  # noqa
            pass
    ok, log, cmd = coq.build([f"theories/Properties/{ctx.prop}.vo"])
    ctx.checker_cmds.append(f"cd {env.COQ} && {cmd}")
    ctx.notes["build_ok"] = ok
    if not ok:
        errs = [l for l in log.split("\n") if "Error" in l or l.startswith("File ")]
        ctx.notes["build_errors"] = errs[-12:]
        # which model files still compiled decides whether T2 can run
    pa = coq.print_assumptions(ctx.prop) if ok else {"ok": False, "theorems": [], "printed": [], "assumptions": {}, "log": log, "cmd": ""}
    ctx.checker_cmds.append(pa.get("cmd", ""))
    if not ok:
        # name theorems from the source so the report says what is no longer proved
        import re
        src = open(os.path.join(env.COQ, f"theories/Properties/{ctx.prop}.v")).read()
        for t in re.findall(r"^(?:Theorem|Lemma|Corollary|Example)\s+([\w']+)", src, flags=re.M):
            ctx.oblige(f"theorem {t}", False, "build failed: " + " | ".join(ctx.notes.get("build_errors", [])[-4:]), "theorem")
        return
    allowed = set(getattr(mod, "ALLOWED_AXIOMS", []))
    for t in pa["theorems"]:
        a = pa["assumptions"].get(t)
        if a is None:
            ctx.oblige(f"theorem {t}", False, "no Print Assumptions output", "theorem")
        elif a == "closed":
            ctx.oblige(f"theorem {t}", True, "Closed under the global context", "theorem")
        else:
            extra = [x for x in a if x not in allowed]
            ctx.oblige(f"theorem {t}", not extra, "axioms: " + ", ".join(a), "theorem")
            for x in a:
                if x not in ctx.assumptions:
                    ctx.assumptions.append(f"axiom {x} (Print Assumptions {t})")
    if ctx.tier == "thorough" and os.environ.get("GV_COQCHK", "1") == "1":
        import subprocess
        p = subprocess.run(["timeout", "900", "coqchk", "-silent", "-o", "-R", "theories", "GV", f"GV.Properties.{ctx.prop}"],
                           cwd=env.COQ, stdout=subprocess.PIPE, stderr=subprocess.STDOUT, text=True)
        ctx.checker_cmds.append(f"cd {env.COQ} && coqchk -silent -o -R theories GV GV.Properties.{ctx.prop}")
        ctx.oblige("coqchk re-check of the property file and its dependencies", p.returncode == 0, p.stdout[-800:], "build")
        ctx.notes["coqchk"] = p.stdout[-1500:]


def main(argv=None):
    ap = argparse.ArgumentParser()
    ap.add_argument("prop")
    ap.add_argument("--tier", default=os.environ.get("VERIF_TIER", "quick"), choices=["quick", "thorough"])
    ap.add_argument("--replay")
    a = ap.parse_args(argv)
    prop = a.prop.upper()
    mod = importlib.import_module(f"gv.props.{prop.lower()}")
    ctx = Ctx(prop, a.tier, a.replay)
    ctx.rule = getattr(mod, "RULE", "")
    ctx.trusted += getattr(mod, "TRUSTED", [])
    ctx.assumptions += getattr(mod, "ASSUMES", [])
    exit_code = 0
    lines = []
    try:
        coq_stage(ctx, mod)
        if a.replay:
            mod.replay(ctx, json.load(open(a.replay)))
        else:
            mod.run(ctx)
    except Exception:
        ctx.oblige("harness completed", False, traceback.format_exc()[-3000:], "build")

    findings = [f for f in load_findings() if f.get("property") == prop and f.get("status") == "known"]
    known_hit, unlisted = {}, []
    for v in ctx.violations:
        hit = next((f for f in findings if f.get("signature") and f["signature"] == v.get("signature")), None)
        if hit:
            known_hit.setdefault(hit["id"], (hit, v))
        else:
            unlisted.append(v)
    for fid, (f, v) in known_hit.items():
        lines.append(f"KNOWN-FINDING: property={prop} {f['what']}")
    broken = [o for o in ctx.obligations if not o["ok"]]
    if not unlisted and broken and hasattr(mod, "search") and not a.replay:
        try:
            mod.search(ctx, broken)
        except Exception:
            ctx.notes["search_error"] = traceback.format_exc()[-1500:]
        for v in ctx.violations:
            if v not in unlisted and not any(v is kv for _, kv in known_hit.values()):
                hit = next((f for f in findings if f.get("signature") and f["signature"] == v.get("signature")), None)
                if not hit:
                    unlisted.append(v)
    seen = set()
    for v in unlisted:
        key = v.get("signature") or env.canon_hash(v["case"])
        if key in seen:
            continue
        seen.add(key)
        path = write_replay(prop, {"property": prop, "kind": "failing-input", "what": v["what"],
                                   "signature": v.get("signature"), "case": v["case"],
                                   "broken_obligations": [o["name"] for o in broken]})
        lines.append(f"VIOLATION property={prop} replay={path}")
        exit_code = 1
        if len(seen) >= 5:
            break
    if broken and not unlisted:
        path = write_replay(prop, {"property": prop, "kind": "broken-obligation",
                                   "broken_obligations": broken, "notes": ctx.notes,
                                   "explanation": "a theorem, pin or model/implementation correspondence no longer checks and the search "
                                                  "found no input on which the property's own oracle fails"})
        lines.append(f"VIOLATION property={prop} replay={path} no-failing-input-found")
        exit_code = 1

    ev = {
        "property_id": prop, "tier": ctx.tier, "seed": ctx.seed, "level": "proof",
        "coverage": {
            "obligations": len(ctx.obligations),
            "discharged": sum(1 for o in ctx.obligations if o["ok"]),
            "checker_cmd": " ; ".join(c for c in ctx.checker_cmds if c),
            "trusted_base": ctx.trusted,
            "evaluations": ctx.evaluations,
            "distinct_nontrivial": len(ctx.hashes),
            "rule": ctx.rule,
            "samples": ctx.samples[:6] or [o["name"] for o in ctx.obligations[:6]],
            "obligation_list": [{k: o[k] for k in ("name", "kind", "ok")} | ({"detail": o["detail"]} if not o["ok"] or o["kind"] == "theorem" else {}) for o in ctx.obligations],
            "feature_histogram": dict(ctx.features.most_common(60)),
            "known_findings_reported": sorted(known_hit),
            "notes": ctx.notes,
            "exhaustive": bool(getattr(mod, "EXHAUSTIVE", False)) and ctx.tier == "thorough",
        },
        "assumptions": ctx.assumptions,
        "wall_s": round(time.time() - ctx.t0, 2),
        "violations": len(seen) + (1 if (broken and not unlisted) else 0),
    }
    os.makedirs(os.path.join(env.VERIF, "evidence"), exist_ok=True)
    with open(os.path.join(env.VERIF, "evidence", f"{prop}.json"), "w") as f:
        json.dump(ev, f, indent=1, default=str)
    for l in lines:
        print(l)
    print(f"[{prop}] tier={ctx.tier} obligations={ev['coverage']['discharged']}/{ev['coverage']['obligations']} "
          f"evaluations={ctx.evaluations} distinct={len(ctx.hashes)} wall={ev['wall_s']}s exit={exit_code}")
    if broken:
        for o in broken[:10]:
            print(f"  broken: {o['name']}: {o['detail'][:300]}")
    sys.exit(exit_code)


if __name__ == "__main__":
    main()
