"""Implementation side of C20's pure part: direct calls of /repo's fix_whitespace, wrap, rst
(and of CPython's textwrap with the keyword arguments lines.py uses) on the given inputs.
stdin: {"fixws": [text...], "wrap": [[text,width,offset|null,indent]...], "rst": [[text,width,indent,nl|null]...],
        "tw": [[text,width,initial_indent,subsequent_indent]...], "doc": [{"leading":..,"trailing":..,"detached":[..]}...]}
stdout (last line): the same keys with results; an exception is {"err": ClassName}."""
import json, signal, sys, textwrap
from gapic.generator.formatter import fix_whitespace
from gapic.utils.lines import wrap
from gapic.utils.rst import rst
from gapic.schema import metadata
from google.protobuf import descriptor_pb2


class CallTimeout(Exception):
    pass


def _alarm(signum, frame):
    raise CallTimeout()


signal.signal(signal.SIGALRM, _alarm)
_timeouts = [0]


def guard(f, *a, **k):
    """One call of the implementation; an exception or a call that does not return within 5 s is an observation."""
    signal.setitimer(signal.ITIMER_REAL, 5.0 if _timeouts[0] < 3 else 0.3)   # after three hangs stop waiting long
    try:
        return {"ok": f(*a, **k)}
    except CallTimeout:
        _timeouts[0] += 1
        return {"err": "Timeout"}
    except Exception as e:  # noqa
        return {"err": type(e).__name__}
    finally:
        signal.setitimer(signal.ITIMER_REAL, 0)


def fw(text):
    r = guard(fix_whitespace, text)
    if "ok" in r:
        r["again"] = guard(fix_whitespace, r["ok"])
    return r


_pandoc_calls = []


def _fake_convert_text(source, to, format=None, extra_args=(), **kw):
    """Stand-in for pypandoc.convert_text inside this driver process (pandoc is not modelled): records the call."""
    _pandoc_calls.append(1)
    return source


def rst_rec(t, w, i, n):
    import pypandoc
    pypandoc.convert_text = _fake_convert_text
    del _pandoc_calls[:]
    r = guard(rst, t, width=w, indent=i, nl=n)
    r["pandoc"] = bool(_pandoc_calls)
    return r


def doc(d):
    loc = descriptor_pb2.SourceCodeInfo.Location(leading_comments=d.get("leading", ""), trailing_comments=d.get("trailing", ""),
                                                 leading_detached_comments=d.get("detached", []))
    return metadata.Metadata(documentation=loc).doc


def main():
    p = json.load(sys.stdin)
    out = {
        "fixws": [fw(t) for t in p.get("fixws", [])],
        "wrap": [guard(wrap, t, w, offset=o, indent=i) for t, w, o, i in p.get("wrap", [])],
        "rst": [rst_rec(t, w, i, n) for t, w, i, n in p.get("rst", [])],
        "tw": [guard(textwrap.wrap, t, width=w, initial_indent=ii, subsequent_indent=si, break_long_words=False, break_on_hyphens=False)
               for t, w, ii, si in p.get("tw", [])],
        "doc": [guard(doc, d) for d in p.get("doc", [])],
    }
    print(json.dumps(out))


main()
