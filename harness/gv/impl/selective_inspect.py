"""Oracle side of C16: import an emitted library in this (child) process and report what it exposes.
Nothing here imports gapic.

stdin JSON: {"root": dir, "package": "google.example.library_v1"}
stdout (last line) JSON: {"ok": bool, "error": str?, "types": ["Top", "Top.Nested", ...] (proto.Message / proto.Enum classes
  reachable by attribute from <package>.types), "types_all": [...], "services": {module: {"classes": [...],
  "attrs": {class: [callable attribute names]}}}, "top_all": [...]}"""
import importlib, inspect, json, os, pkgutil, sys, traceback


def full_name(val, path):
    fn = getattr(getattr(val, "_meta", None), "full_name", None)
    if fn:
        return fn
    pb = getattr(sys.modules.get(val.__module__), "__protobuf__", None)
    pkg = getattr(pb, "package", None)
    return f"{pkg}.{path}" if pkg else None


def walk_types(obj, prefix, seen, out):
    import proto
    for name, val in vars(obj).items():
        if not inspect.isclass(val) or name.startswith("__"):
            continue
        if not (issubclass(val, proto.Message) or issubclass(val, proto.Enum)):
            continue
        if id(val) in seen:
            continue
        seen.add(id(val))
        out.append({"path": prefix + name, "kind": "enum" if issubclass(val, proto.Enum) else "message",
                    "proto": full_name(val, prefix + name)})
        walk_types(val, prefix + name + ".", seen, out)


def main():
    payload = json.load(sys.stdin)
    sys.path.insert(0, payload["root"])
    res = {"ok": True}
    try:
        import proto
        pkg = importlib.import_module(payload["package"])
        res["top_all"] = sorted(getattr(pkg, "__all__", []))
        base = os.path.dirname(pkg.__file__)
        # the root package and every proto sub-package below it (a directory holding types/ or services/)
        subs = []
        for dirpath, dirnames, _ in os.walk(base):
            dirnames[:] = [d for d in dirnames if not d.startswith("__")]
            if os.path.basename(dirpath) in ("types", "services", "transports") or "/services/" in dirpath + "/":
                continue
            if os.path.isdir(os.path.join(dirpath, "types")) or os.path.isdir(os.path.join(dirpath, "services")):
                rel = os.path.relpath(dirpath, base)
                subs.append("" if rel == "." else "." + rel.replace(os.sep, "."))
        res["subpackages"] = sorted(subs)
        found, seen, types_all, services = [], set(), [], {}
        for sub in sorted(subs):
            p = payload["package"] + sub
            importlib.import_module(p)
            if os.path.isdir(os.path.join(base, *sub.strip(".").split("."), "types") if sub else os.path.join(base, "types")):
                types = importlib.import_module(p + ".types")
                names = sorted(getattr(types, "__all__", []))
                types_all += [sub.strip(".") + ("." if sub else "") + n for n in names]
                for name in names:
                    val = getattr(types, name)
                    if inspect.isclass(val) and (issubclass(val, proto.Message) or issubclass(val, proto.Enum)) and id(val) not in seen:
                        seen.add(id(val))
                        found.append({"path": name, "sub": sub.strip("."), "kind": "enum" if issubclass(val, proto.Enum) else "message",
                                      "proto": full_name(val, name)})
                        walk_types(val, name + ".", seen, found)
            sdir = os.path.join(base, *sub.strip(".").split("."), "services") if sub else os.path.join(base, "services")
            if os.path.isdir(sdir):
                for m in sorted(os.listdir(sdir)):
                    if not os.path.isdir(os.path.join(sdir, m)) or m.startswith("__"):
                        continue
                    mod = importlib.import_module(f"{p}.services.{m}")
                    importlib.import_module(f"{p}.services.{m}.transports")
                    classes = sorted(getattr(mod, "__all__", []))
                    attrs = {}
                    for c in classes:
                        cls = getattr(mod, c)
                        attrs[c] = sorted(n for n in dir(cls) if not n.startswith("__") and callable(getattr(cls, n, None)))
                    if m in services:
                        raise RuntimeError(f"two service modules named {m}")
                    services[m] = {"classes": classes, "attrs": attrs, "sub": sub.strip(".")}
        res["types"], res["types_all"], res["services"] = found, types_all, services
    except Exception as e:  # noqa
        res = {"ok": False, "error": f"{type(e).__name__}: {e}", "traceback": traceback.format_exc()[-1500:]}
    print()
    print(json.dumps(res))


main()
