"""Implementation side of C20's end-to-end part: run /repo's generator (the real CLI entry point) on a
CodeGeneratorRequest in this process, with recorders wrapped around the three functions of the property
(gapic.generator.formatter.fix_whitespace, gapic.utils.wrap, gapic.utils.rst) so that every call the
templates make is observed with its arguments and its result.  Nothing in /repo is modified; the wrappers
call the original functions and pass their results through unchanged.
stdin: {"request_b64": ...}; stdout (last line): {"files": {name: content} | null, "error": str|null,
        "fixws": [[in, out]...], "wrap": [[text,width,offset,indent,out]...], "rst": [[text,width,indent,nl,source_format,out]...]}"""
import base64, io, json, sys, traceback


def main():
    p = json.load(sys.stdin)
    import gapic.utils as U
    import importlib
    L = importlib.import_module("gapic.utils.lines")
    RST = importlib.import_module("gapic.utils.rst")   # (the package attribute of that name is the function)
    import gapic.generator.formatter as F
    rec = {"fixws": [], "wrap": [], "rst": []}
    o_fw, o_wrap, o_rst = F.fix_whitespace, L.wrap, RST.rst

    def fw(code):
        out = o_fw(code)
        rec["fixws"].append([code, out])
        return out

    def wrap(text, width, *, offset=None, indent=0):
        out = o_wrap(text, width, offset=offset, indent=indent)
        rec["wrap"].append([text, width, offset, indent, out])
        return out

    def rst(text, width=72, indent=0, nl=None, source_format="commonmark"):
        out = o_rst(text, width=width, indent=indent, nl=nl, source_format=source_format)
        rec["rst"].append([text, width, indent, nl, source_format, out])
        return out

    F.fix_whitespace = fw
    U.wrap = wrap
    U.rst = rst
    from gapic.cli import generate as G
    from google.protobuf.compiler import plugin_pb2
    files, err = None, None
    try:
        inp, outp = io.BytesIO(base64.b64decode(p["request_b64"])), io.BytesIO()
        G.generate.callback(inp, outp)
        res = plugin_pb2.CodeGeneratorResponse.FromString(outp.getvalue())
        files = {f.name: f.content for f in res.file}
    except BaseException:  # noqa
        err = traceback.format_exc()[-3000:]
    sys.stdout.write("\n" + json.dumps({"files": files, "error": err, **rec}) + "\n")


main()
