"""Generic call driver: runs a list of calls against an emitted library bound to loopback servers.

stdin JSON: {"root": dir, "package": "google.example.library_v1", "calls": [spec...]}
spec: {"service_module": "glossary_admin", "client": "GlossaryAdminClient", "transport": "grpc"|"grpc_asyncio"|"rest",
       "method": "get_topic",
       "request": {"mode": "message"|"dict"|"none"|"kwargs"|"mixed"|"stream", "cls": "pkg.mod:Name", "b64": "...",
                   "kwargs": ["name", "book.title"], "stream": [b64...]},
       "call_kwargs": {"timeout": 3.0, "retry": "none"|{"initial":..}, "metadata": [[k, v]]},
       "grpc_script": {path: [reply...]}, "http_script": [reply...],
       "consume": "value"|"stream"|"pager"|"pages"|"lro",
       "repeat": 1}
stdout (last line) JSON: [{"ok":..., "result":..., "error":..., "grpc_calls": [...], "http_calls": [...], "sleeps": [...]}]"""
import asyncio, inspect, json, sys, traceback
from gv.impl import drivelib as D


def get_attr_path(msg, path):
    o = msg
    for p in path.split("."):
        o = getattr(o, p)
    return o


def build_args(spec, is_async):
    r = spec.get("request") or {"mode": "none"}
    mode = r["mode"]
    args, kwargs = [], {}
    if mode == "none":
        pass
    elif mode in ("message", "dict", "kwargs", "mixed"):
        cls = D.resolve(r["cls"])
        msg = D.build_message(cls, r["b64"])
        if mode == "message":
            kwargs["request"] = msg
        elif mode == "dict":
            kwargs["request"] = cls.to_dict(msg) if hasattr(cls, "to_dict") else msg
            if r.get("dict_override") is not None:
                kwargs["request"] = r["dict_override"]
        if mode in ("kwargs", "mixed"):
            for k in r["kwargs"]:
                # parameter name = last component (the generator's own naming is observed by the parent via inspect)
                kwargs[r.get("param_names", {}).get(k, k.split(".")[-1])] = get_attr_path(msg, r.get("attr_paths", {}).get(k, k))
            if mode == "mixed":
                kwargs["request"] = msg
    elif mode == "stream":
        cls = D.resolve(r["cls"])
        msgs = [D.build_message(cls, b) for b in r["stream"]]
        if is_async:
            async def agen():
                for m in msgs:
                    yield m
            kwargs["requests"] = agen()
        else:
            kwargs["requests"] = iter(msgs)
    ck = spec.get("call_kwargs") or {}
    if "timeout" in ck:
        kwargs["timeout"] = ck["timeout"]
    if "metadata" in ck:
        kwargs["metadata"] = [tuple(x) for x in ck["metadata"]]
    if "retry" in ck:
        if ck["retry"] == "none":
            kwargs["retry"] = None
        else:
            from google.api_core import retry as retries, retry_async, exceptions as core_exceptions
            rc = ck["retry"]
            pred = retries.if_exception_type(*[getattr(core_exceptions, n) for n in rc.get("codes", ["ServiceUnavailable"])])
            cls = retry_async.AsyncRetry if is_async else retries.Retry
            kwargs["retry"] = cls(initial=rc.get("initial", 0.1), maximum=rc.get("maximum", 1.0), multiplier=rc.get("multiplier", 2.0),
                                  predicate=pred, timeout=rc.get("deadline", 10.0))
    return args, kwargs


def run_sync(spec, gs, hs, pkg):
    client = D.make_client(pkg, spec["service_module"], spec["client"], spec["transport"], gs.target, hs.host,
                           spec.get("client_kwargs"))
    out = []
    for _ in range(spec.get("repeat", 1)):
        args, kwargs = build_args(spec, False)
        res = getattr(client, spec["method"])(*args, **kwargs)
        c = spec.get("consume", "value")
        if c == "value":
            out.append(D.encode_value(res))
        elif c == "stream":
            out.append({"kind": "stream", "items": [D.encode_value(x) for x in res]})
        elif c == "pager":
            items = [D.encode_value(x) for x in res]
            out.append({"kind": "pager", "type": type(res).__name__, "items": items,
                        "last_next_page_token": getattr(res, "next_page_token", None)})
        elif c == "pages":
            pages = [D.encode_value(p) for p in res.pages]
            out.append({"kind": "pages", "type": type(res).__name__, "pages": pages})
        elif c == "lro":
            d = {"kind": "lro", "type": type(res).__module__ + "." + type(res).__name__}
            try:
                d["result"] = D.encode_value(res.result(timeout=spec.get("lro_timeout", 30)))
            except Exception as e:  # noqa
                d["result_error"] = D.exc_info(e)
            try:
                d["metadata"] = D.encode_value(res.metadata)
            except Exception as e:  # noqa
                d["metadata_error"] = D.exc_info(e)
            out.append(d)
    return out


async def run_async(spec, gs, hs, pkg):
    client = D.make_client(pkg, spec["service_module"], spec["client"], spec["transport"], gs.target, hs.host,
                           spec.get("client_kwargs"))
    out = []
    for _ in range(spec.get("repeat", 1)):
        args, kwargs = build_args(spec, True)
        res = getattr(client, spec["method"])(*args, **kwargs)
        if inspect.isawaitable(res):
            res = await res
        c = spec.get("consume", "value")
        if c == "value":
            out.append(D.encode_value(res))
        elif c == "stream":
            if inspect.isawaitable(res):
                res = await res
            out.append({"kind": "stream", "items": [D.encode_value(x) async for x in res]})
        elif c == "pager":
            items = [D.encode_value(x) async for x in res]
            out.append({"kind": "pager", "type": type(res).__name__, "items": items,
                        "last_next_page_token": getattr(res, "next_page_token", None)})
        elif c == "pages":
            pages = [D.encode_value(p) async for p in res.pages]
            out.append({"kind": "pages", "type": type(res).__name__, "pages": pages})
        elif c == "lro":
            d = {"kind": "lro", "type": type(res).__module__ + "." + type(res).__name__}
            try:
                d["result"] = D.encode_value(await res.result(timeout=spec.get("lro_timeout", 30)))
            except Exception as e:  # noqa
                d["result_error"] = D.exc_info(e)
            try:
                md = res.metadata
                if inspect.isawaitable(md):
                    md = await md
                d["metadata"] = D.encode_value(md)
            except Exception as e:  # noqa
                d["metadata_error"] = D.exc_info(e)
            out.append(d)
    return out


def main():
    payload = json.load(sys.stdin)
    sys.path.insert(0, payload["root"])
    for p in payload.get("extra_paths", []):
        sys.path.insert(0, p)
    gs, hs = D.GrpcLoopback(), D.HttpLoopback()
    results = []
    for spec in payload["calls"]:
        gs.set_script(spec.get("grpc_script"))
        hs.set_script(spec.get("http_script"))
        if spec.get("http_default"):
            hs.default_reply = spec["http_default"]
        rec = {"ok": True}
        with D.SleepRecorder(spec.get("jitter", "max")) as sr:
            try:
                if spec["transport"] == "grpc_asyncio" or spec["client"].endswith("AsyncClient"):
                    rec["result"] = asyncio.run(run_async(spec, gs, hs, payload["package"]))
                else:
                    rec["result"] = run_sync(spec, gs, hs, payload["package"])
            except Exception as e:  # noqa
                rec["ok"] = False
                rec["error"] = D.exc_info(e)
                rec["traceback"] = traceback.format_exc()[-1500:]
        rec["sleeps"] = sr.sleeps
        rec["grpc_calls"] = gs.take_calls()
        rec["http_calls"] = hs.take_calls()
        results.append(rec)
    gs.stop()
    hs.stop()
    print()
    print(json.dumps(results))


main()
