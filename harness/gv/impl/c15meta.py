"""Implementation side of C15's T2: build gapic's API schema exactly as gapic/cli/generate.py does (no rendering) and
dump what API.gapic_metadata, Service.client_name/async_client_name, Method.client_method_name,
Method.legacy_flattened_fields and utils.to_snake_case compute.  Also the direct calls for the name functions."""
import base64, json, os, sys
from google.protobuf.compiler import plugin_pb2
from google.protobuf.json_format import MessageToDict


def dump_api(req_b64):
    from gapic.schema import api
    from gapic.utils import Options, to_snake_case
    req = plugin_pb2.CodeGeneratorRequest.FromString(base64.b64decode(req_b64))
    opts = Options.build(req.parameter)
    package = ".".join(os.path.commonprefix([p.package.split(".") for p in req.proto_file if p.name in req.file_to_generate]))
    a = api.API.build(req.proto_file, opts=opts, package=package)
    out = {"transport": list(opts.transport), "add_iam": bool(opts.add_iam_methods),
           "naming": {"namespace": list(a.naming.namespace), "name": a.naming.name, "version": a.naming.version,
                      "proto_package": a.naming.proto_package},
           "metadata": MessageToDict(a.gapic_metadata(opts)), "metadata_json": a.gapic_metadata_json(opts), "services": []}
    for s in a.services.values():
        rec = {"name": s.name, "client_name": s.client_name, "async_client_name": s.async_client_name,
               "is_internal": bool(s.is_internal), "methods": []}
        for m in s.methods.values():
            rec["methods"].append({
                "name": m.name, "client_method_name": m.client_method_name, "py_method": to_snake_case(m.client_method_name),
                "key": to_snake_case(m.name),
                "is_internal": bool(m.is_internal), "pp": bool(m.input.meta.address.is_proto_plus_type),
                "fields": [[f.field_pb.name, bool(f.required)] for f in m.input.fields.values()],
                "legacy": [f.name for f in m.legacy_flattened_fields.values()],
                "legacy_keys": list(m.legacy_flattened_fields.keys()),
            })
        out["services"].append(rec)
    return out


def main():
    payload = json.load(sys.stdin)
    res = {"apis": [], "snake": [], "valid_module": [], "valid_filename": []}
    for b in payload.get("requests", []):
        try:
            res["apis"].append(dump_api(b))
        except Exception as e:  # noqa
            import traceback
            res["apis"].append({"error": type(e).__name__, "detail": traceback.format_exc()[-1500:]})
    from gapic.utils import to_snake_case, to_valid_module_name, to_valid_filename
    for s in payload.get("strings", []):
        res["snake"].append(to_snake_case(s))
        res["valid_module"].append(to_valid_module_name(s))
        res["valid_filename"].append(to_valid_filename(s))
    print(json.dumps(res))


main()
