"""Implementation side of C09 at function level: gapic.schema.api._ProtoBuilder._to_float and
_ProtoBuilder._get_retry_and_timeout called directly (the latter with a stand-in `self` that carries only what the
function reads: self.opts.retry and self._to_float).

stdin: {"durations": [str...], "lookups": [{"config": {...}, "package": "a.b.v1", "service": "Svc", "method": "Rpc"}...]}
stdout (last line): {"durations": [repr | {"error": cls}], "lookups": [{"retry": None | {initial, max, multiplier, classes}, "timeout": repr|None} | {"error": cls, "arg": str}]}"""
import json, sys, types
from google.protobuf import descriptor_pb2
from gapic.schema import api as gapi, metadata


def to_float(s):
    return gapi._ProtoBuilder._to_float(None, s)


def lookup(c):
    stub = types.SimpleNamespace(opts=types.SimpleNamespace(retry=c["config"]), _to_float=to_float)
    addr = metadata.Address(name=c["service"], module="m", package=tuple(c["package"].split(".")))
    mpb = descriptor_pb2.MethodDescriptorProto(name=c["method"])
    retry, timeout = gapi._ProtoBuilder._get_retry_and_timeout(stub, addr, mpb)
    out = {"timeout": None if timeout is None else repr(float(timeout)), "retry": None}
    if retry is not None:
        out["retry"] = {"initial": repr(retry.initial_backoff), "max": repr(retry.max_backoff),
                        "multiplier": repr(retry.backoff_multiplier), "max_attempts": retry.max_attempts,
                        "classes": sorted(c.__name__ for c in retry.retryable_exceptions)}
    return out


def main():
    p = json.load(sys.stdin)
    res = {"durations": [], "lookups": []}
    for s in p.get("durations", []):
        try:
            res["durations"].append(repr(to_float(s)))
        except Exception as e:  # noqa
            res["durations"].append({"error": type(e).__name__})
    for c in p.get("lookups", []):
        try:
            res["lookups"].append(lookup(c))
        except Exception as e:  # noqa
            res["lookups"].append({"error": type(e).__name__, "arg": str(e.args[0]) if e.args else ""})
    print()
    print(json.dumps(res))


main()
