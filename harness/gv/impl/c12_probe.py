"""C12 probe: import an emitted library and report what names exist (child process, emitted tree on sys.path)."""
import importlib, inspect, json, pkgutil, sys, traceback


def ftype(v):
    for a in ("enum", "message"):
        try:
            t = getattr(v, a, None)
        except Exception as e:  # noqa
            return ["?", f"{type(e).__name__}: {e}"]
        if t is not None:
            if isinstance(t, str):
                return ["", t.split(".")[-1]]
            return [t.__module__, t.__qualname__]
    return None


def main():
    q = json.load(sys.stdin)
    sys.path.insert(0, q["root"])
    out = {"import_ok": True, "modules": [], "errors": []}
    try:
        pkg = importlib.import_module(q["package"])
        def onerr(name):
            e = sys.exc_info()[1]
            out["import_ok"] = False
            out["errors"].append(f"{name}: {type(e).__name__}: {e}")
        for m in pkgutil.walk_packages(pkg.__path__, pkg.__name__ + ".", onerror=onerr):
            try:
                importlib.import_module(m.name)
                out["modules"].append(m.name)
            except Exception as e:  # noqa
                out["import_ok"] = False
                out["errors"].append(f"{m.name}: {type(e).__name__}: {e}")
    except Exception as e:  # noqa
        out["import_ok"] = False
        out["errors"].append(f"{q['package']}: {type(e).__name__}: {e}\n{traceback.format_exc()[-600:]}")
        print(json.dumps(out))
        return
    out["messages"] = {}
    for name in q.get("messages", []):
        cls = pkg
        for part in name.split("."):
            cls = getattr(cls, part, None) if cls is not None else None
        if cls is None:
            out["messages"][name] = None
            continue
        fields = getattr(getattr(cls, "_meta", None), "fields", {})
        out["messages"][name] = {"attrs": sorted(fields.keys()),
                                 "json": {k: v.descriptor.json_name if hasattr(v, "descriptor") else None for k, v in fields.items()},
                                 "ftypes": {k: ftype(v) for k, v in fields.items()},
                                 "module": cls.__module__}
    out["clients"] = {}
    for cname in q.get("clients", []):
        c = getattr(pkg, cname, None)
        if c is None:
            out["clients"][cname] = None
            continue
        meths = {}
        for mname, fn in inspect.getmembers(c, predicate=inspect.isfunction):
            if mname.startswith("_") and not (mname.startswith("__") and mname.rstrip("_").endswith("peg_parser")):
                continue
            try:
                meths[mname] = list(inspect.signature(fn).parameters)
            except Exception:  # noqa
                meths[mname] = None
        out["clients"][cname] = meths
    print(json.dumps(out))


main()
