"""Implementation side of C11's T2: direct calls of Options.build, Naming.build, Generator._get_filename,
API.build (names only), to_snake_case / to_valid_module_name on generated inputs.  Errors are mapped to the model's enum."""
import json, sys, types, warnings, os
from google.protobuf import descriptor_pb2


def do_options(s):
    from gapic.utils import Options
    with warnings.catch_warnings(record=True) as w:
        warnings.simplefilter("always")
        try:
            o = Options.build(s)
        except ValueError as e:
            if "unpack" in str(e):
                return {"error": "BadOption"}
            return {"error": "ValueError:" + str(e)[:80]}
        except Exception as e:  # noqa
            return {"error": type(e).__name__ + ":" + str(e)[:80]}
    default = os.path.realpath(os.path.join(os.path.dirname(sys.modules["gapic.utils.options"].__file__), "..", "templates"))
    return {"name": o.name, "namespace": list(o.namespace), "warehouse": o.warehouse_package_name,
            "retry": None if o.retry is None else o.retry.get("marker"),
            "service_yaml": o.service_yaml_config.get("marker") if o.service_yaml_config else None,
            "autogen": bool(o.autogen_snippets), "templates": ["DEFAULT" if t == default else t for t in o.templates],
            "lazy": bool(o.lazy_import), "old_naming": bool(o.old_naming), "add_iam": bool(o.add_iam_methods),
            "metadata": bool(o.metadata), "transport": list(o.transport), "numeric": bool(o.rest_numeric_enums),
            "pp_deps": list(o.proto_plus_deps),
            "warn": [str(x.message) for x in w if "Unrecognized option" in str(x.message)]}


def do_naming(c):
    from gapic.schema.naming import Naming
    from gapic.utils import Options
    fds = [descriptor_pb2.FileDescriptorProto(name=f"f{i}.proto", package=p) for i, p in enumerate(c["packages"])]
    try:
        n = Naming.build(*fds, opts=Options.build(c["opt"]))
    except ValueError as e:
        m = str(e)
        return {"error": "NoCommonRoot" if m.startswith("The protos provided do not share") else
                "UnversionedMulti" if m.startswith("All protos must have") else "ValueError:" + m[:60]}
    except AttributeError:
        return {"error": "NoRegexMatch"}
    except Exception as e:  # noqa
        return {"error": type(e).__name__}
    return {"name": n.name, "namespace": list(n.namespace), "version": n.version, "proto_package": n.proto_package,
            "module_name": n.module_name, "versioned": n.versioned_module_name, "module_namespace": list(n.module_namespace)}


_gen = None


def do_filename(c):
    global _gen
    from gapic.generator.generator import Generator
    from gapic.schema import naming
    from gapic.utils import Options
    if _gen is None:
        _gen = Generator(Options.build(""))
    klass = naming.OldNaming if c.get("old") else naming.NewNaming
    n = klass(name=c["name"], namespace=tuple(c["namespace"]), version=c["version"])
    api = types.SimpleNamespace(naming=n, subpackage_view=tuple(c["sub"]))
    ctx = {}
    if c.get("service") is not None:
        ctx["service"] = types.SimpleNamespace(module_name=c["service"])
    if c.get("proto") is not None:
        ctx["proto"] = types.SimpleNamespace(module_name=c["proto"])
    try:
        return {"filename": _gen._get_filename(c["tpl"], api_schema=api, context=ctx or None),
                "ns_path": "/".join(i.lower() for i in n.namespace), "module_name": n.module_name, "versioned": n.versioned_module_name}
    except Exception as e:  # noqa
        return {"error": type(e).__name__}


def do_build(c):
    """API.build on skeleton descriptors (file name, package, service names): protos, modules, sub-packages, services."""
    from gapic.schema import api
    from gapic.utils import Options
    fds = []
    for f in c["files"]:
        fd = descriptor_pb2.FileDescriptorProto(name=f["name"], package=f["package"], syntax="proto3")
        for s in f["services"]:
            fd.service.add().name = s
        fds.append(fd)
    try:
        opts = Options.build(c.get("opt", ""))
        package = ".".join(os.path.commonprefix([p.package.split(".") for p in fds if p.name in c["to_generate"]]))
        a = api.API.build(fds, opts=opts, package=package)
    except ValueError as e:
        m = str(e)
        return {"error": "NoCommonRoot" if m.startswith("The protos provided do not share") else
                "UnversionedMulti" if m.startswith("All protos must have") else
                "BadOption" if "unpack" in m else "ValueError:" + m[:60]}
    except AttributeError:
        return {"error": "NoRegexMatch"}
    except Exception as e:  # noqa
        return {"error": type(e).__name__ + ":" + str(e)[:80]}

    def view(x):
        return {"protos": [[p.module_name, list(p.meta.address.subpackage), [s.module_name for s in p.services.values()]]
                           for p in x.protos.values()],
                "services": [[s.module_name, list(s.meta.address.subpackage)] for s in x.services.values()],
                "subviews": [list(v.subpackage_view) for v in x.subpackages.values()]}
    top = view(a)
    top["all_names"] = list(a.all_protos.keys())
    top["sub"] = {k: view(v) for k, v in a.subpackages.items()}
    top["ns_path"] = "/".join(i.lower() for i in a.naming.namespace)
    top["module_name"], top["version"], top["versioned"] = a.naming.module_name, a.naming.version, a.naming.versioned_module_name
    return top


def do_empty(c):
    """utils.empty on the raw text and on the whitespace-cleaned text, and what Generator._get_file returns for a template
    that renders to exactly that text under that file name (the real method, on a stand-in self)."""
    from gapic import utils
    from gapic.generator import formatter
    from gapic.generator.generator import Generator
    fn, raw = c["fn"], c["raw"]

    class _Tpl:
        def render(self, **kw):
            return raw

    me = types.SimpleNamespace(_get_filename=lambda template_name, api_schema=None, context=None: fn,
                               _env=types.SimpleNamespace(get_template=lambda name: _Tpl()))
    try:
        got = Generator._get_file(me, "x.j2", opts=None, api_schema=None)
    except Exception as e:  # noqa
        return {"error": type(e).__name__ + ":" + str(e)[:80]}
    names = sorted(got)
    return {"empty_raw": bool(utils.empty(raw)), "empty_fixed": bool(utils.empty(formatter.fix_whitespace(raw))),
            "emitted": names == [fn], "names": names,
            "content_is_fixed": (not names) or got[fn].content == formatter.fix_whitespace(raw)}


def main():
    payload = json.load(sys.stdin)
    from gapic.utils import to_snake_case, to_valid_module_name, to_valid_filename
    out = {"options": [do_options(s) for s in payload.get("options", [])],
           "naming": [do_naming(c) for c in payload.get("naming", [])],
           "filename": [do_filename(c) for c in payload.get("filename", [])],
           "build": [do_build(c) for c in payload.get("build", [])],
           "empty": [do_empty(c) for c in payload.get("empty", [])],
           "snake": [to_snake_case(s) for s in payload.get("strings", [])],
           "valid_module": [to_valid_module_name(s) for s in payload.get("strings", [])],
           "valid_filename": [to_valid_filename(s) for s in payload.get("strings", [])]}
    print(json.dumps(out))


main()
