"""C02 child (schema level): build gapic's API object exactly as gapic.cli.generate does and report, per target proto,
what the wrappers compute for the types module: Proto.names, disambiguate('proto'), python_modules, and per message and
field Field.name / proto_type / map / repeated / oneof / proto3_optional and the reference Address.rel prints.

stdin: [{"request_b64": ...}, ...]   stdout (last line): [{"ok": bool, "error": str, "naming": {...}, "protos": {...}}, ...]"""
import base64, json, os, sys, traceback
from google.protobuf.compiler import plugin_pb2
from gapic.schema import api as gapi
from gapic.utils import Options


def msg_facts(m):
    fields = []
    for f in m.fields.values():
        d = {"attr": f.name, "pb_name": f.field_pb.name, "number": f.number, "proto_type": f.proto_type, "map": bool(f.map),
             "repeated": bool(f.repeated), "oneof": f.oneof, "p3": bool(f.proto3_optional), "ref": None, "str": None}
        if f.map:
            k, v = f.message.fields["key"], f.message.fields["value"]
            d["key_type"], d["proto_type"] = k.proto_type, v.proto_type
            if v.enum or v.message:
                d["ref"] = v.type.ident.rel(m.ident)
                d["str"] = str(v.type.ident)
        elif f.enum or f.message:
            d["ref"] = f.type.ident.rel(m.ident)
            d["str"] = str(f.type.ident)
        fields.append(d)
    return {"name": m.name, "fields": fields, "map": bool(m.map),
            "nested": [msg_facts(n) for n in m.nested_messages.values()],
            "enums": [{"name": e.name, "values": [[v.name, v.number] for v in e.values]} for e in m.nested_enums.values()]}


def facts(req_b64):
    req = plugin_pb2.CodeGeneratorRequest.FromString(base64.b64decode(req_b64))
    opts = Options.build(req.parameter)
    package = os.path.commonprefix([p.package for p in req.proto_file if p.name in req.file_to_generate]).rstrip(".")
    a = gapi.API.build(req.proto_file, opts=opts, package=package)
    out = {"ok": True, "naming": {"proto_package": a.naming.proto_package, "version": a.naming.version,
                                  "types_prefix": list(a.naming.module_namespace) + [a.naming.versioned_module_name]},
           "protos": {}}
    for name, p in a.protos.items():
        out["protos"][name] = {
            "module_name": p.module_name,
            "names": sorted(p.names),
            "proto_alias": p.disambiguate("proto"),
            "python_modules": [[list(i.package), i.module, i.alias] for i in p.python_modules],
            "enums": [{"name": e.name, "values": [[v.name, v.number] for v in e.values]} for e in p.enums.values()],
            "msgs": [msg_facts(m) for m in p.messages.values()],
        }
    return out


def main():
    out = []
    for c in json.load(sys.stdin):
        try:
            out.append(facts(c["request_b64"]))
        except Exception as e:  # noqa
            out.append({"ok": False, "error": f"{type(e).__name__}: {e}"[:400], "trace": traceback.format_exc()[-800:]})
    print(json.dumps(out))


main()
