"""Oracle child of C15: import the emitted package (the emitted tree is first on sys.path) and report, for every
(client class, method names) pair named by gapic_metadata.json, whether the class exists in the library package
and defines callables of exactly those names.  Does not import gapic."""
import importlib, inspect, json, sys


def main():
    payload = json.load(sys.stdin)
    out = {"import_error": None, "results": []}
    try:
        pkg = importlib.import_module(payload["package"])
    except Exception as e:  # noqa
        import traceback
        out["import_error"] = f"{type(e).__name__}: {e}"[:500] + " | " + traceback.format_exc()[-800:]
        print(json.dumps(out))
        return
    out["file"] = getattr(pkg, "__file__", None)
    for chk in payload["checks"]:
        mod = pkg
        if chk.get("subpackage"):
            # a service declared in a proto sub-package lives in <library package>.<sub-package>
            try:
                mod = importlib.import_module(payload["package"] + "." + chk["subpackage"])
            except Exception as e:  # noqa
                out["results"].append({"client": chk["client"], "is_class": False, "missing": [], "not_callable": [],
                                       "module": None, "error": f"{type(e).__name__}: {e}"[:300]})
                continue
        cls = getattr(mod, chk["client"], None)
        rec = {"client": chk["client"], "is_class": inspect.isclass(cls), "missing": [], "not_callable": [], "module": None}
        if inspect.isclass(cls):
            rec["module"] = cls.__module__
            for m in chk["methods"]:
                # defined by the emitted class itself (not inherited from object / a mixin of another library)
                owner = next((k for k in cls.__mro__ if m in vars(k)), None)
                if owner is None:
                    rec["missing"].append(m)
                elif not callable(getattr(cls, m, None)):
                    rec["not_callable"].append(m)
                elif not owner.__module__.startswith(payload["package"]):
                    rec["missing"].append(m + f" (only inherited from {owner.__module__})")
        out["results"].append(rec)
    print(json.dumps(out))


main()
