"""C02 child: import an emitted library (scratch tree first on sys.path), dump the runtime descriptor of every generated
class, and evaluate the property's own sentence against the INPUT descriptors (dynamic messages from a private pool):
descriptor agreement, enum members, two-way wire round trip, JSON keys.  Nothing here uses /repo or the Coq model."""
import base64, importlib, json, sys, traceback, types

from google.protobuf import descriptor_pb2, json_format, empty_pb2  # noqa: F401  (Empty must be in the default pool)
from google.protobuf.compiler import plugin_pb2
from google.protobuf.descriptor import FieldDescriptor as FD


def lower_camel(n):
    out, cap = [], False
    for c in n:
        if c == "_":
            cap = True
        elif cap:
            out.append(c.upper()); cap = False
        else:
            out.append(c)
    return "".join(out)


def dump_enum_desc(ed):
    p = descriptor_pb2.EnumDescriptorProto()
    ed.CopyToProto(p)
    return {"name": p.name, "values": [[v.name, v.number] for v in p.value]}


def dump_msg_desc(d):
    p = descriptor_pb2.DescriptorProto()
    d.CopyToProto(p)

    def rec(p, d):
        fields = []
        for fp in p.field:
            fd = d.fields_by_name[fp.name]
            tn = ""
            if fd.message_type is not None:
                tn = fd.message_type.full_name
            elif fd.enum_type is not None:
                tn = fd.enum_type.full_name
            fields.append({"name": fp.name, "number": fp.number, "label": fp.label, "type": fp.type, "type_name": tn,
                           "oneof": fp.oneof_index if fp.HasField("oneof_index") else None, "p3": bool(fp.proto3_optional)})
        return {"name": p.name, "fields": fields, "oneofs": [o.name for o in p.oneof_decl],
                "nested": [rec(n, d.nested_types_by_name[n.name]) for n in p.nested_type],
                "enums": [{"name": e.name, "values": [[v.name, v.number] for v in e.value]} for e in p.enum_type],
                "map_entry": bool(p.options.map_entry)}

    return rec(p, d)


class Oracle:
    def __init__(self, reserved):
        self.reserved = set(reserved)
        self.failures = []
        self.stats = {"messages": 0, "fields": 0, "enums": 0, "roundtrips": 0, "json": 0}

    def fail(self, clause, where, what, **extra):
        if len(self.failures) < 40:
            self.failures.append({"clause": clause, "where": where, "what": what, **extra})

    def expected_attr(self, name):
        return name + "_" if name in self.reserved else name

    def compare_enum(self, where, ein, members, eout):
        self.stats["enums"] += 1
        want = sorted((v.name, v.number) for v in ein.values)
        if members is not None and sorted(members) != want:
            self.fail("enum-values", where, f"enum class members {sorted(members)} != input values {want}")
        if eout is not None:
            got = sorted((v.name, v.number) for v in eout.values)
            if got != want:
                self.fail("enum-values", where, f"runtime enum descriptor values {got} != input values {want}")

    def compare_message(self, din, dout, cls):
        """din: input Descriptor (private pool); dout: runtime Descriptor of the generated class."""
        where = din.full_name
        self.stats["messages"] += 1
        if dout.full_name != din.full_name:
            self.fail("nesting", where, f"runtime full name {dout.full_name!r}")
        by_num = {f.number: f for f in dout.fields}
        pin, pout = descriptor_pb2.DescriptorProto(), descriptor_pb2.DescriptorProto()
        din.CopyToProto(pin); dout.CopyToProto(pout)
        p3_in = {f.number: f.proto3_optional for f in pin.field}
        p3_out = {f.number: f.proto3_optional for f in pout.field}
        for fi in din.fields:
            self.stats["fields"] += 1
            fo = by_num.get(fi.number)
            tag = f"{where}.{fi.name}"
            if fo is None:
                self.fail("field-number", tag, f"no field with number {fi.number} in the generated class (runtime numbers: {sorted(by_num)})")
                continue
            want_attr = self.expected_attr(fi.name)
            if fo.name != want_attr:
                self.fail("attribute-name", tag, f"runtime field name {fo.name!r}, expected {want_attr!r}")
            if cls is not None and want_attr not in cls._meta.fields:
                self.fail("attribute-name", tag, f"attribute {want_attr!r} not among the class's fields {sorted(cls._meta.fields)}")
            if fo.json_name != lower_camel(fi.name):
                self.fail("json-name", tag, f"runtime json_name {fo.json_name!r} != lowerCamel of the proto name {lower_camel(fi.name)!r}")
            in_map = fi.message_type is not None and fi.message_type.GetOptions().map_entry
            out_map = fo.message_type is not None and fo.message_type.GetOptions().map_entry
            if in_map != out_map:
                self.fail("map", tag, f"map field in input: {in_map}, in the generated class: {out_map}")
            elif in_map:
                for part in ("key", "value"):
                    a, b = fi.message_type.fields_by_name[part], fo.message_type.fields_by_name.get(part)
                    if b is None or a.type != b.type or a.number != b.number:
                        self.fail("map", tag, f"map {part}: input type {a.type}, runtime {b and b.type}")
                    elif self._tname(a) != self._tname(b):
                        self.fail("map", tag, f"map {part} type {self._tname(a)!r} vs runtime {self._tname(b)!r}")
                if fo.label != FD.LABEL_REPEATED:
                    self.fail("cardinality", tag, "map field is not repeated at runtime")
            else:
                if fi.type != fo.type:
                    self.fail("field-type", tag, f"type {fi.type} vs runtime {fo.type}")
                elif self._tname(fi) != self._tname(fo):
                    self.fail("field-type", tag, f"type name {self._tname(fi)!r} vs runtime {self._tname(fo)!r}")
                if fi.label != fo.label:
                    self.fail("cardinality", tag, f"label {fi.label} vs runtime {fo.label}")
            if p3_in.get(fi.number) != p3_out.get(fi.number):
                self.fail("presence", tag, f"proto3_optional {p3_in.get(fi.number)} vs runtime {p3_out.get(fi.number)}")
            if fi.has_presence != fo.has_presence:
                self.fail("presence", tag, f"has_presence {fi.has_presence} vs runtime {fo.has_presence}")
            oi = fi.containing_oneof.name if fi.containing_oneof is not None and not p3_in.get(fi.number) else None
            oo = fo.containing_oneof.name if fo.containing_oneof is not None and not p3_out.get(fi.number) else None
            if oi != oo:
                self.fail("oneof", tag, f"oneof {oi!r} vs runtime {oo!r}")
        extra = sorted(set(by_num) - {f.number for f in din.fields})
        if extra:
            self.fail("field-number", where, f"generated class has extra field numbers {extra}")
        # oneof partitions (real oneofs)
        part_in = {o.name: sorted(f.number for f in o.fields) for o in din.oneofs if not all(p3_in.get(f.number) for f in o.fields)}
        part_out = {o.name: sorted(f.number for f in o.fields) for o in dout.oneofs if not all(p3_out.get(f.number) for f in o.fields)}
        if part_in != part_out:
            self.fail("oneof", where, f"oneof partition {part_in} vs runtime {part_out}")
        # nesting
        nin = {n.name: n for n in din.nested_types if not n.GetOptions().map_entry}
        nout = {n.name: n for n in dout.nested_types if not n.GetOptions().map_entry}
        if sorted(nin) != sorted(nout):
            self.fail("nesting", where, f"nested messages {sorted(nin)} vs runtime {sorted(nout)}")
        for n in nin:
            if n in nout:
                sub = getattr(cls, n, None) if cls is not None else None
                if cls is not None and sub is None:
                    self.fail("nesting", where, f"nested class {n} is not an attribute of the generated class")
                self.compare_message(nin[n], nout[n], sub)
        ein = {e.name: e for e in din.enum_types}
        eout = {e.name: e for e in dout.enum_types}
        if sorted(ein) != sorted(eout):
            self.fail("nesting", where, f"nested enums {sorted(ein)} vs runtime {sorted(eout)}")
        for n in ein:
            ec = getattr(cls, n, None) if cls is not None else None
            members = [(m.name, int(m.value)) for m in ec] if ec is not None else None
            if cls is not None and ec is None:
                self.fail("nesting", where, f"nested enum class {n} is not an attribute of the generated class")
            self.compare_enum(f"{where}.{n}", ein[n], members, eout.get(n))

    @staticmethod
    def _tname(f):
        if f.message_type is not None:
            return f.message_type.full_name
        if f.enum_type is not None:
            return f.enum_type.full_name
        return ""


def classes_of(cls, din, out):
    """(input descriptor, generated class) for a message and all its nested non-entry messages."""
    out.append((din, cls))
    for n in din.nested_types:
        if n.GetOptions().map_entry:
            continue
        sub = getattr(cls, n.name, None)
        if sub is not None:
            classes_of(sub, n, out)


def make_dyn(req):
    from gv import dyn

    class Dyn2(dyn.Dyn):
        """dyn.Dyn with the recursion bound also applied to message-valued maps (recursive map values never terminate otherwise)."""

        def _set(self, r, m, f, depth):
            is_map = f.type == FD.TYPE_MESSAGE and f.message_type.GetOptions().map_entry
            if is_map and depth >= 3 and f.message_type.fields_by_name["value"].type == FD.TYPE_MESSAGE:
                return
            return super()._set(r, m, f, depth)

        def random(self, r, fqn, depth=0, fill=0.7, skip=()):
            """Well-known types get values json_format can print (also inside repeated fields and map values)."""
            fqn = fqn.lstrip(".")
            if fqn.startswith("google.protobuf."):
                m = self.cls(fqn)()
                short = fqn[len("google.protobuf."):]
                if short == "Timestamp":
                    m.seconds, m.nanos = r.choice([0, 1, 1700000000]), r.choice([0, 5000000])
                elif short == "Duration":
                    m.seconds, m.nanos = r.choice([0, 1, 30]), r.choice([0, 250000000])
                elif short == "FieldMask":
                    m.paths.extend(r.sample(["name", "display_name", "a.b_c"], r.randint(0, 2)))
                elif short == "Struct":
                    m["k"] = r.choice(["v", 1.5, True])
                elif short == "Value":
                    m.string_value = r.choice(["", "v"])
                elif short == "ListValue":
                    m.values.add().number_value = 1.0
                elif short == "Any":
                    m.type_url = "type.googleapis.com/google.protobuf.Empty"
                else:
                    return super().random(r, fqn, depth, fill, skip)
                return m
            return super().random(r, fqn, depth, fill, skip)

    return Dyn2(req)


def main():
    q = json.load(sys.stdin)
    sys.path.insert(0, q["root"])
    from gv import env, dyn
    req = plugin_pb2.CodeGeneratorRequest()
    req.ParseFromString(base64.b64decode(q["request_b64"]))
    d = make_dyn(req)
    out = {"import": {"ok": True, "error": ""}, "modules": {}, "failures": [], "stats": {}}
    orc = Oracle(q["reserved"])
    pkg = q["package"]
    # ---- the package as a user imports it (the types package of the API and of each proto sub-package)
    tpkgs = sorted({f["types_package"] for f in q["files"]} | {pkg + ".types"})
    try:
        for tp in tpkgs:
            importlib.import_module(tp)
    except BaseException as e:  # noqa
        out["import"] = {"ok": False, "error": f"{type(e).__name__}: {e}"[:600], "trace": traceback.format_exc()[-900:]}
        # isolate the failing module(s): stub the package objects so that each types module can be imported on its own
        for tp in tpkgs:
            parts = tp.split(".")
            for i in range(1, len(parts) + 1):
                name = ".".join(parts[:i])
                if name in sys.modules:
                    continue
                if i < len(pkg.split(".")):
                    try:
                        importlib.import_module(name)
                        continue
                    except BaseException:  # noqa
                        pass
                m = types.ModuleType(name)
                m.__path__ = [q["root"] + "/" + "/".join(parts[:i])]
                sys.modules[name] = m
    fds = {fp.name: fp for fp in req.proto_file}
    # selective generation: the library keeps a subset of the top-level types; what it keeps must work, and must be closed
    # under field types (a kept message whose field type was pruned can never build its descriptor)
    kept_only = bool(q.get("kept_only"))
    kept_top, kept_msgs = set(), []
    target_top = set()
    for fp in req.proto_file:
        if fp.name in req.file_to_generate:
            pre = fp.package + "." if fp.package else ""
            target_top |= {pre + x.name for x in list(fp.message_type) + list(fp.enum_type)}
    for f in q["files"]:
        rec = {"ok": True, "error": "", "enums": [], "msgs": []}
        out["modules"][f["module"]] = rec
        try:
            mod = importlib.import_module(f["pymodule"])
        except BaseException as e:  # noqa
            rec["ok"] = False
            rec["error"] = f"{type(e).__name__}: {e}"[:600]
            continue
        fp = fds[f["proto"]]
        prefix = fp.package + "." if fp.package else ""
        try:
            for e in fp.enum_type:
                ein = d.pool.FindEnumTypeByName(prefix + e.name)
                ec = getattr(mod, e.name, None)
                if ec is None:
                    if kept_only and not q.get("keep_all"):
                        orc.stats["pruned"] = orc.stats.get("pruned", 0) + 1
                    else:
                        orc.fail("enum-values", prefix + e.name, "no such enum class in the generated module")
                    continue
                kept_top.add(prefix + e.name)
                ed = ec._meta.pb
                if ed is None:
                    orc.fail("class-unusable", prefix + e.name, "the enum class has no descriptor (the module's file descriptor was never built)")
                    rec["ok"] = False
                    rec["error"] = f"{e.name}: no descriptor"
                    continue
                rec["enums"].append(dump_enum_desc(ed))
                orc.compare_enum(prefix + e.name, ein, [(m.name, int(m.value)) for m in ec], ed)
            pairs = []
            for m in fp.message_type:
                din = d.pool.FindMessageTypeByName(prefix + m.name)
                cls = getattr(mod, m.name, None)
                if cls is None:
                    if kept_only and not q.get("keep_all"):
                        orc.stats["pruned"] = orc.stats.get("pruned", 0) + 1
                    else:
                        orc.fail("nesting", prefix + m.name, "no such message class in the generated module")
                    continue
                kept_top.add(prefix + m.name)
                kept_msgs.append(din)
                try:
                    dout = cls.pb(cls()).DESCRIPTOR
                except BaseException as e:  # noqa
                    orc.fail("class-unusable", prefix + m.name, f"{m.name}.pb({m.name}()) raised {type(e).__name__}: {e}"[:300])
                    rec["ok"] = False
                    rec["error"] = f"{m.name}: {type(e).__name__}: {e}"[:300]
                    continue
                rec["msgs"].append(dump_msg_desc(dout))
                orc.compare_message(din, dout, cls)
                classes_of(cls, din, pairs)
            # ---- two-way round trip and JSON keys on random valuations of the INPUT message types
            for din, cls in pairs:
                for k in range(q["nvals"]):
                    r = env.rng(f"C02-val-{q['tag']}-{din.full_name}", k)
                    m = d.random(r, din.full_name, fill=r.choice([0.4, 0.8, 1.0]))
                    where = f"{din.full_name}#{k}"
                    wire = m.SerializeToString(deterministic=True)
                    case = {"message": din.full_name, "valuation_b64": base64.b64encode(wire).decode()}
                    try:
                        obj = cls.deserialize(wire)
                        back = cls.serialize(obj)
                        m2 = d.cls(din.full_name)()
                        m2.ParseFromString(back)
                        orc.stats["roundtrips"] += 1
                        if m2 != m:
                            orc.fail("roundtrip", where, "input-descriptor bytes -> generated class -> bytes differ: "
                                     f"{dyn.Dyn.canon(m)} vs {dyn.Dyn.canon(m2)}"[:500], **case)
                        want = json_format.MessageToDict(m, always_print_fields_with_no_presence=True, use_integers_for_enums=True)
                        got = json.loads(cls.to_json(obj))
                        orc.stats["json"] += 1
                        if got != want:
                            orc.fail("json", where, f"Class.to_json {json.dumps(got, sort_keys=True)[:300]} != JSON of the same message under the input "
                                     f"descriptor {json.dumps(want, sort_keys=True)[:300]}", **case)
                        obj2 = cls.from_json(json.dumps(want))
                        m3 = d.cls(din.full_name)()
                        m3.ParseFromString(cls.serialize(obj2))
                        if m3 != m:
                            orc.fail("roundtrip", where, "JSON (original names) -> generated class -> bytes -> input descriptor differs: "
                                     f"{dyn.Dyn.canon(m)} vs {dyn.Dyn.canon(m3)}"[:500], **case)
                    except BaseException as e:  # noqa
                        orc.fail("roundtrip", where, f"{type(e).__name__}: {e}"[:400], **case)
        except BaseException as e:  # noqa
            orc.fail("harness", f["module"], f"{type(e).__name__}: {e}\n{traceback.format_exc()[-600:]}")
    if kept_only:
        def top_of(t):
            while t.containing_type is not None:
                t = t.containing_type
            return t.full_name

        def walk(dm):
            for fld in dm.fields:
                t = fld.message_type or fld.enum_type
                if t is not None and fld.message_type is not None and t.GetOptions().map_entry:
                    v = t.fields_by_name["value"]
                    t = v.message_type or v.enum_type
                if t is not None and top_of(t) in target_top and top_of(t) not in kept_top:
                    orc.fail("reference-closure", f"{dm.full_name}.{fld.name}",
                             f"the library keeps {dm.full_name} but not {top_of(t)}, the type of its field {fld.name}")
            for n in dm.nested_types:
                if not n.GetOptions().map_entry:
                    walk(n)
        for dm in kept_msgs:
            walk(dm)
        for full in q.get("must_keep", []):
            if full not in kept_top:
                orc.fail("reference-closure", full, "request/response message of a selected rpc is not in the library")
    out["kept"] = sorted(kept_top)
    out["failures"] = orc.failures
    out["stats"] = orc.stats
    print(json.dumps(out))


main()
