"""C08 driver for the asyncio REST transport (rest_asyncio): calls LRO methods of the emitted async client bound to the
loopback HTTP server and awaits the future.

stdin JSON: {"root": dir, "package": "...", "calls": [spec...]}
spec: {"service_module", "client", "method", "request": {"mode": "message"|"kwargs", "cls": "pkg:Name", "b64", "kwargs": [...]},
       "http_script": [{"status", "body"}...], "lro_timeout": 30}
stdout (last line): [{"ok", "error", "result": [{"kind": "lro", "type", "result"|"result_error", "metadata"|"metadata_error"}],
                      "http_calls": [...], "sleeps": [...]}]"""
import asyncio, importlib, inspect, json, sys, traceback
from gv.impl import drivelib as D


def build_kwargs(r):
    cls = D.resolve(r["cls"])
    msg = D.build_message(cls, r["b64"])
    if r["mode"] == "message":
        return {"request": msg}
    return {k: getattr(msg, k) for k in r["kwargs"]}


async def run(spec, hs, pkg):
    from google.auth.aio.credentials import AnonymousCredentials
    svc = importlib.import_module(f"{pkg}.services.{spec['service_module']}")
    tm = D.transports_module(pkg, spec["service_module"])
    names = [n for n in dir(tm) if n.startswith("Async") and n.endswith("RestTransport")]
    if len(names) != 1:
        raise RuntimeError(f"async REST transport classes: {names}")
    tr = getattr(tm, names[0])(host=hs.host, url_scheme="http", credentials=AnonymousCredentials())
    client = getattr(svc, spec["client"])(transport=tr)
    try:
        res = getattr(client, spec["method"])(**build_kwargs(spec["request"]))
        if inspect.isawaitable(res):
            res = await res
        d = {"kind": "lro", "type": type(res).__module__ + "." + type(res).__name__}
        try:
            d["result"] = D.encode_value(await res.result(timeout=spec.get("lro_timeout", 30)))
        except Exception as e:  # noqa
            d["result_error"] = D.exc_info(e)
        try:
            md = res.metadata
            if inspect.isawaitable(md):
                md = await md
            d["metadata"] = D.encode_value(md)
        except Exception as e:  # noqa
            d["metadata_error"] = D.exc_info(e)
        return [d]
    finally:
        try:
            await tr.close()
        except Exception:  # noqa
            pass


def main():
    payload = json.load(sys.stdin)
    sys.path.insert(0, payload["root"])
    hs = D.HttpLoopback()
    out = []
    for spec in payload["calls"]:
        hs.set_script(spec.get("http_script"))
        # an unexpected request (wrong path after the script ran out) is answered 404 like a real server would
        hs.default_reply = {"status": 404, "body": json.dumps({"error": {"code": 404, "message": "no such path", "status": "NOT_FOUND"}})}
        rec = {"ok": True}
        with D.SleepRecorder("max") as sr:
            try:
                rec["result"] = asyncio.run(run(spec, hs, payload["package"]))
            except Exception as e:  # noqa
                rec["ok"] = False
                rec["error"] = D.exc_info(e)
                rec["traceback"] = traceback.format_exc()[-1200:]
        rec["sleeps"] = sr.sleeps
        rec["http_calls"] = hs.take_calls()
        rec["grpc_calls"] = []
        out.append(rec)
    hs.stop()
    print()
    print(json.dumps(out))


main()
