"""Implementation side of C03's name functions: gapic.utils.to_snake_case and Method.transport_safe_name / client_method_name
on bare RPC names.  stdin: [name, ...]   stdout (last line): [{"snake":..., "safe":..., "client":...}, ...]"""
import json, sys
from google.protobuf import descriptor_pb2
from gapic import utils
from gapic.schema import wrappers


def main():
    names = json.load(sys.stdin)
    out = []
    for n in names:
        m = wrappers.Method(method_pb=descriptor_pb2.MethodDescriptorProto(name=n), input=None, output=None)
        out.append({"snake": utils.to_snake_case(n), "safe": m.transport_safe_name, "client": m.client_method_name})
    print()
    print(json.dumps(out))


main()
