"""C10 pure side: the real sort_lines, Python's sorted and Jinja's sort filter."""
import json, sys
import jinja2
from gapic.utils import sort_lines


def main():
    q = json.load(sys.stdin)
    env = jinja2.Environment()
    srt = env.filters["sort"]
    out = {"sort_lines_dedupe": [sort_lines(t) for t in q["texts"]],
           "sort_lines_nodedupe": [sort_lines(t, dedupe=False) for t in q["texts"]],
           "jinja_sort": [], "sorted_names": []}
    for rec in q["recs"]:
        items = [{"name": a, "tag": b} for a, b in rec]
        got = srt(env, items, attribute="name")
        out["jinja_sort"].append([[g["name"], g["tag"]] for g in got])
        out["sorted_names"].append(sorted(a for a, _ in rec))
    # selective generation: key order of the pruned schema dicts against the declaration order of the unpruned schema
    out["prune"] = []
    for sel in q.get("selective", []):
        import base64, copy, dataclasses
        from google.protobuf.compiler import plugin_pb2
        from gapic.schema import api as api_mod
        from gapic.utils import Options
        req = plugin_pb2.CodeGeneratorRequest.FromString(base64.b64decode(sel["request_b64"]))
        opts = Options.build(req.parameter)
        package = ".".join(__import__("os").path.commonprefix([f.package.split(".") for f in req.proto_file if f.name in req.file_to_generate]))
        pruned = api_mod.API.build(req.proto_file, opts=opts, package=package)
        cfg = copy.deepcopy(opts.service_yaml_config)
        cfg.pop("publishing", None)
        full = api_mod.API.build(req.proto_file, opts=dataclasses.replace(opts, service_yaml_config=cfg), package=package)
        rows = []
        for name, pp in pruned.protos.items():
            if name not in req.file_to_generate or name not in full.protos:
                continue
            fp = full.protos[name]
            for attr in ("all_messages", "all_enums", "services"):
                rows.append({"file": name, "dict": attr, "decl": list(getattr(fp, attr).keys()), "pruned": list(getattr(pp, attr).keys())})
        rows.append({"file": "<api>", "dict": "services", "decl": list(full.services.keys()), "pruned": list(pruned.services.keys())})
        out["prune"].append(rows)
    print(json.dumps(out))


main()
