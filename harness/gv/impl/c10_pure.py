"""C10 pure side: the real sort_lines, Python's sorted and Jinja's sort filter."""
import json, sys
import jinja2
from gapic.utils import sort_lines


def main():
    q = json.load(sys.stdin)
    env = jinja2.Environment()
    srt = env.filters["sort"]
    out = {"sort_lines_dedupe": [sort_lines(t) for t in q["texts"]],
           "sort_lines_nodedupe": [sort_lines(t, dedupe=False) for t in q["texts"]],
           "jinja_sort": [], "sorted_names": []}
    for rec in q["recs"]:
        items = [{"name": a, "tag": b} for a, b in rec]
        got = srt(env, items, attribute="name")
        out["jinja_sort"].append([[g["name"], g["tag"]] for g in got])
        out["sorted_names"].append(sorted(a for a, _ in rec))
    print(json.dumps(out))


main()
