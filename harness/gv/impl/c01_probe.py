"""C01 probe: import every module of an emitted package in this fresh interpreter; report clients and registries."""
import importlib, json, pkgutil, sys, traceback


def main():
    q = json.load(sys.stdin)
    sys.path.insert(0, q["root"])
    out = {"import_ok": True, "modules": [], "errors": [], "clients": {}}
    for top in q["packages"]:
        try:
            pkg = importlib.import_module(top)
        except Exception as e:  # noqa
            out["import_ok"] = False
            out["errors"].append(f"{top}: {type(e).__name__}: {str(e)[:300]} || {traceback.format_exc().strip().splitlines()[-3:]}")
            continue
        def onerr(name):
            e = sys.exc_info()[1]
            out["import_ok"] = False
            out["errors"].append(f"{name}: {type(e).__name__}: {str(e)[:300]}")
        for m in pkgutil.walk_packages(pkg.__path__, pkg.__name__ + ".", onerror=onerr):
            try:
                importlib.import_module(m.name)
                out["modules"].append(m.name)
            except Exception as e:  # noqa
                out["import_ok"] = False
                out["errors"].append(f"{m.name}: {type(e).__name__}: {str(e)[:300]}")
    if q.get("main"):
        try:
            pkg = importlib.import_module(q["main"])
            for cname in q.get("clients", []):
                c = getattr(pkg, cname, None)
                if c is None:
                    out["clients"][cname] = None
                    continue
                rec = {"exists": True}
                reg = getattr(c, "_transport_registry", None)
                if reg is None and hasattr(type(c), "_transport_registry"):
                    reg = type(c)._transport_registry
                if reg is not None:
                    rec["registry"] = list(reg.keys())
                    try:
                        rec["default"] = next(k for k, v in reg.items() if v is c.get_transport_class())
                    except Exception as e:  # noqa
                        rec["default_error"] = f"{type(e).__name__}: {e}"
                    # asking for a transport by label: a registered label gives its class, any other label is refused
                    rec["by_label"] = {}
                    for label in ("grpc", "grpc_asyncio", "rest", "rest_asyncio", "nope", "GRPC", ""):
                        if label == "":
                            continue
                        try:
                            got = c.get_transport_class(label)
                            rec["by_label"][label] = "registered" if reg.get(label) is got else f"returned {getattr(got, '__name__', got)}"
                        except KeyError:
                            rec["by_label"][label] = "KeyError"
                        except Exception as e:  # noqa
                            rec["by_label"][label] = f"{type(e).__name__}"
                out["clients"][cname] = rec
        except Exception as e:  # noqa
            out["errors"].append(f"main: {type(e).__name__}: {e}")
    print(json.dumps(out))


main()
