"""C06: sequences of calls on ONE client with ONE caller-owned metadata object (child process side).

stdin JSON: {"root": dir, "package": pkg, "sequences": [
   {"service_module", "client", "transport": "grpc"|"grpc_asyncio"|"rest", "method", "cls": "pkg.mod:Name",
    "requests": [b64...], "md_kind": "list"|"tuple"|"default", "md": [[k, v]...]}]}
stdout (last line) JSON: per sequence {"calls": [{"wire": [[k, v]...] | None, "md_after": [[k, v]...], "md_type": str, "same_object": bool,
                                                 "error": {...}|None}...], "error": ...}
"wire" = the metadata (gRPC) / headers (REST) of the request the loopback server received for that call."""
import asyncio, inspect, json, sys, traceback
from gv.impl import drivelib as D


def wire_of(gs, hs, transport):
    g, h = gs.take_calls(), hs.take_calls()
    if transport == "rest":
        return [[k.lower(), v] for k, v in h[0]["headers"]] if h else None
    return [[k, v] for k, v in g[0]["metadata"]] if g else None


def md_object(seq):
    if seq["md_kind"] == "default":
        return None
    items = [tuple(x) for x in seq["md"]]
    return items if seq["md_kind"] == "list" else tuple(items)


def snapshot(md, orig_id):
    return {"md_after": [list(x) for x in md] if md is not None else None, "md_type": type(md).__name__, "same_object": md is None or id(md) == orig_id}


def run_sync(seq, gs, hs, pkg):
    client = D.make_client(pkg, seq["service_module"], seq["client"], seq["transport"], gs.target, hs.host)
    cls = D.resolve(seq["cls"])
    md = md_object(seq)
    out = []
    for b in seq["requests"]:
        kw = {"request": D.build_message(cls, b), "retry": None, "timeout": 10.0}
        if md is not None:
            kw["metadata"] = md
        rec = {"error": None}
        try:
            getattr(client, seq["method"])(**kw)
        except Exception as e:  # noqa
            rec["error"] = D.exc_info(e)
        rec["wire"] = wire_of(gs, hs, seq["transport"])
        rec.update(snapshot(md, id(md)))
        out.append(rec)
    return out


async def run_async(seq, gs, hs, pkg):
    client = D.make_client(pkg, seq["service_module"], seq["client"], seq["transport"], gs.target, hs.host)
    cls = D.resolve(seq["cls"])
    md = md_object(seq)
    out = []
    for b in seq["requests"]:
        kw = {"request": D.build_message(cls, b), "retry": None, "timeout": 10.0}
        if md is not None:
            kw["metadata"] = md
        rec = {"error": None}
        try:
            res = getattr(client, seq["method"])(**kw)
            if inspect.isawaitable(res):
                await res
        except Exception as e:  # noqa
            rec["error"] = D.exc_info(e)
        rec["wire"] = wire_of(gs, hs, seq["transport"])
        rec.update(snapshot(md, id(md)))
        out.append(rec)
    return out


def main():
    payload = json.load(sys.stdin)
    sys.path.insert(0, payload["root"])
    gs, hs = D.GrpcLoopback(), D.HttpLoopback()
    results = []
    for seq in payload["sequences"]:
        try:
            if seq["transport"] == "grpc_asyncio":
                calls = asyncio.run(run_async(seq, gs, hs, payload["package"]))
            else:
                calls = run_sync(seq, gs, hs, payload["package"])
            results.append({"calls": calls, "error": None})
        except Exception as e:  # noqa
            results.append({"calls": [], "error": D.exc_info(e), "traceback": traceback.format_exc()[-1200:]})
            gs.take_calls()
            hs.take_calls()
    gs.stop()
    hs.stop()
    print()
    print(json.dumps(results))


main()
