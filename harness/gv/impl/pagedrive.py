"""C07 driver: call a paged method of an emitted library against the loopback servers and iterate the returned pager.

stdin JSON: {"root": dir, "package": "google.example.library_v1", "extra_paths": [...], "calls": [spec...]}
spec: {"service_module", "client", "transport": "grpc"|"grpc_asyncio"|"rest", "method",
       "request": {"cls": "pkg.types:Name", "b64": ...},
       "call_kwargs": {"timeout": 20.0 | null (explicit None: no deadline), "metadata": [[k, v]], "retry": {"codes": [...]} | "none"},
       "grpc_script": {path: [reply...]}, "http_script": [reply...],
       "mode": "items" | "pages" | "items-break" | "pages-break", "break_after": n,
       "mutate_after_create": {field: value}  (set on the caller's request object right after the pager was returned),
       "list_again": true (after draining, call the method again with the SAME request object and drain that pager too)
                     | "fresh" (the second listing uses a freshly built request; "fresh_client": true also a new client),
       "item_field": name, "is_map": bool, "attr_names": [names]}
Per call the result holds what the *caller* sees (items, or per-page snapshots taken through the pager's own attribute
lookup at each yield) and what the *servers* saw (every call, raw).  Nothing here imports gapic."""
import asyncio, inspect, json, sys, traceback
from gv.impl import drivelib as D


def call_kwargs(spec, is_async):
    kw = {}
    ck = spec.get("call_kwargs") or {}
    if "timeout" in ck:
        kw["timeout"] = ck["timeout"]
    if "metadata" in ck:
        kw["metadata"] = [tuple(x) for x in ck["metadata"]]
    if "retry" in ck and ck["retry"] in (None, "none"):
        kw["retry"] = None          # the caller switches retrying off
    elif "retry" in ck:
        from google.api_core import retry as retries, retry_async, exceptions as core_exceptions
        rc = ck["retry"]
        pred = retries.if_exception_type(*[getattr(core_exceptions, n) for n in rc.get("codes", ["ServiceUnavailable"])])
        cls = retry_async.AsyncRetry if is_async else retries.Retry
        kw["retry"] = cls(initial=0.01, maximum=0.02, multiplier=1.0, predicate=pred, timeout=rc.get("deadline", 30.0))
    return kw


def page_items(page, spec):
    v = getattr(page, spec["item_field"])
    if spec.get("is_map"):
        return [D.encode_value([k, x]) for k, x in v.items()]
    return [D.encode_value(x) for x in v]


def snapshot(pager, spec):
    """Attribute lookup through the pager itself (its __getattr__), never through private state."""
    out = {}
    for n in spec.get("attr_names", []):
        try:
            if n == spec["item_field"]:
                out[n] = {"kind": "list", "items": page_items(pager, spec)}
            else:
                v = getattr(pager, n)
                out[n] = D.encode_value(list(v) if not isinstance(v, (str, bytes, int, float, bool)) and hasattr(v, "__iter__") else v)
        except Exception as e:  # noqa
            out[n] = {"kind": "error", "error": type(e).__name__}
    return out


def run_sync(spec, gs, hs, pkg):
    client = D.make_client(pkg, spec["service_module"], spec["client"], spec["transport"], gs.target, hs.host)
    req = D.build_message(D.resolve(spec["request"]["cls"]), spec["request"]["b64"])
    pager = getattr(client, spec["method"])(request=req, **call_kwargs(spec, False))
    out = {"type": type(pager).__name__, "before": snapshot(pager, spec)}
    for k, v in (spec.get("mutate_after_create") or {}).items():
        setattr(req, k, v)          # the caller goes on using ITS request object while the pager is alive
    limit = spec.get("break_after")
    if spec["mode"] in ("items", "items-break"):
        out["items"] = []
        for x in pager:
            out["items"].append(D.encode_value(list(x) if isinstance(x, tuple) else x))
            if spec["mode"] == "items-break" and len(out["items"]) >= limit:
                break           # the consumer walks away in the middle of the iteration
    else:
        out["pages"] = []
        for k, page in enumerate(pager.pages):
            out["pages"].append({"items": page_items(page, spec), "snapshot": snapshot(pager, spec)})
            if spec["mode"] == "pages-break" and k >= limit:
                break
    out["final"] = snapshot(pager, spec)
    out["caller_request_after"] = D.b64(type(req).serialize(req))
    if spec.get("list_again"):      # a second listing in the same process: with the same request object, or with a FRESH one
        if spec["list_again"] == "fresh":
            req = D.build_message(D.resolve(spec["request"]["cls"]), spec["request"]["b64"])
            if spec.get("fresh_client"):
                client = D.make_client(pkg, spec["service_module"], spec["client"], spec["transport"], gs.target, hs.host)
        pager2 = getattr(client, spec["method"])(request=req, **call_kwargs(spec, False))
        out["again"] = {"items": [D.encode_value(list(x) if isinstance(x, tuple) else x) for x in pager2], "final": snapshot(pager2, spec)}
        out["caller_request_after_again"] = D.b64(type(req).serialize(req))
    return out


async def run_async(spec, gs, hs, pkg):
    client = D.make_client(pkg, spec["service_module"], spec["client"], spec["transport"], gs.target, hs.host)
    req = D.build_message(D.resolve(spec["request"]["cls"]), spec["request"]["b64"])
    pager = getattr(client, spec["method"])(request=req, **call_kwargs(spec, True))
    if inspect.isawaitable(pager):
        pager = await pager
    out = {"type": type(pager).__name__, "before": snapshot(pager, spec)}
    for k, v in (spec.get("mutate_after_create") or {}).items():
        setattr(req, k, v)
    limit = spec.get("break_after")
    if spec["mode"] in ("items", "items-break"):
        out["items"] = []
        async for x in pager:
            out["items"].append(D.encode_value(list(x) if isinstance(x, tuple) else x))
            if spec["mode"] == "items-break" and len(out["items"]) >= limit:
                break
    else:
        out["pages"] = []
        k = 0
        async for page in pager.pages:
            out["pages"].append({"items": page_items(page, spec), "snapshot": snapshot(pager, spec)})
            if spec["mode"] == "pages-break" and k >= limit:
                break
            k += 1
    out["final"] = snapshot(pager, spec)
    out["caller_request_after"] = D.b64(type(req).serialize(req))
    if spec.get("list_again"):
        if spec["list_again"] == "fresh":
            req = D.build_message(D.resolve(spec["request"]["cls"]), spec["request"]["b64"])
        pager2 = getattr(client, spec["method"])(request=req, **call_kwargs(spec, True))
        if inspect.isawaitable(pager2):
            pager2 = await pager2
        out["again"] = {"items": [D.encode_value(list(x) if isinstance(x, tuple) else x) async for x in pager2], "final": snapshot(pager2, spec)}
        out["caller_request_after_again"] = D.b64(type(req).serialize(req))
    return out


def main():
    payload = json.load(sys.stdin)
    sys.path.insert(0, payload["root"])
    for p in payload.get("extra_paths", []):
        sys.path.insert(0, p)
    gs, hs = D.GrpcLoopback(), D.HttpLoopback()
    results = []
    for spec in payload["calls"]:
        gs.set_script(spec.get("grpc_script"))
        hs.set_script(spec.get("http_script"))
        rec = {"ok": True}
        with D.SleepRecorder("max"):
            try:
                if spec["transport"] == "grpc_asyncio":
                    rec["result"] = asyncio.run(run_async(spec, gs, hs, payload["package"]))
                else:
                    rec["result"] = run_sync(spec, gs, hs, payload["package"])
            except Exception as e:  # noqa
                rec["ok"] = False
                rec["error"] = D.exc_info(e)
                rec["traceback"] = traceback.format_exc()[-1500:]
        rec["grpc_calls"] = gs.take_calls()
        rec["http_calls"] = hs.take_calls()
        results.append(rec)
    gs.stop()
    hs.stop()
    print()
    print(json.dumps(results))


main()
