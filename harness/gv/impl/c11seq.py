"""Implementation side of C11's generator-reuse check: several APIs served by ONE gapic Generator object, each response
compared (by the harness) with the response of a fresh Generator for the same request.  Mirrors gapic/cli/generate.py."""
import base64, json, os, sys
from google.protobuf.compiler import plugin_pb2


def build(req_b64):
    from gapic.schema import api
    from gapic.utils import Options
    req = plugin_pb2.CodeGeneratorRequest.FromString(base64.b64decode(req_b64))
    opts = Options.build(req.parameter)
    package = ".".join(os.path.commonprefix([p.package.split(".") for p in req.proto_file if p.name in req.file_to_generate]))
    return api.API.build(req.proto_file, opts=opts, package=package), opts


def names(res):
    return {"names": [f.name for f in res.file], "features": int(res.supported_features)}


def main():
    from gapic.generator import generator
    payload = json.load(sys.stdin)
    out = []
    for seq in payload["sequences"]:
        rec = {"shared": [], "fresh": []}
        try:
            built = [build(b) for b in seq]
            g = generator.Generator(built[0][1])
            for a, o in built:
                rec["shared"].append(names(g.get_response(a, o)))
            for a, o in built:
                rec["fresh"].append(names(generator.Generator(o).get_response(a, o)))
        except Exception as e:  # noqa
            import traceback
            rec["error"] = f"{type(e).__name__}: {e}"[:300] + " | " + traceback.format_exc()[-600:]
        out.append(rec)
    print(json.dumps(out))


main()
