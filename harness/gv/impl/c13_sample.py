"""C13: HttpRule.sample_request(method) of every http-bound method of a request (real API.build)."""
import base64, json, sys
from google.protobuf.compiler import plugin_pb2
from gapic.schema import api
from gapic.utils import Options


def main():
    q = json.load(sys.stdin)
    req = plugin_pb2.CodeGeneratorRequest.FromString(base64.b64decode(q["request_b64"]))
    import os
    package = os.path.commonprefix([p.package for p in req.proto_file if p.name in req.file_to_generate]).rstrip(".")
    a = api.API.build(req.proto_file, opts=Options.build(req.parameter), package=package)
    out = []
    for svc in a.services.values():
        for m in svc.methods.values():
            for i, rule in enumerate(m.http_options):
                try:
                    sample = rule.sample_request(m)
                except Exception as e:  # noqa
                    out.append({"method": m.name, "binding": i, "error": type(e).__name__})
                    continue
                fields = []
                for f, path, tmpl in rule.path_fields(m):
                    o = sample
                    for p in path.split("."):
                        o = o[p]
                    t = f.field_pb.type
                    kind = "str" if t == 9 else ("bool" if t == 8 else ("int" if t in (3, 4, 5, 6, 7, 13, 15, 16, 17, 18) else "other"))
                    fields.append({"path": path, "attr": f.name, "kind": kind, "template": tmpl, "value": o if kind != "other" else repr(o)})
                out.append({"method": m.name, "binding": i, "uri": rule.uri, "fields": fields})
    print(json.dumps(out))


main()
