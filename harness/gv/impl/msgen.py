"""Implementation side of C18's generation outcome through the REAL generator path: API.build followed by
Generator.get_response (validation of publishing.method_settings is lazy: it runs when a per-service template evaluates
api.all_method_settings on the view of the sub-package that owns the service).

stdin JSON:  [{"request_b64": ...}, ...]
stdout JSON: [{"outcome": "accepted", "populated": {"<file>": {"<method>": [fields assigned str(uuid.uuid4())]}}} |
              {"outcome": "rejected", "errors": {selector: [message, ...]}} |
              {"outcome": "crashed", "exception": class name, "message": ...}]"""
import ast, base64, json, os, re, sys
import yaml
from google.protobuf.compiler import plugin_pb2
from gapic import generator
from gapic.schema import api
from gapic.utils import Options


def populated(res):
    out = {}
    for f in res.file:
        if not re.search(r"/services/\w+/(client|async_client)\.py$", f.name):
            continue
        tree = ast.parse(f.content)
        per = {}
        for cls in [n for n in tree.body if isinstance(n, ast.ClassDef)]:
            for fn in [n for n in cls.body if isinstance(n, (ast.FunctionDef, ast.AsyncFunctionDef))]:
                fields = [ast.unparse(n.targets[0])[len("request."):] for n in ast.walk(fn)
                          if isinstance(n, ast.Assign) and ast.unparse(n.value) == "str(uuid.uuid4())"]
                if fields:
                    per[fn.name] = fields
        if per:
            out[f.name] = per
    return out


def one(case):
    req = plugin_pb2.CodeGeneratorRequest.FromString(base64.b64decode(case["request_b64"]))
    opts = Options.build(req.parameter)
    package = os.path.commonprefix([p.package for p in req.proto_file if p.name in req.file_to_generate]).rstrip(".")
    try:
        schema = api.API.build(req.proto_file, opts=opts, package=package)
        res = generator.Generator(opts).get_response(schema, opts)
    except api.MethodSettingsError as e:
        return {"outcome": "rejected", "errors": yaml.safe_load(e.args[0])}
    except Exception as e:  # noqa
        return {"outcome": "crashed", "exception": type(e).__name__, "message": str(e)[:300]}
    return {"outcome": "accepted", "populated": populated(res), "nfiles": len(res.file)}


def main():
    out = []
    for case in json.load(sys.stdin):
        try:
            out.append(one(case))
        except Exception as e:  # noqa
            out.append({"outcome": "harness-error", "exception": type(e).__name__, "message": str(e)[:500]})
    print()
    print(json.dumps(out))


main()
