"""Implementation side of C08 at schema level: build gapic's API exactly as gapic.cli.generate does and report, per
method, what _maybe_get_lro decided: the proto names of the two LRO types, a raw Operation, a plain method, or
the exception that aborted the build.

stdin: [{"request_b64": ...}, ...]
stdout (last line): [{"ok": True, "methods": {"Service.Rpc": {"lro": [resp, meta] | None, "output": proto name,
                      "client_output": str, "client_output_async": str}}} | {"ok": False, "error": cls, "arg": str}]"""
import base64, json, os, sys
from google.protobuf.compiler import plugin_pb2
from gapic.schema import api as gapi
from gapic.utils import Options


def facts(req_b64):
    req = plugin_pb2.CodeGeneratorRequest.FromString(base64.b64decode(req_b64))
    opts = Options.build(req.parameter)
    package = os.path.commonprefix([p.package for p in req.proto_file if p.name in req.file_to_generate]).rstrip(".")
    a = gapi.API.build(req.proto_file, opts=opts, package=package)
    out = {"ok": True, "methods": {}}
    for s in a.services.values():
        for m in s.methods.values():
            out["methods"][f"{s.name}.{m.name}"] = {
                "lro": [m.lro.response_type.ident.proto, m.lro.metadata_type.ident.proto] if m.lro else None,
                "output": m.output.ident.proto,
                "client_output": str(m.client_output.ident), "client_output_async": str(m.client_output_async.ident),
                "has_lro": bool(s.has_lro),
            }
    return out


def main():
    res = []
    for c in json.load(sys.stdin):
        try:
            res.append(facts(c["request_b64"]))
        except Exception as e:  # noqa
            res.append({"ok": False, "error": type(e).__name__, "arg": (e.args[0] if e.args and isinstance(e.args[0], str) else ""),
                        "message": str(e)[:300]})
    print()
    print(json.dumps(res))


main()
