"""C12 pure-function side: the real disambiguation functions of /repo on given words/paths."""
import json, sys
from google.protobuf import descriptor_pb2 as dp, descriptor as _d
from google.api import http_pb2
from gapic.schema import wrappers, metadata, naming, api
from gapic.utils import convert_uri_fieldnames, Options
from test_utils.test_utils import make_method


def main():
    q = json.load(sys.stdin)
    nm = naming.NewNaming(proto_package="a.v1", name="A", version="v1")
    addr = metadata.Address(name="M", package=("a", "v1"), module="m", api_naming=nm)
    out = {"field_attr": [], "header": [], "uri": [], "body": [], "method": [], "transport": [], "json": [], "fnames": [], "alias": []}
    for w in q["words"]:
        f = wrappers.Field(field_pb=dp.FieldDescriptorProto(name=w), meta=metadata.Metadata(address=addr))
        out["field_attr"].append(f.name)
        out["json"].append([_d._ToJsonName(w), _d._ToJsonName(f.name)])
        r = http_pb2.HttpRule(post="/v1/x", body=w)
        out["body"].append(wrappers.HttpRule.try_parse_http_rule(r).body)
    for p in q["paths"]:
        out["header"].append(wrappers.FieldHeader(p).disambiguated)
        out["uri"].append(convert_uri_fieldnames("/v1/{" + p + "=items/*}/z"))
    for n in q["methods"]:
        m = make_method(n)
        out["method"].append(m.client_method_name)
        out["transport"].append(m.transport_safe_name)
    for names in q["fname_lists"]:
        fds = [dp.FileDescriptorProto(name=f"a/v1/{n}.proto", package="a.v1") for n in names]
        a = api.API.build(fds, package="a.v1", opts=Options.build(""))
        out["fnames"].append([fd.name[len("a/v1/"):-len(".proto")] for fd in fds])
    for pkg, ver, mod, coll in q["aliases"]:
        ad = metadata.Address(name="X", package=tuple(pkg), module=mod, api_naming=naming.NewNaming(proto_package="z", version=ver),
                              collisions=frozenset([mod] if coll else []))
        out["alias"].append(ad.module_alias)
    print(json.dumps(out))


main()
