"""Implementation side of C06's pure part (child process; imports gapic from the tree under test).

stdin JSON:
  {"templates": [{"template": str, "field": str, "values": [str...]}...],
   "https":     [{"get": str, "put": str, "post": str, "delete": str, "patch": str, "custom": str}...],
   "raws":      [str...],                       # FieldHeader(raw).disambiguated
   "headers":   [[[k, v]...]...],               # google.api_core routing_header.to_routing_header(dict)
   "splits":    [[sep, s]...], "escapes": [str...]}
stdout JSON (last line): the same keys with the observations."""
import json, re, sys
from google.protobuf import descriptor_pb2
from google.api import annotations_pb2
from google.api_core.gapic_v1 import routing_header
from gapic.schema import wrappers


def err(e):
    return {"error": type(e).__name__}


def one_template(c):
    rp = wrappers.RoutingParameter(c["field"], c["template"])
    rec = {}
    try:
        rec["convert"] = rp._convert_to_regex(c["template"])
    except Exception as e:  # noqa
        rec["convert"] = err(e)
    try:
        rx = rp.to_regex()
        rec["pattern"] = rx.pattern
        rec["repr"] = repr(rx)
    except Exception as e:  # noqa
        rx = None
        rec["pattern"] = err(e)
        rec["repr"] = None
    try:
        rec["key"] = rp.key
    except Exception as e:  # noqa
        rec["key"] = err(e)
    try:
        rec["attr"] = rp.disambiguated_field
    except Exception as e:  # noqa
        rec["attr"] = err(e)
    try:
        rec["sample_request"] = rp.sample_request
    except Exception as e:  # noqa
        rec["sample_request"] = err(e)
    ms = []
    for v in c.get("values", []):
        if rx is None or not isinstance(rec["key"], str):
            ms.append({"error": "noregex"})
            continue
        # exactly the statements of the emitted block
        header_params = {}
        try:
            if c["template"]:
                regex_match = rx.match(v)
                if regex_match and regex_match.group(rec["key"]):
                    header_params[rec["key"]] = regex_match.group(rec["key"])
                ms.append({"matched": regex_match is not None,
                           "group": regex_match.group(rec["key"]) if regex_match else None,
                           "contribution": list(header_params.items())})
            else:
                if v:
                    header_params[rec["key"]] = v
                ms.append({"matched": None, "group": None, "contribution": list(header_params.items())})
        except Exception as e:  # noqa
            ms.append(err(e))
    rec["matches"] = ms
    return rec


def one_http(h):
    opts = descriptor_pb2.MethodOptions()
    rule = opts.Extensions[annotations_pb2.http]
    for verb in ("get", "put", "post", "delete", "patch"):
        if h.get(verb):
            setattr(rule, verb, h[verb])
    if h.get("custom"):
        rule.custom.kind = "frob"
        rule.custom.path = h["custom"]
    pb = descriptor_pb2.MethodDescriptorProto(name="M", options=opts)
    m = wrappers.Method(method_pb=pb, input=None, output=None)
    try:
        fh = m.field_headers
        return {"raw": [f.raw for f in fh], "dis": [f.disambiguated for f in fh]}
    except Exception as e:  # noqa
        return err(e)


def main():
    p = json.load(sys.stdin)
    out = {"templates": [one_template(c) for c in p.get("templates", [])],
           "https": [one_http(h) for h in p.get("https", [])],
           "raws": [wrappers.FieldHeader(r).disambiguated for r in p.get("raws", [])],
           "headers": [routing_header.to_routing_header(dict((k, v) for k, v in d)) for d in p.get("headers", [])],
           "splits": [s.split(sep) for sep, s in p.get("splits", [])],
           "escapes": [re.escape(s) for s in p.get("escapes", [])]}
    print(json.dumps(out))


main()
