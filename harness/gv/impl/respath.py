"""Implementation side of C19's pure part: wrappers.MessageType on a resource pattern,
then Python's str.format / re.match exactly as the emitted helpers use them."""
import json, re, sys
from google.protobuf import descriptor_pb2
from google.api import resource_pb2
from gapic.schema import wrappers, metadata


def mk(pattern):
    opts = descriptor_pb2.MessageOptions()
    r = opts.Extensions[resource_pb2.resource]
    r.type = "example.com/Thing"
    r.pattern.append(pattern)
    pb = descriptor_pb2.DescriptorProto(name="Thing", options=opts)
    return wrappers.MessageType(message_pb=pb, fields={}, nested_enums={}, nested_messages={},
                                meta=metadata.Metadata(address=metadata.Address(name="Thing", package=("a",), module="m")))


def main():
    cases = json.load(sys.stdin)
    out = []
    for c in cases:
        m = mk(c["pattern"])
        rec = {"args": list(m.resource_path_args), "fmt": m.resource_path_formatted, "regex": m.path_regex_str,
               "built": [], "parsed": []}
        for vals in c.get("vals", []):
            try:
                rec["built"].append(rec["fmt"].format(**dict(vals)))
            except Exception as e:  # noqa
                rec["built"].append({"error": type(e).__name__})
        for path in c.get("paths", []):
            try:
                mm = re.match(rec["regex"], path)
                rec["parsed"].append(list(mm.groupdict().items()) if mm else [])
            except Exception as e:  # noqa
                rec["parsed"].append({"error": type(e).__name__})
        out.append(rec)
    print(json.dumps(out))


main()
