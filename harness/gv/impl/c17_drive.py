"""C17 child: import an emitted library, report which of the mixin method names each client class defines, then run the
requested mixin calls against the loopback gRPC / HTTP servers of gv.impl.drivelib.

stdin: {"root": dir, "package": "google.example.widgets_v1", "names": [snake names],
        "services": [{"module": "widgets", "client": "WidgetsClient", "async_client": "WidgetsAsyncClient"}],
        "calls": [{"service_module", "client", "transport": grpc|grpc_asyncio|rest, "method", "cls": "mod:Name", "b64",
                   "grpc_reply_b64": str|None, "http_reply": json str}]}
stdout (last line): {"import_ok", "import_error", "presence": {class: {name: "class"|"inherited"|null}}, "results": [...]}"""
import asyncio, importlib, inspect, json, sys, traceback
from gv.impl import drivelib as D


def presence(cls, names):
    out = {}
    for n in names:
        if n in vars(cls):
            out[n] = "class"
        elif hasattr(cls, n):
            out[n] = "inherited"
        else:
            out[n] = None
    return out


def to_kwargs(m):
    """The message as the dict a caller would pass instead of it: set fields by name, sub-messages as dicts."""
    out = {}
    for fd, v in m.ListFields():
        if fd.type == fd.TYPE_MESSAGE:
            out[fd.name] = [to_kwargs(x) for x in v] if fd.label == fd.LABEL_REPEATED else to_kwargs(v)
        else:
            out[fd.name] = list(v) if fd.label == fd.LABEL_REPEATED else v
    return out


def run_call(spec, gs, hs, pkg):
    msg = D.build_message(D.resolve(spec["cls"]), spec["b64"])
    if spec.get("as_dict"):
        msg = to_kwargs(msg)

    def mk():
        return D.make_client(pkg, spec["service_module"], spec["client"], spec["transport"], gs.target, hs.host)

    async def arun():
        client = mk()          # the aio channel must be created inside the running loop
        res = getattr(client, spec["method"])(request=msg)
        if inspect.isawaitable(res):
            res = await res
        return res

    if spec["transport"] == "grpc_asyncio":
        res = asyncio.run(arun())
    else:
        res = getattr(mk(), spec["method"])(request=msg)
    return D.encode_value(res)


def main():
    payload = json.load(sys.stdin)
    sys.path.insert(0, payload["root"])
    out = {"import_ok": True, "presence": {}, "results": []}
    try:
        for s in payload["services"]:
            mod = importlib.import_module(f"{payload['package']}.services.{s['module']}")
            for cn in (s["client"], s["async_client"]):
                cls = getattr(mod, cn, None)
                out["presence"][cn] = presence(cls, payload["names"]) if cls is not None else None
    except Exception as e:  # noqa
        out["import_ok"] = False
        out["import_error"] = traceback.format_exc()[-1500:]
        print()
        print(json.dumps(out))
        return
    gs, hs = D.GrpcLoopback(), D.HttpLoopback()
    for spec in payload["calls"]:
        if spec.get("grpc_reply_b64") is not None:
            gs.default_reply = {"messages": [spec["grpc_reply_b64"]]}
        else:
            gs.default_reply = {"messages": [""]}
        hs.default_reply = {"status": 200, "body": spec.get("http_reply", "{}")}
        rec = {"ok": True}
        try:
            rec["result"] = run_call(spec, gs, hs, payload["package"])
        except Exception as e:  # noqa
            rec["ok"] = False
            rec["error"] = D.exc_info(e)
            rec["traceback"] = traceback.format_exc()[-1200:]
        rec["grpc_calls"] = gs.take_calls()
        rec["http_calls"] = hs.take_calls()
        out["results"].append(rec)
    gs.stop()
    hs.stop()
    print()
    print(json.dumps(out))


main()
