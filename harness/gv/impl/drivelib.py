"""Loopback servers and client construction for driving an emitted library (child process side).

gRPC: a real grpc.server on 127.0.0.1 with one generic stream-stream handler: it records, per call, the full
method path, every request message as raw bytes, the invocation metadata and the remaining deadline, and answers
from a script (a list of replies per method path; each reply is a list of raw response messages or a status code).
REST: a real http.server recording verb, path, query, headers and body, answering from a script.
Nothing here imports gapic; it runs with the emitted package on sys.path."""
import base64, importlib, json, threading, time, http.server, socketserver, urllib.parse, asyncio
from concurrent import futures
import grpc


def b64(b):
    return base64.b64encode(b).decode()


def unb64(s):
    return base64.b64decode(s)


class GrpcLoopback:
    def __init__(self, script=None, default_reply=None):
        self.calls = []
        self.script = {k: list(v) for k, v in (script or {}).items()}
        self.default_reply = default_reply or {"messages": [""]}
        self.lock = threading.Lock()
        outer = self

        class H(grpc.GenericRpcHandler):
            def service(self, hcd):
                method = hcd.method

                def handler(req_iter, ctx):
                    rec = {"path": method, "requests": [], "metadata": [[k, v if isinstance(v, str) else b64(v)] for k, v in ctx.invocation_metadata()],
                           "time_remaining": ctx.time_remaining(), "t": time.monotonic()}
                    with outer.lock:
                        outer.calls.append(rec)
                        q = outer.script.get(method)
                        reply = q.pop(0) if q else outer.default_reply
                    n_expected = reply.get("read_requests", None)
                    for r in req_iter:
                        rec["requests"].append(b64(r))
                        if n_expected is not None and len(rec["requests"]) >= n_expected:
                            break
                    if "code" in reply:
                        ctx.abort(getattr(grpc.StatusCode, reply["code"]), reply.get("details", "scripted"))
                    for m in reply.get("messages", []):
                        yield unb64(m)

                return grpc.stream_stream_rpc_method_handler(handler)

        self.server = grpc.server(futures.ThreadPoolExecutor(8))
        self.server.add_generic_rpc_handlers([H()])
        self.port = self.server.add_insecure_port("127.0.0.1:0")
        self.server.start()
        self.target = f"127.0.0.1:{self.port}"

    def set_script(self, script):
        with self.lock:
            self.script = {k: list(v) for k, v in (script or {}).items()}

    def take_calls(self):
        with self.lock:
            c, self.calls = self.calls, []
        return c

    def stop(self):
        self.server.stop(0)


class HttpLoopback:
    def __init__(self, script=None, default_reply=None):
        self.calls = []
        self.script = list(script or [])
        self.default_reply = default_reply or {"status": 200, "body": "{}"}
        self.lock = threading.Lock()
        outer = self

        class Handler(http.server.BaseHTTPRequestHandler):
            protocol_version = "HTTP/1.1"

            def _do(self):
                n = int(self.headers.get("Content-Length") or 0)
                body = self.rfile.read(n) if n else b""
                u = urllib.parse.urlsplit(self.path)
                rec = {"verb": self.command, "path": u.path, "raw_query": u.query,
                       "query": urllib.parse.parse_qsl(u.query, keep_blank_values=True),
                       "headers": [[k, v] for k, v in self.headers.items()], "body": body.decode("utf-8", "replace")}
                with outer.lock:
                    outer.calls.append(rec)
                    reply = outer.script.pop(0) if outer.script else outer.default_reply
                data = reply.get("body", "{}").encode()
                self.send_response(reply.get("status", 200))
                self.send_header("Content-Type", "application/json")
                self.send_header("Content-Length", str(len(data)))
                self.end_headers()
                self.wfile.write(data)

            do_GET = do_POST = do_PUT = do_PATCH = do_DELETE = _do

            def log_message(self, *a):
                pass

        class Srv(socketserver.ThreadingMixIn, http.server.HTTPServer):
            daemon_threads = True

        self.httpd = Srv(("127.0.0.1", 0), Handler)
        self.port = self.httpd.server_address[1]
        self.host = f"127.0.0.1:{self.port}"
        threading.Thread(target=self.httpd.serve_forever, daemon=True).start()

    def set_script(self, script):
        with self.lock:
            self.script = list(script or [])

    def take_calls(self):
        with self.lock:
            c, self.calls = self.calls, []
        return c

    def stop(self):
        self.httpd.shutdown()


def transports_module(pkg_name, service_module):
    return importlib.import_module(f"{pkg_name}.services.{service_module}.transports")


def make_client(pkg_name, service_module, client_name, kind, grpc_target=None, http_host=None, client_kwargs=None):
    """kind: grpc | grpc_asyncio | rest.  Returns the client bound to the loopback server."""
    from google.auth.credentials import AnonymousCredentials
    svc = importlib.import_module(f"{pkg_name}.services.{service_module}")
    tm = transports_module(pkg_name, service_module)
    cls = getattr(svc, client_name)
    tname = [n for n in dir(tm) if n.endswith({"grpc": "GrpcTransport", "grpc_asyncio": "GrpcAsyncIOTransport", "rest": "RestTransport"}[kind])
             and not n.startswith("_")]
    tcls = getattr(tm, sorted(tname, key=len)[0])
    if kind == "grpc":
        tr = tcls(channel=grpc.insecure_channel(grpc_target))
    elif kind == "grpc_asyncio":
        tr = tcls(channel=grpc.aio.insecure_channel(grpc_target))
    else:
        tr = tcls(host=http_host, url_scheme="http", credentials=AnonymousCredentials())
    return cls(transport=tr, **(client_kwargs or {}))


def encode_value(v):
    """A returned value as JSON: messages as base64 wire bytes (so the parent decodes them under the *input* descriptors)."""
    if v is None:
        return {"kind": "none"}
    if hasattr(type(v), "serialize") and hasattr(type(v), "pb"):
        return {"kind": "msg", "type": type(v).__module__ + "." + type(v).__qualname__, "b64": b64(type(v).serialize(v))}
    if hasattr(v, "SerializeToString"):
        return {"kind": "msg", "type": type(v).__module__ + "." + type(v).__qualname__, "b64": b64(v.SerializeToString())}
    if isinstance(v, (str, int, float, bool)):
        return {"kind": "scalar", "value": v, "pytype": type(v).__name__}
    if isinstance(v, bytes):
        return {"kind": "bytes", "b64": b64(v)}
    if isinstance(v, (list, tuple)):
        return {"kind": "list", "items": [encode_value(x) for x in v]}
    if hasattr(v, "items") and callable(v.items):
        return {"kind": "map", "items": [[encode_value(k), encode_value(x)] for k, x in v.items()]}
    return {"kind": "other", "type": type(v).__module__ + "." + type(v).__qualname__, "repr": repr(v)[:200]}


def exc_info(e):
    d = {"exception": type(e).__name__, "mro": [c.__name__ for c in type(e).__mro__][:6], "message": str(e)[:500]}
    code = getattr(e, "grpc_status_code", None)
    if code is not None:
        d["grpc_status_code"] = getattr(code, "name", str(code))
    if hasattr(e, "code") and not callable(e.code):
        d["code"] = str(e.code)
    return d


def resolve(path):
    """'pkg.mod:Name.Nested' or 'pkg.mod.Name' -> object"""
    if ":" in path:
        mod, attr = path.split(":")
        o = importlib.import_module(mod)
        for a in attr.split("."):
            o = getattr(o, a)
        return o
    mod, _, name = path.rpartition(".")
    return getattr(importlib.import_module(mod), name)


def build_message(cls, data_b64):
    if hasattr(cls, "deserialize"):
        return cls.deserialize(unb64(data_b64))
    m = cls()
    m.ParseFromString(unb64(data_b64))
    return m


class SleepRecorder:
    """Patches time.sleep / asyncio.sleep / random.uniform so retry and polling loops run instantly and are observable."""

    def __init__(self, jitter="max"):
        self.sleeps = []
        self.jitter = jitter

    def __enter__(self):
        import random
        self._ts, self._as, self._ru = time.sleep, asyncio.sleep, random.uniform
        rec = self

        def fake_sleep(d):
            rec.sleeps.append(float(d))

        async def fake_asleep(d, *a, **k):
            rec.sleeps.append(float(d))
            await rec._as(0)

        def fake_uniform(a, b):
            rec.sleeps_bounds = getattr(rec, "sleeps_bounds", []) + [[a, b]]
            return b if rec.jitter == "max" else a

        time.sleep, asyncio.sleep, random.uniform = fake_sleep, fake_asleep, fake_uniform
        return self

    def __exit__(self, *a):
        import random
        time.sleep, asyncio.sleep, random.uniform = self._ts, self._as, self._ru
