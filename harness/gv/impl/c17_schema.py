"""Implementation side of C17 (schema level): build gapic's API object exactly as gapic.cli.generate does and report what
API.mixin_api_methods / has_*_mixin / _has_iam_overrides / mixin_http_options / mixin_api_signatures compute, plus
uri_conv.convert_uri_fieldnames on extra URIs. Nothing is emitted here.

stdin: {"cases": [{"request_b64": ...}], "uris": [...]}   (the request's parameter names the service yaml file)
stdout (last line): {"cases": [...], "uris": [...]}"""
import base64, json, os, sys, traceback
from google.protobuf.compiler import plugin_pb2
from gapic.schema import api as gapi
from gapic.utils import Options
from gapic import utils


def facts(req_b64):
    req = plugin_pb2.CodeGeneratorRequest.FromString(base64.b64decode(req_b64))
    opts = Options.build(req.parameter)
    package = os.path.commonprefix([p.package for p in req.proto_file if p.name in req.file_to_generate]).rstrip(".")
    a = gapi.API.build(req.proto_file, opts=opts, package=package)
    out = {"ok": True,
           "add_iam_methods": bool(opts.add_iam_methods),
           "transport": list(opts.transport),
           "names": list(a.mixin_api_methods.keys()),
           "has_iam": bool(a.has_iam_mixin), "has_loc": bool(a.has_location_mixin), "has_ops": bool(a.has_operations_mixin),
           "iam_overrides": bool(a._has_iam_overrides),
           "services": [[m for m in s.methods] for s in a.services.values()],
           "service_names": [s.name for s in a.services.values()]}
    try:
        out["http"] = [[k, [[r.method, r.uri, r.body] for r in v]] for k, v in a.mixin_http_options.items()]
    except Exception as e:  # noqa
        out["http_error"] = type(e).__name__
    try:
        out["sigs"] = [[k, v.request_type, v.response_type] for k, v in a.mixin_api_signatures.items()]
    except Exception as e:  # noqa
        out["sigs_error"] = type(e).__name__
    return out


def main():
    payload = json.load(sys.stdin)
    res = []
    for c in payload.get("cases", []):
        try:
            res.append(facts(c["request_b64"]))
        except Exception as e:  # noqa
            res.append({"ok": False, "error": type(e).__name__, "message": str(e)[:300], "traceback": traceback.format_exc()[-1500:]})
    uris = []
    for u in payload.get("uris", []):
        try:
            uris.append(utils.convert_uri_fieldnames(u))
        except Exception as e:  # noqa
            uris.append({"error": type(e).__name__})
    print()
    print(json.dumps({"cases": res, "uris": uris}))


main()
