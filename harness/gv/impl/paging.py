"""Implementation side of C07's classification part: build gapic's API schema (API.build, exactly as gapic.cli.generate
does) from a CodeGeneratorRequest and report, for every method, what Method.paged_result_field decided.

stdin JSON:  [{"request_b64": ...}, ...]
stdout JSON: [{"methods": {"<Service>.<Rpc>": {"paged": name|None, "map": bool, "primitive": bool,
                                               "client_output": str, "client_output_async": str}} | {"error": ...}]"""
import base64, json, os, sys, traceback
from google.protobuf.compiler import plugin_pb2
from gapic.schema import api
from gapic.utils import Options


def one(case):
    req = plugin_pb2.CodeGeneratorRequest.FromString(base64.b64decode(case["request_b64"]))
    opts = Options.build(req.parameter)
    package = os.path.commonprefix([p.package for p in req.proto_file if p.name in req.file_to_generate]).rstrip(".")
    schema = api.API.build(req.proto_file, opts=opts, package=package)
    out = {}
    for sname, svc in schema.services.items():
        for mname, m in svc.methods.items():
            f = m.paged_result_field
            out[f"{svc.name}.{mname}"] = {
                "paged": None if f is None else f.name,
                "map": bool(f.map) if f is not None else False,
                "primitive": bool(f.is_primitive) if f is not None else False,
                "client_output": str(m.client_output.ident.name),
                "client_output_async": str(m.client_output_async.ident.name),
            }
    return {"methods": out}


def main():
    res = []
    for case in json.load(sys.stdin):
        try:
            res.append(one(case))
        except Exception as e:  # noqa
            res.append({"error": type(e).__name__, "message": str(e)[:300], "traceback": traceback.format_exc()[-800:]})
    print()
    print(json.dumps(res))


main()
