"""Implementation side of C16 (T2): run API.build exactly as gapic.cli.generate does and dump what the third
pass left: per proto the keys of all_messages / all_enums / messages / enums, services with their methods,
the internal marks and client names, plus the address allow-list (recorded by wrapping
Proto.prune_messages_for_selective_generation in THIS process; /repo is not touched).

stdin JSON: [{"request_b64": ..., "parameter": "service-yaml=/path,..."}]
stdout (last line) JSON: [{"ok": true, "package":..., "protos": [...], "allowlist": [...]|null} |
                          {"ok": false, "error": "ClientLibrarySettingsError", "detail": {...}|str}]"""
import base64, json, os, sys, traceback

import yaml
from google.protobuf.compiler import plugin_pb2
from gapic.schema import api
from gapic.utils import Options

_recorded = []
_orig_prune = api.Proto.prune_messages_for_selective_generation


def _prune(self, *, address_allowlist):
    _recorded.append(sorted({a.proto for a in address_allowlist}))
    return _orig_prune(self, address_allowlist=address_allowlist)


api.Proto.prune_messages_for_selective_generation = _prune

REASONS = {"Method does not exist.": "notfound", "Mismatched version for method.": "mismatch"}


def settings_error_detail(text):
    """yaml.dump(all_errors) -> {version: "dup" | {method: "notfound"|"mismatch"}} (fail-closed on anything else)"""
    data = yaml.safe_load(text)
    out = {}
    for version, errs in data.items():
        if errs == ["Duplicate version"]:
            out[version] = "dup"
            continue
        if not (isinstance(errs, list) and len(errs) == 1 and isinstance(errs[0], dict) and list(errs[0]) == ["selective_gapic_generation"]):
            raise ValueError(f"unexpected error shape for {version}: {errs!r}")
        out[version] = {m: REASONS[r] for m, r in errs[0]["selective_gapic_generation"].items()}
    return out


def one(case):
    del _recorded[:]
    req = plugin_pb2.CodeGeneratorRequest.FromString(base64.b64decode(case["request_b64"]))
    opts = Options.build(case.get("parameter", ""))
    package = os.path.commonprefix([p.package for p in req.proto_file if p.name in req.file_to_generate]).rstrip(".")
    try:
        schema = api.API.build(req.proto_file, opts=opts, package=package)
    except api.ClientLibrarySettingsError as e:
        try:
            detail = settings_error_detail(str(e))
        except Exception as e2:  # noqa
            detail = f"unparsed: {e2!r}: {str(e)[:300]}"
        return {"ok": False, "error": "ClientLibrarySettingsError", "detail": detail}
    except RecursionError:
        return {"ok": False, "error": "RecursionError", "detail": ""}
    except Exception as e:  # noqa
        return {"ok": False, "error": type(e).__name__, "detail": traceback.format_exc()[-800:]}
    protos = []
    for name, p in schema.all_protos.items():
        protos.append({
            "name": name, "target": bool(p.file_to_generate), "in_api_protos": name in schema.protos,
            "messages": list(p.all_messages), "enums": list(p.all_enums),
            "top": [m.ident.proto for m in p.messages.values()], "top_enums": [e.ident.proto for e in p.enums.values()],
            "services": [{
                "addr": s.meta.address.proto, "name": s.name, "client_name": s.client_name,
                "async_client_name": s.async_client_name, "is_internal": bool(s.is_internal),
                "methods": [{"name": m.name, "addr": m.ident.proto, "client_method_name": m.client_method_name,
                             "is_internal": bool(m.is_internal)} for m in s.methods.values()],
            } for s in p.services.values()],
        })
    al = None
    if _recorded:
        if any(x != _recorded[0] for x in _recorded):
            return {"ok": False, "error": "HarnessError", "detail": "allow-list differs between protos"}
        al = _recorded[0]
    return {"ok": True, "package": package, "proto_package": schema.naming.proto_package, "protos": protos, "allowlist": al,
            "all_methods": sorted(schema.all_methods)}


def main():
    cases = json.load(sys.stdin)
    out = [one(c) for c in cases]
    print()
    print(json.dumps(out))


main()
