"""Implementation side of C18's generation-time part: build gapic's API schema exactly as gapic.cli.generate does
(Options.build on the request parameter, which names the service YAML; API.build) and evaluate API.all_method_settings,
the property every client template reads first.

stdin JSON:  [{"request_b64": ...}, ...]
stdout JSON: [{"outcome": "accepted", "selectors": {selector: [auto fields]}} |
              {"outcome": "rejected", "errors": {selector: [message, ...]}} |
              {"outcome": "crashed", "exception": class name, "message": ...}]"""
import base64, json, os, sys
import yaml
from google.protobuf.compiler import plugin_pb2
from gapic.schema import api
from gapic.utils import Options


def one(case):
    req = plugin_pb2.CodeGeneratorRequest.FromString(base64.b64decode(case["request_b64"]))
    opts = Options.build(req.parameter)
    package = os.path.commonprefix([p.package for p in req.proto_file if p.name in req.file_to_generate]).rstrip(".")
    schema = api.API.build(req.proto_file, opts=opts, package=package)
    try:
        ms = schema.all_method_settings
    except api.MethodSettingsError as e:
        return {"outcome": "rejected", "errors": yaml.safe_load(e.args[0])}
    except Exception as e:  # noqa
        return {"outcome": "crashed", "exception": type(e).__name__, "message": str(e)[:300]}
    return {"outcome": "accepted", "selectors": {k: list(v.auto_populated_fields) for k, v in ms.items()}}


def main():
    res = []
    for case in json.load(sys.stdin):
        try:
            res.append(one(case))
        except Exception as e:  # noqa
            res.append({"outcome": "harness-error", "exception": type(e).__name__, "message": str(e)[:500]})
    print()
    print(json.dumps(res))


main()
