"""C04 child: the generator's pure http-rule functions on given inputs (imports gapic from the tree under test).

stdin JSON: {"uris": [str], "rules": [{"pat": "none"|"custom"|"verb", "verb", "uri", "body"}], "names": [str]}
stdout JSON: {"uris": [str], "rules": [null | [method, uri, body|null]], "camel": [str]}"""
import json, sys
from google.api import http_pb2
from gapic import utils
from gapic.schema import wrappers


def main():
    p = json.load(sys.stdin)
    out = {"uris": [], "rules": [], "camel": []}
    for u in p.get("uris", []):
        try:
            out["uris"].append(utils.convert_uri_fieldnames(u))
        except Exception as e:  # noqa
            out["uris"].append(f"<raised {type(e).__name__}>")
    for r in p.get("rules", []):
        h = http_pb2.HttpRule()
        if r["pat"] == "verb":
            setattr(h, r["verb"], r["uri"])
        elif r["pat"] == "custom":
            h.custom.kind, h.custom.path = "HEAD", "/x"
        if r.get("body"):
            h.body = r["body"]
        try:
            x = wrappers.HttpRule.try_parse_http_rule(h)
            out["rules"].append(None if x is None else [x.method, x.uri, x.body])
        except Exception as e:  # noqa
            out["rules"].append({"error": f"{type(e).__name__}: {str(e)[:120]}"})
    out["camel"] = [utils.to_camel_case(n) for n in p.get("names", [])]
    print(json.dumps(out))


main()
