"""C01 pure side: the real Address.python_import / in_api_package / subpackage for given namings and addresses."""
import json, sys
from gapic.schema import metadata, naming


def main():
    q = json.load(sys.stdin)
    out = []
    for c in q["cases"]:
        n = naming.NewNaming(name=c["name"], namespace=tuple(c["namespace"]), version=c["version"], proto_package=c["api_package"],
                             proto_plus_deps=tuple(c["ppdeps"]))
        row = {"mod_ns": list(n.module_namespace), "vmod": n.versioned_module_name, "addresses": []}
        for pkg, mod in c["addresses"]:
            a = metadata.Address(name="Thing", module=mod, package=tuple(p for p in pkg.split(".") if p), api_naming=n)
            try:
                imp = a.python_import
                row["addresses"].append({"ok": True, "package": list(imp.package), "module": imp.module, "in_api": a.in_api_package,
                                         "sub": list(a.subpackage), "proto_plus": a.is_proto_plus_type})
            except Exception as e:  # noqa
                row["addresses"].append({"ok": False, "error": f"{type(e).__name__}: {e}"})
        out.append(row)
    print(json.dumps(out))


main()
