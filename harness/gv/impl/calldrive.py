"""Call driver for C05 / C03: runs calls against an emitted library bound to the real loopback gRPC server of drivelib.

stdin JSON: {"root": dir, "package": "google.example.library_v1", "extra_paths": [...], "calls": [spec...]}
spec: {"id": any, "service_module": "library", "client": "LibraryClient"|"LibraryAsyncClient", "transport": "grpc"|"grpc_asyncio",
       "method": "get_book",
       "request": {"mode": "none"|"message"|"dict"|"empty_dict"|"stream", "cls": "pkg.mod:Name", "b64": "...", "stream": [b64...]},
       "kwargs": [{"param": "title", "path": "book.title", "container": "native"|"raw"}],   values are read from "source"
       "source": {"cls": "pkg.mod:Name", "b64": "..."},                                       (a message of the request class)
       "replies": [b64...] | {"code": "NOT_FOUND"},  "read_requests": n|None,
       "consume": "value"|"stream", "signature": bool}
stdout (last line): [{"id":..., "ok": bool, "result": ..., "error": ..., "calls": [{"path","requests":[b64],"metadata"}], "signature": [[name, kind, default]]}]

Import errors of the emitted package are reported once as {"import_error": ...} for every spec."""
import asyncio, importlib, inspect, json, sys, traceback
from gv.impl import drivelib as D


def attr(o, seg):
    # proto-plus renames reserved field names with a trailing underscore; resolve whichever exists
    try:
        return getattr(o, seg)
    except AttributeError:
        return getattr(o, seg + "_")


def read_path(msg, path):
    o = msg
    for seg in path.split("."):
        o = attr(o, seg)
    return o


def native(v):
    if isinstance(v, (str, bytes, int, float, bool)) or v is None:
        return v
    if hasattr(v, "items") and callable(v.items) and not hasattr(v, "DESCRIPTOR") and not hasattr(type(v), "pb"):
        return {k: x for k, x in v.items()}
    if hasattr(v, "__iter__") and not hasattr(v, "DESCRIPTOR") and not hasattr(type(v), "pb"):
        return [x for x in v]
    return v


def native_dict(pb, deep):
    """a plain Python dict with the same content as the protobuf message (field names of the proto).
    deep: nested dicts everywhere (what proto-plus accepts); otherwise elements of repeated message fields and message-valued
    map entries stay message instances (what a protobuf constructor accepts as keyword values)"""
    out = {}
    for f, v in pb.ListFields():
        if f.type == f.TYPE_MESSAGE and f.message_type.GetOptions().map_entry:
            vf = f.message_type.fields_by_name["value"]
            out[f.name] = {k: (native_dict(x, deep) if (vf.type == vf.TYPE_MESSAGE and deep) else x) for k, x in v.items()}
        elif f.label == f.LABEL_REPEATED:
            out[f.name] = [native_dict(x, deep) if (f.type == f.TYPE_MESSAGE and deep) else x for x in v]
        elif f.type == f.TYPE_MESSAGE:
            out[f.name] = native_dict(v, deep)
        else:
            out[f.name] = v
    return out


def to_plain_dict(cls, msg):
    if hasattr(cls, "pb"):
        return native_dict(cls.pb(msg), True)
    return native_dict(msg, False)


def build_call(spec, is_async):
    kwargs = {}
    r = spec.get("request") or {"mode": "none"}
    mode = r["mode"]
    if mode == "message":
        kwargs["request"] = D.build_message(D.resolve(r["cls"]), r["b64"])
    elif mode == "dict":
        cls = D.resolve(r["cls"])
        kwargs["request"] = to_plain_dict(cls, D.build_message(cls, r["b64"]))
    elif mode == "empty_dict":
        kwargs["request"] = {}
    elif mode == "stream":
        cls = D.resolve(r["cls"])
        msgs = [D.build_message(cls, b) for b in r["stream"]]
        if is_async:
            async def agen():
                for m in msgs:
                    yield m
            kwargs["requests"] = agen()
        else:
            kwargs["requests"] = iter(msgs)
    if spec.get("kwargs"):
        src = D.build_message(D.resolve(spec["source"]["cls"]), spec["source"]["b64"])
        for k in spec["kwargs"]:
            v = read_path(src, k["path"])
            kwargs[k["param"]] = native(v) if k.get("container", "native") == "native" else v
            if kwargs[k["param"]] is None:
                # e.g. an unset google.protobuf.Value reads as None through proto-plus: the keyword is then NOT given
                spec["_rec"].setdefault("none_kwargs", []).append(k["param"])
    return kwargs


def sig_of(fn):
    out = []
    for n, p in inspect.signature(fn).parameters.items():
        out.append([n, p.kind.name, "None" if p.default is None else ("EMPTY" if p.default is inspect.Parameter.empty else type(p.default).__name__)])
    return out


def make_reply(spec):
    if isinstance(spec.get("replies"), dict):
        rep = dict(spec["replies"])
    else:
        rep = {"messages": list(spec["replies"]) if spec.get("replies") is not None else [""]}
    if spec.get("read_requests") is not None:
        rep["read_requests"] = spec["read_requests"]
    return rep


def factory_client(pkg_name, service_module, client_name, kind, target):
    """client whose transport gets a channel FACTORY (channel=<callable>) and the loopback address as host: the transport
    itself calls the factory, with the credentials and the channel options it wants (message size limits among them)"""
    import grpc
    from google.auth.credentials import AnonymousCredentials
    svc = importlib.import_module(f"{pkg_name}.services.{service_module}")
    tm = D.transports_module(pkg_name, service_module)
    suffix = {"grpc": "GrpcTransport", "grpc_asyncio": "GrpcAsyncIOTransport"}[kind]
    tcls = getattr(tm, sorted([n for n in dir(tm) if n.endswith(suffix) and not n.startswith("_")], key=len)[0])
    seen = {}

    def factory(host, **kw):
        seen["options"] = [list(o) for o in (kw.get("options") or [])]
        seen["host"] = host
        mk = grpc.aio.insecure_channel if kind == "grpc_asyncio" else grpc.insecure_channel
        return mk(host, options=kw.get("options"))
    tr = tcls(host=target, credentials=AnonymousCredentials(), channel=factory)
    return getattr(svc, client_name)(transport=tr), seen


def get_client(spec, gs, hs, pkg, rec):
    if spec.get("channel") == "factory":
        client, seen = factory_client(pkg, spec["service_module"], spec["client"], spec["transport"], gs.target)
        rec["factory"] = seen
        return client
    return D.make_client(pkg, spec["service_module"], spec["client"], spec["transport"], gs.target, hs.host if hs else None)


def big_reply(spec):
    """a reply with one string field of the given size, built here so that megabytes do not travel through the JSON pipes"""
    b = spec["big_reply"]
    cls = D.resolve(b["cls"])
    m = cls()
    setattr(m, b["field"], "x" * b["size"])
    return cls.serialize(m) if hasattr(cls, "serialize") else m.SerializeToString()


def big_result(spec, values):
    b = spec["big_reply"]
    return {"kind": "big", "n": len(values), "lengths": [len(getattr(v, b["field"], "")) if v is not None else -1 for v in values],
            "all_x": all(v is not None and set(getattr(v, b["field"])) <= {"x"} for v in values)}


def snap(kw):
    """the caller's request argument as bytes / canonical text, to tell whether the call changed it"""
    r = kw.get("request")
    if r is None:
        return None
    if hasattr(type(r), "serialize") and hasattr(type(r), "pb"):
        return "m:" + D.b64(type(r).pb(r).SerializeToString(deterministic=True))
    if hasattr(r, "SerializeToString"):
        return "m:" + D.b64(r.SerializeToString(deterministic=True))
    if isinstance(r, dict):
        return "d:" + repr(sorted((k, repr(v)) for k, v in r.items()))
    return None


def run_sequence(spec, fn, kw):
    """the same argument objects passed spec['sequence'] times; a pager is walked to its end each time"""
    out = []
    for _ in range(spec["sequence"]):
        before = snap(kw)
        res = fn(**kw)
        n = len([x for x in res]) if spec.get("consume") == "pager" else None
        out.append({"before": before, "after": snap(kw), "items": n})
    return {"kind": "sequence", "rounds": out}


async def run_sequence_async(spec, fn, kw):
    out = []
    for _ in range(spec["sequence"]):
        before = snap(kw)
        res = fn(**kw)
        if inspect.isawaitable(res):
            res = await res
        n = len([x async for x in res]) if spec.get("consume") == "pager" else None
        out.append({"before": before, "after": snap(kw), "items": n})
    return {"kind": "sequence", "rounds": out}


def run_sync(spec, gs, pkg, hs=None):
    rec = spec["_rec"]
    rec["stage"] = "import"
    client = get_client(spec, gs, hs, pkg, rec)
    fn = getattr(client, spec["method"])
    rec["stage"] = "build"
    if spec.get("signature"):
        rec["signature"] = sig_of(fn)
    if spec.get("no_call"):
        return rec
    kw = build_call(spec, False)
    kw.setdefault("timeout", spec.get("deadline", 30.0))   # a wrong arity must fail, not hang; generous: the machine may be busy
    kw.setdefault("metadata", [(CALL_ID, str(spec.get("id")))])
    rec["stage"] = "call"
    if spec.get("sequence"):
        rec["result"] = run_sequence(spec, fn, kw)
        return rec
    before = snap(kw)
    res = fn(**kw)
    rec["arg_before"], rec["arg_after"] = before, snap(kw)
    if spec.get("big_reply"):
        rec["result"] = big_result(spec, list(res) if spec.get("consume") == "stream" else [res])
    elif spec.get("consume", "value") == "stream":
        rec["result"] = {"kind": "stream", "items": [D.encode_value(x) for x in res]}
    elif spec.get("consume") == "ignore":
        rec["result"] = {"kind": "ignored", "type": type(res).__module__ + "." + type(res).__qualname__}
    else:
        rec["result"] = D.encode_value(res)
    return rec


async def run_async(spec, gs, pkg):
    rec = spec["_rec"]
    rec["stage"] = "import"
    client = get_client(spec, gs, None, pkg, rec)
    fn = getattr(client, spec["method"])
    rec["stage"] = "build"
    if spec.get("signature"):
        rec["signature"] = sig_of(fn)
    if spec.get("no_call"):
        return rec
    kw = build_call(spec, True)
    kw.setdefault("timeout", spec.get("deadline", 30.0))
    kw.setdefault("metadata", [(CALL_ID, str(spec.get("id")))])
    rec["stage"] = "call"
    if spec.get("sequence"):
        rec["result"] = await run_sequence_async(spec, fn, kw)
        return rec
    before = snap(kw)
    res = fn(**kw)
    if inspect.isawaitable(res):
        res = await res
    rec["arg_before"], rec["arg_after"] = before, snap(kw)
    if spec.get("big_reply"):
        if spec.get("consume") == "stream":
            if inspect.isawaitable(res):
                res = await res
            vals = [x async for x in res]
        else:
            vals = [res]
        rec["result"] = big_result(spec, vals)
    elif spec.get("consume", "value") == "stream":
        if inspect.isawaitable(res):
            res = await res
        rec["result"] = {"kind": "stream", "items": [D.encode_value(x) async for x in res]}
    elif spec.get("consume") == "ignore":
        rec["result"] = {"kind": "ignored", "type": type(res).__module__ + "." + type(res).__qualname__}
    else:
        if inspect.isawaitable(res) and not hasattr(res, "SerializeToString") and not hasattr(type(res), "serialize"):
            # the awaited client method handed back something that must be awaited again to get the reply
            rec["extra_await"] = type(res).__module__ + "." + type(res).__qualname__
            res = await res
        rec["result"] = D.encode_value(res)
    return rec


CALL_ID = "x-gv-call-id"


def main():
    """Every call carries its spec id in the invocation metadata; what the loopback server recorded is attributed to the specs by
    that id AFTER all specs ran and the server has drained (a call whose object the client dropped may reach the server while
    later specs are running; attributing records by time window made the next spec see two calls now and then)."""
    payload = json.load(sys.stdin)
    sys.path.insert(0, payload["root"])
    for p in payload.get("extra_paths", []):
        sys.path.insert(0, p)
    gs = D.GrpcLoopback()
    hs = D.HttpLoopback() if any(c.get("transport") == "rest" for c in payload["calls"]) else None
    results = []
    for spec in payload["calls"]:
        gs.default_reply = make_reply(spec)
        if spec.get("big_reply"):
            gs.default_reply = {"messages": [D.b64(big_reply(spec))] * spec.get("big_count", 1)}
        gs.set_script(spec.get("script") or {})
        rec = {"id": spec.get("id"), "ok": True}
        spec["_rec"] = rec
        try:
            if spec["transport"] == "grpc_asyncio":
                asyncio.run(asyncio.wait_for(run_async(spec, gs, payload["package"]), spec.get("timeout", 45)))
            else:
                run_sync(spec, gs, payload["package"], hs)
        except BaseException as e:  # noqa  (SyntaxError/ImportError of the emitted package included)
            rec["ok"] = False
            rec["error"] = D.exc_info(e)
            rec["traceback"] = traceback.format_exc()[-1200:]
        if hs is not None:
            rec["http_calls"] = hs.take_calls()      # REST calls are synchronous: nothing is in flight when the method returns
        results.append(rec)
    # let every handler that is still running finish (records are appended to while requests arrive), then read them once
    gs.server.stop(5.0).wait(20.0)
    by_id, unattributed = {}, []
    for c in gs.take_calls():
        cid = next((v for k, v in c["metadata"] if k == CALL_ID), None)
        entry = {"path": c["path"], "requests": list(c["requests"]),
                 "metadata": [kv for kv in c["metadata"] if kv[0] != CALL_ID], "t": c.get("t")}
        if cid is None:
            unattributed.append(entry)
        else:
            by_id.setdefault(cid, []).append(entry)
    ids = {str(r["id"]) for r in results}
    for r in results:
        r["calls"] = sorted(by_id.get(str(r["id"]), []), key=lambda e: e["t"] or 0)
    stray = [k for k in by_id if k not in ids]
    if hs is not None:
        hs.stop()
    print()
    print(json.dumps({"results": results, "harness": {"unattributed": unattributed[:5], "unknown_ids": stray[:5], "n_specs": len(results)}}))


main()
