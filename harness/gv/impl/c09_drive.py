"""C09 driver: calls emitted client methods against the loopback gRPC server under scripted status codes, on a
VIRTUAL CLOCK that only sleeps advance.

What is replaced inside this child process (nothing in /repo, nothing in the emitted library):
  * the `time` name inside google.api_core.retry.{retry_base,retry_unary,retry_unary_async} (monotonic + sleep),
  * asyncio.sleep as seen by google.api_core.retry.retry_unary_async,
  * random.uniform (the jitter: "max" -> upper bound, "min" -> lower bound, or a fraction in [0,1]),
  * the default clock of google.api_core.timeout.TimeToDeadlineTimeout.
stdin JSON: {"root": dir, "package": "...", "calls": [spec...]}
spec: {"service_module", "client", "transport": "grpc"|"grpc_asyncio"|"rest" (rest: status codes NOT_FOUND, INTERNAL, UNIMPLEMENTED,
       UNAVAILABLE only, sent as HTTP 404/500/501/503; the timeout is read off the transport's session), "method", "request_cls",
       "request_fields": {...}, "path": "/pkg.Svc/Rpc" (rest: the URL path),
       "script": ["UNAVAILABLE", "OK", ...]  (one entry per attempt; after the script the server answers "after"),
       "after": "OK"|code, "jitter": "max"|"min"|0.5, "retry": absent | "none" | {initial, maximum, multiplier, codes, deadline},
       "timeout": absent | null | number, "max_attempts_guard": 60,
       "stream": true for a SERVER-STREAMING rpc (the stream is read to its end; -> also "items": n; over REST the OK answer is a JSON
       array of one message, and "client_timeouts" holds what the session was handed: a number, null, or [connect, read])}
spec (paged listing): as a call, plus "pager": {"pages_b64": [serialized page responses...]}: the whole listing is walked
       (sync: list(pager), asyncio: async for); the OK entries of "script" answer with the successive pages; -> also "items": n
spec (inspection, no call made): {"inspect": true, "service_module", "client", "transport", "methods": [python names]}
       -> {"ok", "installed": {method: {"retry": None | {cls, initial, maximum, multiplier, deadline, accepts}, "timeout"}}}
stdout (last line): [{"ok", "error", "attempts": [{"time_remaining", "vnow"}], "sleeps": [...], "uniform": [[a,b]...]}]"""
import asyncio, datetime, json, sys, time, types, traceback
from gv.impl import drivelib as D


class Clock:
    def __init__(self, jitter):
        self.now = 0.0
        self.sleeps = []
        self.uniform = []
        self.jitter = jitter
        self.base_mono = 1000.0
        self.base_dt = datetime.datetime(2030, 1, 1, tzinfo=datetime.timezone.utc)

    def monotonic(self):
        return self.base_mono + self.now

    def sleep(self, d):
        self.sleeps.append(float(d))
        self.now += float(d)

    def utcnow(self):
        return self.base_dt + datetime.timedelta(seconds=self.now)

    def draw(self, a, b):
        self.uniform.append([a, b])
        if self.jitter == "max":
            return b
        if self.jitter == "min":
            return a
        return a + (b - a) * float(self.jitter)


class Patched:
    def __init__(self, clock):
        self.clock = clock

    def __enter__(self):
        import random
        from google.api_core.retry import retry_base, retry_unary, retry_unary_async
        from google.api_core import timeout as timeout_mod
        c = self.clock
        shim = types.SimpleNamespace(monotonic=c.monotonic, sleep=c.sleep)
        self.saved = [(m, m.time) for m in (retry_base, retry_unary, retry_unary_async)]
        for m, _ in self.saved:
            m.time = shim
        real_asleep = asyncio.sleep

        async def fake_asleep(d, *a, **k):
            c.sleep(d)
            await real_asleep(0)

        self.saved_asyncio = (retry_unary_async, retry_unary_async.asyncio)
        retry_unary_async.asyncio = types.SimpleNamespace(sleep=fake_asleep)
        self.saved_uniform = random.uniform
        random.uniform = c.draw
        init = timeout_mod.TimeToDeadlineTimeout.__init__
        self.saved_defaults = (init, init.__defaults__)
        if len(init.__defaults__) != 2:
            raise RuntimeError("TimeToDeadlineTimeout.__init__ signature changed")
        init.__defaults__ = (init.__defaults__[0], c.utcnow)
        return self

    def __exit__(self, *a):
        import random
        for m, t in self.saved:
            m.time = t
        self.saved_asyncio[0].asyncio = self.saved_asyncio[1]
        random.uniform = self.saved_uniform
        self.saved_defaults[0].__defaults__ = self.saved_defaults[1]


HTTP_STATUS = {"NOT_FOUND": 404, "INTERNAL": 500, "UNIMPLEMENTED": 501, "UNAVAILABLE": 503}


def call_kwargs(spec, is_async):
    kw = {}
    if "timeout" in spec:
        kw["timeout"] = spec["timeout"]
    if "retry" in spec:
        if spec["retry"] == "none":
            kw["retry"] = None
        else:
            from google.api_core import retry as retries, retry_async, exceptions as core_exceptions
            import grpc
            rc = spec["retry"]
            classes = [core_exceptions.exception_class_for_grpc_status(getattr(grpc.StatusCode, n)) for n in rc["codes"]]
            cls = retry_async.AsyncRetry if is_async else retries.Retry
            kw["retry"] = cls(initial=rc["initial"], maximum=rc["maximum"], multiplier=rc["multiplier"],
                              predicate=retries.if_exception_type(*classes), timeout=rc.get("deadline"))
    return kw


# Nothing in a scenario may depend on how fast this machine is.  All waiting and all deadline arithmetic of api_core runs on
# the virtual clock (Patched).  The one place where real time remains is the transport itself: the timeout a call carries
# becomes a real gRPC deadline / socket timeout.  The exact value is RECORDED first, then lengthened by REAL_SLACK before it
# goes on the wire, so that a loaded machine cannot expire a 0.5 s deadline; the server-side observation is compared modulo
# this constant.
REAL_SLACK = 40.0


import collections
import grpc as _grpc


class _Details(collections.namedtuple("_Details", ("method", "timeout", "metadata", "credentials", "wait_for_ready", "compression")),
               _grpc.ClientCallDetails):
    pass


def make_client(pkg, spec, target, seen, streams=None):
    streams = [] if streams is None else streams
    """The emitted client on a channel that records the timeout argument of every attempt (client side, exact)."""
    import grpc, importlib
    svc = importlib.import_module(f"{pkg}.services.{spec['service_module']}")
    tm = D.transports_module(pkg, spec["service_module"])
    is_async = spec["transport"] == "grpc_asyncio"
    suffix = {"grpc": "GrpcTransport", "grpc_asyncio": "GrpcAsyncIOTransport", "rest": "RestTransport"}[spec["transport"]]
    tcls = getattr(tm, sorted([n for n in dir(tm) if n.endswith(suffix) and not n.startswith("_")], key=len)[0])
    if spec["transport"] == "rest":
        from google.auth.credentials import AnonymousCredentials
        tr = tcls(host=target, url_scheme="http", credentials=AnonymousCredentials())
        real = tr._session.request

        def recording_request(method, url, *a, **k):
            # exactly what the session was handed: a number, None, or requests' (connect, read) pair (recorded as a list;
            # a part that is None means NO deadline for that phase)
            t = k.get("timeout")
            seen.append(list(t) if isinstance(t, tuple) else t)
            streams.append(bool(k.get("stream")))
            if isinstance(t, tuple):
                k["timeout"] = tuple((x + REAL_SLACK) if isinstance(x, (int, float)) else x for x in t)
                if any(x is None for x in t):
                    # never hang the driver on a lost deadline
                    k["timeout"] = tuple(REAL_SLACK if x is None else x for x in k["timeout"])
            elif t is not None:
                k["timeout"] = t + REAL_SLACK
            return real(method, url, *a, **k)
        tr._session.request = recording_request
        return getattr(svc, spec["client"])(transport=tr)
    if is_async:
        class Rec(grpc.aio.UnaryUnaryClientInterceptor):
            async def intercept_unary_unary(self, continuation, details, request):
                seen.append(details.timeout)
                if details.timeout is not None:
                    details = details._replace(timeout=details.timeout + REAL_SLACK)
                return await continuation(details, request)

        class RecS(grpc.aio.UnaryStreamClientInterceptor):
            async def intercept_unary_stream(self, continuation, details, request):
                seen.append(details.timeout)
                if details.timeout is not None:
                    details = details._replace(timeout=details.timeout + REAL_SLACK)
                return await continuation(details, request)
        ch = grpc.aio.insecure_channel(target, interceptors=[Rec(), RecS()])
    else:
        class Rec(grpc.UnaryUnaryClientInterceptor, grpc.UnaryStreamClientInterceptor):
            def intercept_unary_unary(self, continuation, details, request):
                seen.append(details.timeout)
                if details.timeout is not None:
                    details = _Details(details.method, details.timeout + REAL_SLACK, details.metadata, details.credentials,
                                       getattr(details, "wait_for_ready", None), getattr(details, "compression", None))
                return continuation(details, request)

            intercept_unary_stream = intercept_unary_unary     # a server-streaming rpc: the same record
        ch = grpc.intercept_channel(grpc.insecure_channel(target), Rec())
    return getattr(svc, spec["client"])(transport=tcls(channel=ch))


def run_one(spec, gs, pkg, clock, seen, streams=None):
    is_async = spec["transport"] == "grpc_asyncio"
    kw = call_kwargs(spec, is_async)
    # a paged listing is walked, a server stream is read to its end
    paged = "pager" in spec or bool(spec.get("stream"))
    if is_async:
        async def go():
            client = make_client(pkg, spec, gs.target, seen)
            req = D.resolve(spec["request_cls"])(**(spec.get("request_fields") or {}))
            out = await getattr(client, spec["method"])(request=req, **kw)
            if paged:
                # walk the whole listing: every follow-up page is fetched by the pager itself
                return [x async for x in out]
            return out
        return asyncio.run(go())
    client = make_client(pkg, spec, gs.target if spec["transport"] != "rest" else gs.http_host, seen, streams)
    req = D.resolve(spec["request_cls"])(**(spec.get("request_fields") or {}))
    out = getattr(client, spec["method"])(request=req, **kw)
    return list(out) if paged else out


def inspect_defaults(pkg, spec, gs):
    """The defaults INSTALLED on a live transport: for each method the _GapicCallable found in transport._wrapped_methods:
    its default Retry (initial, maximum, multiplier, overall timeout/deadline, and which status codes its predicate accepts,
    probed with the exception api_core builds for each code) and its default timeout."""
    import grpc
    from google.api_core import exceptions as core_exceptions

    def read(client):
        tr = client.transport
        out = {}
        for m in spec["methods"]:
            w = tr._wrapped_methods[getattr(tr, m)]
            r = w._retry
            row = {"timeout": None if w._timeout is None else repr(float(w._timeout)) if isinstance(w._timeout, (int, float)) else "<%s>" % type(w._timeout).__name__,
                   "retry": None}
            if r is not None:
                codes = [c for c in sorted(grpc.StatusCode, key=lambda c: c.value[0]) if c.name != "OK"]
                row["retry"] = {"cls": type(r).__module__ + "." + type(r).__name__,
                                "initial": repr(float(r._initial)), "maximum": repr(float(r._maximum)), "multiplier": repr(float(r._multiplier)),
                                "deadline": None if r._timeout is None else repr(float(r._timeout)),
                                "accepts": [c.name for c in codes if r._predicate(core_exceptions.from_grpc_status(c, "probe"))]}
            out[m] = row
        return out

    if spec["transport"] == "grpc_asyncio":
        async def go():
            return read(make_client(pkg, spec, gs.target, []))
        return asyncio.run(go())
    return read(make_client(pkg, spec, gs.target if spec["transport"] != "rest" else gs.http_host, []))


def main():
    payload = json.load(sys.stdin)
    sys.path.insert(0, payload["root"])
    gs = D.GrpcLoopback()
    hs = D.HttpLoopback()
    gs.http_host = hs.host
    results = []
    for spec in payload["calls"]:
        if spec.get("inspect"):
            try:
                results.append({"ok": True, "installed": inspect_defaults(spec.get("package") or payload["package"], spec, gs)})
            except Exception as e:  # noqa
                results.append({"ok": False, "error": D.exc_info(e), "traceback": traceback.format_exc()[-800:]})
            continue
        clock = Clock(spec.get("jitter", "max"))
        # a paged listing: the successive OK answers carry the successive pages (the last page has no next_page_token)
        pages = list((spec.get("pager") or {}).get("pages_b64", []))
        last_page = pages[-1] if pages else ""

        def ok_reply():
            return {"messages": [pages.pop(0) if pages else last_page]}
        replies = [(ok_reply() if c == "OK" else {"code": c}) for c in spec["script"]]
        gs.set_script({spec["path"]: replies})
        after = spec.get("after", "OK")
        gs.default_reply = {"messages": [last_page]} if after == "OK" else {"code": after}

        def http_reply(c):
            if c == "OK":
                # a server stream over REST is one JSON array of messages
                return {"status": 200, "body": "[{}]" if spec.get("stream") else "{}"}
            st = HTTP_STATUS[c]
            return {"status": st, "body": json.dumps({"error": {"code": st, "message": "scripted", "status": c}})}
        if spec["transport"] == "rest":
            hs.set_script([http_reply(c) for c in spec["script"]])
            hs.default_reply = http_reply(after)
        # the handler stamps each call with the virtual time at which it arrived
        rec = {"ok": True}
        seen = []
        streams = []
        guard = spec.get("max_attempts_guard", 60)
        with Patched(clock):
            orig_sleep = clock.sleep

            def guarded_sleep(d, _o=orig_sleep):
                if len(clock.sleeps) >= guard:
                    raise RuntimeError("attempt guard reached")
                _o(d)
            clock.sleep = guarded_sleep
            # the shims captured the bound methods before the guard was installed: re-bind
            from google.api_core.retry import retry_base, retry_unary, retry_unary_async
            for m in (retry_base, retry_unary, retry_unary_async):
                m.time.sleep = guarded_sleep
            try:
                got = run_one(spec, gs, spec.get("package") or payload["package"], clock, seen, streams)
                if "pager" in spec or spec.get("stream"):
                    rec["items"] = len(got)
            except Exception as e:  # noqa
                rec["ok"] = False
                rec["error"] = D.exc_info(e)
                cause = e.__cause__
                if cause is not None:
                    rec["cause"] = D.exc_info(cause)
                rec["traceback"] = traceback.format_exc()[-800:]
        calls = gs.take_calls()
        rec["attempts"] = [{"path": c["path"], "time_remaining": c["time_remaining"]} for c in calls]
        if spec["transport"] == "rest":
            rec["attempts"] = [{"path": c["path"], "time_remaining": None, "verb": c["verb"]} for c in hs.take_calls()]
        rec["client_timeouts"] = seen
        rec["rest_stream_flags"] = streams
        rec["sleeps"] = clock.sleeps
        rec["uniform"] = clock.uniform
        results.append(rec)
    gs.stop()
    hs.stop()
    print()
    print(json.dumps(results))


main()
