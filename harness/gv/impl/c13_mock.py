"""C13: Field.mock_value_original_type of every field of every top-level message of a request (real API.build)."""
import base64, json, os, sys
from google.protobuf.compiler import plugin_pb2
from gapic.schema import api
from gapic.utils import Options


def enc(v):
    if v is None:
        return {"k": "none"}
    if isinstance(v, bool):
        return {"k": "bool", "v": v}
    if isinstance(v, int):
        return {"k": "int", "v": v}
    if isinstance(v, float):
        return {"k": "float"}
    if isinstance(v, str):
        return {"k": "str", "v": v}
    if isinstance(v, bytes):
        return {"k": "bytes", "v": v.decode("latin-1")}
    if isinstance(v, dict):
        return {"k": "dict", "v": [[k, enc(x)] for k, x in v.items()]}
    if isinstance(v, (list, tuple)):
        return {"k": "list", "v": [enc(x) for x in v]}
    return {"k": "other", "v": repr(v)[:80]}


def main():
    q = json.load(sys.stdin)
    req = plugin_pb2.CodeGeneratorRequest.FromString(base64.b64decode(q["request_b64"]))
    package = os.path.commonprefix([p.package for p in req.proto_file if p.name in req.file_to_generate]).rstrip(".")
    a = api.API.build(req.proto_file, opts=Options.build(req.parameter), package=package)
    out = []
    for proto in a.protos.values():
        for m in proto.all_messages.values():
            if m.map:
                continue
            for f in m.fields.values():
                try:
                    out.append({"message": m.meta.address.proto, "field": f.field_pb.name, "value": enc(f.mock_value_original_type)})
                except RecursionError:
                    out.append({"message": m.meta.address.proto, "field": f.field_pb.name, "error": "RecursionError"})
    print(json.dumps(out))


main()
