"""C04 child: drive the emitted SYNC REST client against the loopback HTTP server, optionally with a custom
<Service>RestInterceptor whose pre_<method> hook replaces the request (mode 'copy': returns another message object)
or edits the caller's object in place (mode 'inplace').  Built on gv.impl.drivelib; same result shape as impl/drive.py.

stdin JSON: {"root": dir, "package": "google.example.tc_v1", "calls": [spec...]}
spec: {"service_module", "client", "method", "request": {"mode": "message"|"stream", "cls": "pkg:Name", "b64"| "stream": [b64]},
       "http_default": {...}, "intercept": null | {"mode": "copy"|"inplace", "b64": <request the hook turns the caller's into>}}
stdout (last line): [{"ok", "result", "error", "http_calls", "hook_calls"}]"""
import importlib, json, sys, traceback
from gv.impl import drivelib as D


def make_client(pkg, service_module, client_name, http_host, method, intercept, cls):
    from google.auth.credentials import AnonymousCredentials
    svc = importlib.import_module(f"{pkg}.services.{service_module}")
    tm = D.transports_module(pkg, service_module)
    tname = sorted([n for n in dir(tm) if n.endswith("RestTransport") and not n.startswith("_")], key=len)[0]
    tcls = getattr(tm, tname)
    kwargs = {}
    hook = {"calls": 0}
    if intercept:
        iname = sorted([n for n in dir(tm) if n.endswith("RestInterceptor") and not n.startswith("_")], key=len)[0]
        base = getattr(tm, iname)
        if not hasattr(base, "pre_" + method):
            raise AttributeError(f"{iname} has no hook pre_{method}")
        new = D.build_message(cls, intercept["b64"])

        def pre(self, request, metadata):
            hook["calls"] += 1
            if intercept["mode"] == "copy":
                return new, metadata
            # edit the very object the client handed to the transport
            pb = type(request).pb(request) if hasattr(type(request), "pb") else request
            pb.Clear()
            pb.MergeFrom(type(new).pb(new) if hasattr(type(new), "pb") else new)
            return request, metadata

        kwargs["interceptor"] = type("Hook" + iname, (base,), {"pre_" + method: pre})()
    tr = tcls(host=http_host, url_scheme="http", credentials=AnonymousCredentials(), **kwargs)
    return getattr(svc, client_name)(transport=tr), hook


async def call_async(pkg, spec, host, cls):
    """One unary call over the emitted asyncio REST transport (aiohttp session of google.auth.aio)."""
    from google.auth.aio.credentials import AnonymousCredentials
    svc = importlib.import_module(f"{pkg}.services.{spec['service_module']}")
    ra = importlib.import_module(f"{pkg}.services.{spec['service_module']}.transports.rest_asyncio")
    tname = sorted([n for n in dir(ra) if n.startswith("Async") and n.endswith("RestTransport")], key=len)[0]
    tr = getattr(ra, tname)(host=host, url_scheme="http", credentials=AnonymousCredentials())
    try:
        client = getattr(svc, spec["client"])(transport=tr)
        return await getattr(client, spec["method"])(request=D.build_message(cls, spec["request"]["b64"]))
    finally:
        await tr.close()


def main():
    payload = json.load(sys.stdin)
    sys.path.insert(0, payload["root"])
    hs = D.HttpLoopback()
    results = []
    for spec in payload["calls"]:
        hs.set_script(spec.get("http_script"))
        if spec.get("http_default"):
            hs.default_reply = spec["http_default"]
        rec = {"ok": True, "hook_calls": 0}
        hook = {"calls": 0}
        try:
            r = spec["request"]
            cls = D.resolve(r["cls"])
            if spec.get("transport") == "rest_asyncio":
                import asyncio
                rec["result"] = [D.encode_value(asyncio.run(call_async(payload["package"], spec, hs.host, cls)))]
                rec["hook_calls"] = 0
                rec["http_calls"] = hs.take_calls()
                results.append(rec)
                continue
            client, hook = make_client(payload["package"], spec["service_module"], spec["client"], hs.host, spec["method"],
                                       spec.get("intercept"), cls)
            if r["mode"] == "stream":
                res = getattr(client, spec["method"])(requests=iter([D.build_message(cls, b) for b in r["stream"]]))
            else:
                res = getattr(client, spec["method"])(request=D.build_message(cls, r["b64"]))
            if spec.get("consume") == "stream":     # server-streaming: the call returns an iterator over the JSON array reply
                rec["result"] = [{"kind": "stream", "type": type(res).__module__ + "." + type(res).__name__,
                                  "items": [D.encode_value(x) for x in res]}]
            else:
                rec["result"] = [D.encode_value(res)]
        except Exception as e:  # noqa
            rec["ok"] = False
            rec["error"] = D.exc_info(e)
            rec["traceback"] = traceback.format_exc()[-1500:]
        rec["hook_calls"] = hook["calls"]
        rec["http_calls"] = hs.take_calls()
        results.append(rec)
    hs.stop()
    print()
    print(json.dumps(results))


main()
