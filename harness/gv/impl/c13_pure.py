"""C13 pure side: uri_sample.sample_from_path_fields and api_core's path_template.validate on its output."""
import json, sys
from gapic.utils import uri_sample
from google.api_core import path_template


def main():
    q = json.load(sys.stdin)
    out = []
    for fields in q["cases"]:
        d = uri_sample.sample_from_path_fields([(name, tmpl) for name, tmpl in fields])
        flat = []
        for name, tmpl in fields:
            o = d
            for p in name.split("."):
                o = o[p]
            flat.append([name, o, bool(path_template.validate(tmpl or "*", o))])
        out.append(flat)
    print(json.dumps(out))


main()
