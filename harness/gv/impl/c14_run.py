"""C14 child: import an emitted library and its generated samples, run every sample_* function against the loopback
gRPC (or HTTP) server of gv.impl.drivelib with default credentials stubbed, and introspect the generated clients.

The samples construct their client with no arguments (`pkg_v1.FooClient()`): google.auth.default is patched to return
AnonymousCredentials and each client class's __init__ is wrapped so that a call without transport/credentials gets a
transport bound to the loopback server (gRPC insecure channel / aio channel created inside the running loop / REST on
http://127.0.0.1). Nothing else of the emitted code is touched.

stdin: {"root": dir, "package": "google.example.library_v1", "samples_dir": dir, "rest_only": bool,
        "samples": [{"module": file stem, "function": "sample_get_book", "async": bool, "client": "LibraryClient",
                     "service_module": "library"}],
        "grpc_script": {path: [reply...]}, "grpc_default": {path: reply}, "http_default": {"status", "body"},
        "introspect": [{"client_full": "google.example.library_v1.LibraryClient", "method": "get_book",
                        "param_types": [...], "result_type": str|None}]}
stdout (last line): {"import_ok", "results": [...], "introspection": [...]}"""
import ast, asyncio, importlib, inspect, json, os, sys, traceback, typing
from gv.impl import drivelib as D
import grpc
import time as _time
_real_sleep = _time.sleep


def patch_clients(pkg, samples, gs, hs, rest_only):
    import google.auth
    from google.auth.credentials import AnonymousCredentials
    google.auth.default = lambda *a, **k: (AnonymousCredentials(), "loopback-project")
    done = set()
    for s in samples:
        key = (s.get("package"), s["service_module"], s["client"])
        if key in done:
            continue
        done.add(key)
        spkg = s.get("package") or pkg          # services of a proto sub-package live in a sub-package of the library
        mod = importlib.import_module(f"{spkg}.services.{s['service_module']}")
        tm = D.transports_module(spkg, s["service_module"])
        cls = getattr(mod, s["client"])
        is_async = s["client"].endswith("AsyncClient")

        def make_init(orig, is_async, tm):
            def pick(suffix):
                names = [n for n in dir(tm) if n.endswith(suffix) and not n.startswith("_")]
                return getattr(tm, sorted(names, key=len)[0])

            def __init__(self, *a, **k):
                if not a and "transport" not in k and "credentials" not in k and "client_options" not in k:
                    if rest_only:
                        k["transport"] = pick("RestTransport")(host=hs.host, url_scheme="http", credentials=AnonymousCredentials())
                    elif is_async:
                        k["transport"] = pick("GrpcAsyncIOTransport")(channel=grpc.aio.insecure_channel(gs.target))
                    else:
                        k["transport"] = pick("GrpcTransport")(channel=grpc.insecure_channel(gs.target))
                return orig(self, *a, **k)
            return __init__

        orig = cls.__init__
        cls.__init__ = make_init(orig, is_async, tm)


def type_name(t):
    """A comparable rendering of an annotation object."""
    if t is None or t is type(None):
        return "None"
    origin = typing.get_origin(t)
    if origin is not None:
        args = [type_name(a) for a in typing.get_args(t)]
        oname = getattr(origin, "__name__", None) or str(origin).replace("typing.", "")
        return f"{oname}[{', '.join(args)}]"
    if isinstance(t, type):
        return f"{t.__module__}.{t.__qualname__}"
    return str(t)


def resolve_dotted(path):
    """Import the longest module prefix of a dotted path and walk the rest as attributes; None if it does not resolve."""
    parts = path.split(".")
    for i in range(len(parts), 0, -1):
        try:
            o = importlib.import_module(".".join(parts[:i]))
        except Exception:  # noqa
            continue
        try:
            for a in parts[i:]:
                o = getattr(o, a)
            return o
        except AttributeError:
            return None
    return None


def introspect(item):
    out = {"ok": True}
    cls = resolve_dotted(item["client_full"])
    if not isinstance(cls, type):
        return {"ok": False, "why": f"client {item['client_full']} does not resolve to a class"}
    out["client_class"] = f"{cls.__module__}.{cls.__qualname__}"
    out["client_short"] = cls.__name__
    fn = vars(cls).get(item["method"]) or getattr(cls, item["method"], None)
    if fn is None:
        return {"ok": False, "why": f"{cls.__name__} has no method {item['method']}"}
    out["is_coroutine"] = inspect.iscoroutinefunction(fn)
    out["is_async_gen_or_plain"] = inspect.isfunction(fn)
    sig = inspect.signature(fn)
    out["params"] = [p for p in sig.parameters if p != "self"]
    ann = {}
    for p, v in sig.parameters.items():
        if p == "self":
            continue
        ann[p] = type_name(v.annotation) if v.annotation is not inspect.Parameter.empty else None
    out["annotations"] = ann
    out["return"] = type_name(sig.return_annotation) if sig.return_annotation is not inspect.Signature.empty else None
    # the metadata's type strings: do they resolve, and to what
    res = []
    for t in item.get("type_strings", []):
        o = resolve_dotted(t) if t and all(c.isalnum() or c in "._" for c in t) else None
        res.append(f"{o.__module__}.{o.__qualname__}" if isinstance(o, type) else None)
    out["resolved"] = res
    return out


def public_types_report(path, pkg):
    """Constructor calls of the sample: (module alias, type name, exported?) for every `alias.Name(...)` call on an imported module."""
    src = open(path, encoding="utf-8").read()
    tree = ast.parse(src)
    imports = {}
    for n in ast.walk(tree):
        if isinstance(n, ast.ImportFrom):
            for a in n.names:
                imports[a.asname or a.name] = f"{n.module}.{a.name}"
        elif isinstance(n, ast.Import):
            for a in n.names:
                imports[a.asname or a.name.split(".")[0]] = a.name
    out = []
    for n in ast.walk(tree):
        if isinstance(n, ast.Call) and isinstance(n.func, ast.Attribute) and isinstance(n.func.value, ast.Name) \
                and n.func.value.id in imports and n.func.attr[:1].isupper():
            modname = imports[n.func.value.id]
            try:
                m = importlib.import_module(modname)
                exported = hasattr(m, n.func.attr) and (n.func.attr in getattr(m, "__all__", [n.func.attr]))
            except Exception as e:  # noqa
                exported = False
            out.append([modname, n.func.attr, bool(exported)])
    return out


def main():
    payload = json.load(sys.stdin)
    sys.path.insert(0, payload["root"])
    sys.path.insert(0, payload["samples_dir"])
    for p in payload.get("extra_paths", []):
        sys.path.insert(0, p)
    out = {"import_ok": True, "results": [], "introspection": []}
    gs, hs = D.GrpcLoopback(), D.HttpLoopback()
    try:
        for pre in payload.get("preimport", []):      # e.g. the unversioned alias package, when a dependency lives under it
            importlib.import_module(pre)
        importlib.import_module(payload["package"])
        patch_clients(payload["package"], payload["samples"], gs, hs, payload.get("rest_only", False))
    except Exception:  # noqa
        out["import_ok"] = False
        out["import_error"] = traceback.format_exc()[-2000:]
        print()
        print(json.dumps(out))
        return
    for s in payload["samples"]:
        rec = {"module": s["module"], "ok": True}
        gs.set_script({k: list(v) for k, v in (s.get("grpc_script") or {}).items()})
        if s.get("grpc_default"):
            gs.default_reply = s["grpc_default"]
        hs.set_script(list(s.get("http_script") or []))
        hs.default_reply = s.get("http_default") or {"status": 200, "body": "{}"}
        try:
            compile(open(os.path.join(payload["samples_dir"], s["module"] + ".py"), encoding="utf-8").read(), s["module"], "exec")
            rec["compiles"] = True
        except SyntaxError as e:
            rec["compiles"] = False
            rec["ok"] = False
            rec["error"] = {"exception": "SyntaxError", "message": f"{e.msg} at line {e.lineno}"}
            out["results"].append(rec)
            continue
        try:
            rec["public_types"] = public_types_report(os.path.join(payload["samples_dir"], s["module"] + ".py"), payload["package"])
            m = importlib.import_module(s["module"])
            fn = getattr(m, s["function"], None)
            rec["functions"] = sorted(n for n, v in vars(m).items() if inspect.isfunction(v) and n.startswith("sample_"))
            if fn is None:
                raise AttributeError(f"module {s['module']} has no function {s['function']}")
            rec["is_coroutine"] = inspect.iscoroutinefunction(fn)
            with D.SleepRecorder():
                import io, contextlib
                buf = io.StringIO()
                with contextlib.redirect_stdout(buf):
                    if inspect.iscoroutinefunction(fn):
                        loop = asyncio.new_event_loop()
                        asyncio.set_event_loop(loop)
                        try:
                            loop.run_until_complete(asyncio.wait_for(fn(), 30))
                            # RPC machinery the sample started but did not wait for (its call is still in flight)
                            pend = [t for t in asyncio.all_tasks(loop) if not t.done()]
                            rec["pending_tasks"] = sorted(getattr(t.get_coro(), "__qualname__", repr(t.get_coro()))[:100] for t in pend)
                        finally:
                            for t in asyncio.all_tasks(loop):
                                t.cancel()
                            loop.run_until_complete(asyncio.sleep(0))
                            loop.run_until_complete(loop.shutdown_asyncgens())
                            asyncio.set_event_loop(None)
                            loop.close()
                    else:
                        fn()
                rec["stdout"] = buf.getvalue()[-400:]
        except BaseException as e:  # noqa  (samples may raise anything, including SystemExit)
            rec["ok"] = False
            rec["error"] = D.exc_info(e)
            rec["traceback"] = traceback.format_exc()[-1500:]
        _real_sleep(0.05)        # let a call that the sample started but did not wait for reach the server
        rec["grpc_calls"] = gs.take_calls()
        rec["http_calls"] = hs.take_calls()
        out["results"].append(rec)
    for item in payload.get("introspect", []):
        try:
            out["introspection"].append(introspect(item))
        except Exception as e:  # noqa
            out["introspection"].append({"ok": False, "why": f"{type(e).__name__}: {e}"})
    gs.stop()
    hs.stop()
    print()
    print(json.dumps(out))


main()
