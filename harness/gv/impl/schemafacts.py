"""Implementation side of C05/C03 (schema level): build gapic's API object exactly as gapic.cli.generate does and report,
per method, what the wrappers compute: flattened_fields (keys, Field.name, kinds), cross-package flag, transport_safe_name,
grpc_stub_type, serializer choice, void / lro / paged, plus the mixin method table. Nothing is emitted here.

stdin: [{"request_b64": ...}, ...]     stdout (last line): [{"ok": bool, "error": kind, "services": {...}}, ...]"""
import base64, json, os, sys, traceback
from google.protobuf.compiler import plugin_pb2
from gapic.schema import api as gapi
from gapic.utils import Options
from gapic import utils


def snake(s):
    return utils.to_snake_case(s)


def method_facts(m):
    d = {
        "name": m.name,
        "client_streaming": bool(m.client_streaming), "server_streaming": bool(m.server_streaming),
        "void": bool(m.void), "lro": bool(m.lro), "extended_lro": bool(m.extended_lro),
        "paged": m.paged_result_field is not None,
        "cross_pkg": m.input.ident.package != m.ident.package,
        "method_package": ".".join(m.meta.address.package),
        "input_package": ".".join(m.input.ident.package),
        "input_ident": str(m.input.ident), "output_ident": str(m.output.ident),
        "input_pb2": m.input.ident.python_import.module.endswith("_pb2"),
        "output_pb2": m.output.ident.python_import.module.endswith("_pb2"),
        "input_proto": m.input.ident.proto, "output_proto": m.output.ident.proto,
        "transport_safe_name": m.transport_safe_name, "safe_snake": snake(m.transport_safe_name),
        "client_method_name": m.client_method_name, "client_snake": snake(m.client_method_name),
        "grpc_stub_type": m.grpc_stub_type,
        "client_output": str(m.client_output.ident), "client_output_async": str(m.client_output_async.ident),
        "signatures": list(m.options.Extensions[__import__("google.api.client_pb2", fromlist=["x"]).method_signature]),
    }
    try:
        ff = m.flattened_fields
        d["flattened"] = [{
            "key": k, "name": f.name, "pb_name": f.field_pb.name, "repeated": bool(f.repeated), "map": bool(f.map),
            "is_primitive": bool(f.is_primitive), "ident": str(f.ident), "ident_ident": str(f.ident.ident),
            "proto_plus": bool(f.meta.address.is_proto_plus_type), "message": bool(f.message), "enum": bool(f.enum),
            "proto3_optional": bool(f.field_pb.proto3_optional), "oneof": f.oneof,
        } for k, f in ff.items()]
    except Exception as e:  # noqa
        d["flattened_error"] = type(e).__name__
        d["flattened_error_msg"] = str(e)[:200]
    return d


def facts(req_b64):
    req = plugin_pb2.CodeGeneratorRequest.FromString(base64.b64decode(req_b64))
    opts = Options.build(req.parameter)
    package = os.path.commonprefix([p.package for p in req.proto_file if p.name in req.file_to_generate]).rstrip(".")
    a = gapi.API.build(req.proto_file, opts=opts, package=package)
    out = {"ok": True, "package": package, "naming_proto_package": a.naming.proto_package,
           "versioned_module": ".".join(a.naming.module_namespace + (a.naming.versioned_module_name,)),
           "add_iam_methods": bool(opts.add_iam_methods),
           "mixin_api_methods": list(a.mixin_api_methods.keys()),
           "has_iam_mixin": bool(a.has_iam_mixin), "has_location_mixin": bool(a.has_location_mixin),
           "has_operations_mixin": bool(a.has_operations_mixin),
           "services": {}}
    for s in a.services.values():
        out["services"][s.name] = {
            "module": snake(s.name), "client_name": s.client_name, "async_client_name": s.async_client_name,
            "proto": s.meta.address.proto, "subpackage": list(s.meta.address.subpackage),
            "has_lro": bool(s.has_lro),
            "methods": [method_facts(m) for m in s.methods.values()],
        }
    return out


def main():
    cases = json.load(sys.stdin)
    res = []
    for c in cases:
        try:
            res.append(facts(c["request_b64"]))
        except Exception as e:  # noqa
            res.append({"ok": False, "error": type(e).__name__, "message": str(e)[:300], "traceback": traceback.format_exc()[-1200:]})
    print()
    print(json.dumps(res))


main()
