"""Implementation side of C14's pure part: /repo's own functions on given inputs.

stdin: {"snippets": [text...], "apis": [{"request_b64": ...}], "forms": [[lro, paged, cs, ss]...]}
stdout (last line): {"snippets": [{"segments": [[type, start, end]...], "full": text}], "apis": [...], "forms": [name...]}"""
import base64, json, os, sys, traceback
from types import SimpleNamespace
from google.protobuf.compiler import plugin_pb2
from gapic.samplegen_utils import snippet_index, snippet_metadata_pb2, types
from gapic.samplegen import samplegen
from gapic.schema import api as gapi
from gapic.utils import Options
from gapic import utils


def canon_value(v):
    if isinstance(v, bool):
        return ["bool"]
    if isinstance(v, str):
        return ["str", v]
    if isinstance(v, bytes):
        return ["bytes", v.decode("utf-8", "replace")]
    if isinstance(v, int):
        return ["int", v]
    if isinstance(v, float):
        return ["float"]
    if isinstance(v, (list, tuple)):
        return ["list", [canon_value(x) for x in v]]
    if isinstance(v, dict):
        return ["dict", sorted(v)]
    if v is None:
        return ["none"]
    return ["other", type(v).__name__]


def snippet_facts(text):
    md = snippet_metadata_pb2.Snippet()
    s = snippet_index.Snippet(text, md)
    T = snippet_metadata_pb2.Snippet.Segment.SegmentType
    return {"segments": [[T.Name(g.type), g.start, g.end] for g in md.segments], "full": s.full_snippet,
            "nlines": len(s.sample_lines)}


def api_facts(req_b64):
    req = plugin_pb2.CodeGeneratorRequest.FromString(base64.b64decode(req_b64))
    opts = Options.build(req.parameter)
    package = os.path.commonprefix([p.package for p in req.proto_file if p.name in req.file_to_generate]).rstrip(".")
    a = gapi.API.build(req.proto_file, opts=opts, package=package)
    out = {"ok": True, "version": a.naming.version, "proto_package": a.naming.proto_package,
           "specs": [[s["service"], s["rpc"], s["transport"], s["region_tag"]] for s in samplegen.generate_sample_specs(a, opts=opts)],
           "services": []}
    # SnippetIndex: add one (empty-text) snippet per spec, with the metadata _fill_sample_metadata builds, then ask for both slots
    try:
        idx = snippet_index.SnippetIndex(a)
        for sp in samplegen.generate_sample_specs(a, opts=opts):
            sample = dict(sp, module_namespace=a.naming.module_namespace, module_name=a.naming.versioned_module_name)
            idx.add_snippet(snippet_index.Snippet("", samplegen._fill_sample_metadata(sample, a)))
        out["index"] = {}
        for s in a.services.values():
            for m in s.methods.values():
                got = []
                for sync in (True, False):
                    sn = idx.get_snippet(s.name, m.name, sync=sync)
                    got.append(sn.metadata.region_tag if sn is not None else None)
                out["index"][f"{s.name}/{m.name}"] = got
    except Exception as e:  # noqa
        out["index_error"] = f"{type(e).__name__}: {e}"
    for s in a.services.values():
        sd = {"name": s.name, "host": s.host, "shortname": s.shortname, "client": s.client_name, "async_client": s.async_client_name,
              "methods": []}
        for m in s.methods.values():
            md = {"name": m.name, "internal": bool(m.is_internal), "void": bool(m.void), "cs": bool(m.client_streaming),
                  "ss": bool(m.server_streaming), "lro": bool(m.lro), "paged": m.paged_result_field is not None,
                  "flat": [f.name for f in m.flattened_fields.values()],
                  "form": types.CallingForm.method_default(m).name,
                  "client_method": utils.to_snake_case(m.client_method_name)}
            try:
                md["request"] = [[e["field"], canon_value(e["value"])] for e in samplegen.generate_request_object(a, s, m.input)]
            except RecursionError:
                md["request_error"] = "RecursionError"
            except Exception as e:  # noqa
                md["request_error"] = type(e).__name__
            for transport in ("grpc", "grpc-async", "rest"):
                try:
                    sample = {"service": s.meta.address.proto, "rpc": m.name, "transport": transport, "region_tag": "t",
                              "module_namespace": a.naming.module_namespace, "module_name": a.naming.versioned_module_name}
                    sm = samplegen._fill_sample_metadata(sample, a)
                    cm = sm.client_method
                    md.setdefault("meta", {})[transport] = {
                        "client": cm.client.short_name, "method": cm.short_name, "params": [p.name for p in cm.parameters],
                        "has_result": bool(cm.result_type), "async": bool(getattr(cm, "async"))}
                except Exception as e:  # noqa
                    md.setdefault("meta", {})[transport] = {"error": type(e).__name__}
            sd["methods"].append(md)
        out["services"].append(sd)
    return out


def main():
    payload = json.load(sys.stdin)
    out = {"snippets": [], "apis": [], "forms": []}
    for t in payload.get("snippets", []):
        try:
            out["snippets"].append(snippet_facts(t))
        except Exception as e:  # noqa
            out["snippets"].append({"error": type(e).__name__, "message": str(e)[:200]})
    for c in payload.get("apis", []):
        try:
            out["apis"].append(api_facts(c["request_b64"]))
        except Exception as e:  # noqa
            out["apis"].append({"ok": False, "error": type(e).__name__, "message": str(e)[:300], "traceback": traceback.format_exc()[-1500:]})
    for lro, paged, cs, ss in payload.get("forms", []):
        m = SimpleNamespace(lro=lro or None, paged_result_field=paged or None, client_streaming=cs, server_streaming=ss)
        out["forms"].append(types.CallingForm.method_default(m).name)
    print()
    print(json.dumps(out))


main()
