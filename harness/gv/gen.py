"""Run /repo's generator and helper 'impl' scripts in child processes; materialise responses."""
import base64, json, os, subprocess, concurrent.futures as cf, hashlib, shutil
from google.protobuf.compiler import plugin_pb2
from . import env


def write_option_files(case_dir, service_yaml=None, retry=None):
    """Returns extra parameter fragments for option files written into case_dir."""
    import yaml
    os.makedirs(case_dir, exist_ok=True)
    frags = []
    if service_yaml is not None:
        p = os.path.join(case_dir, "service.yaml")
        with open(p, "w") as f:
            yaml.safe_dump(service_yaml, f)
        frags.append(f"service-yaml={p}")
    if retry is not None:
        p = os.path.join(case_dir, "retry.json")
        with open(p, "w") as f:
            json.dump(retry, f)
        frags.append(f"retry-config={p}")
    return frags


def with_params(req, params, case_dir=None, service_yaml=None, retry=None):
    r = plugin_pb2.CodeGeneratorRequest()
    r.CopyFrom(req)
    parts = [p for p in (list(params) if not isinstance(params, str) else [params]) if p]
    if service_yaml is not None or retry is not None:
        parts += write_option_files(case_dir, service_yaml, retry)
    r.parameter = ",".join(parts)
    return r


def faketime_lib():
    """Path of the LD_PRELOAD clock-shift shim (harness/native/faketime.c), built on first use; None if no C compiler works."""
    src = os.path.join(env.VERIF, "harness", "native", "faketime.c")
    out = os.path.join(env.VERIF, "harness", "native", "libgvfaketime.so")
    if not os.path.exists(out) or os.path.getmtime(out) < os.path.getmtime(src):
        tmp = out + f".{os.getpid()}.tmp"
        p = subprocess.run(["cc", "-shared", "-fPIC", "-O1", "-o", tmp, src, "-ldl"], stdout=subprocess.PIPE, stderr=subprocess.PIPE)
        if p.returncode != 0:
            return None
        os.replace(tmp, out)
    return out


def run_generator(req, hashseed="0", cwd=None, timeout=300, clock_offset=0):
    """python -m gapic.cli.generate in a child. Returns (response|None, stderr_text).
    clock_offset: seconds added to the real-time clock seen by the child (LD_PRELOAD shim)."""
    data = req.SerializeToString() if not isinstance(req, (bytes, bytearray)) else bytes(req)
    e = env.child_env(hashseed)
    if clock_offset:
        lib = faketime_lib()
        if lib is None:
            return None, "faketime shim could not be built"
        e["LD_PRELOAD"] = lib
        e["GV_FAKETIME_OFFSET"] = str(int(clock_offset))
    p = subprocess.run([env.PY, "-m", "gapic.cli.generate"], input=data, stdout=subprocess.PIPE,
                       stderr=subprocess.PIPE, env=e, cwd=cwd or env.scratch(), timeout=timeout)
    if p.returncode != 0:
        return None, p.stderr.decode("utf-8", "replace")
    res = plugin_pb2.CodeGeneratorResponse()
    res.ParseFromString(p.stdout)
    return res, p.stderr.decode("utf-8", "replace")


def error_kind(stderr: str) -> str:
    """Last exception class name of a traceback (the small error enum of DESIGN 4.5)."""
    lines = [l for l in stderr.strip().split("\n") if l and not l.startswith(" ")]
    for l in reversed(lines):
        head = l.split(":")[0].strip()
        if head and head.replace(".", "").replace("_", "").isalnum() and head[0].isalpha():
            return head.split(".")[-1]
    return "UnknownError"


def pmap(fn, items, workers=None):
    with cf.ThreadPoolExecutor(max_workers=workers or env.NCPU) as ex:
        return list(ex.map(fn, items))


def materialize(res, outdir):
    for f in res.file:
        p = os.path.join(outdir, f.name)
        os.makedirs(os.path.dirname(p), exist_ok=True)
        with open(p, "w", encoding="utf-8") as fh:
            fh.write(f.content)
    return outdir


def files_of(res):
    return {f.name: f.content for f in res.file}


def impl(module, payload, hashseed="0", timeout=600, extra_path=None, cwd=None):
    """Run `python -m gv.impl.<module>` with a JSON payload on stdin; JSON result on stdout.
    The child imports gapic from /repo's working tree."""
    e = env.child_env(hashseed)
    if extra_path:
        e["PYTHONPATH"] = extra_path + ":" + e["PYTHONPATH"]
    p = subprocess.run([env.PY, "-m", f"gv.impl.{module}"], input=json.dumps(payload).encode(),
                       stdout=subprocess.PIPE, stderr=subprocess.PIPE, env=e, cwd=cwd or env.scratch(), timeout=timeout)
    if p.returncode != 0:
        raise RuntimeError(f"impl {module} failed: {p.stderr.decode('utf-8', 'replace')[-3000:]}")
    out = p.stdout.decode("utf-8", "replace")
    # the result is the last line (children may print warnings before it)
    return json.loads(out.strip().split("\n")[-1])


def case_dir(tag):
    d = os.path.join(env.scratch(), tag)
    os.makedirs(d, exist_ok=True)
    return d


def rm(d):
    shutil.rmtree(d, ignore_errors=True)
