"""Parent-side dynamic messages built from the *input* descriptors (independent of the emitted code)."""
import base64, random
from google.protobuf import descriptor_pool, message_factory, json_format
from google.protobuf.descriptor import FieldDescriptor as FD


class Dyn:
    def __init__(self, req):
        self.pool = descriptor_pool.DescriptorPool()
        for fp in req.proto_file:
            self.pool.AddSerializedFile(fp.SerializeToString())

    def cls(self, fqn):
        return message_factory.GetMessageClass(self.pool.FindMessageTypeByName(fqn.lstrip(".")))

    def new(self, fqn, **kw):
        return self.cls(fqn)(**kw)

    def parse(self, fqn, b64):
        m = self.cls(fqn)()
        m.ParseFromString(base64.b64decode(b64))
        return m

    @staticmethod
    def b64(m):
        return base64.b64encode(m.SerializeToString(deterministic=True)).decode()

    @staticmethod
    def canon(m):
        """Canonical comparable form: deterministic serialisation re-parsed to a dict with proto names."""
        return json_format.MessageToDict(m, preserving_proto_field_name=True, always_print_fields_with_no_presence=False)

    def random(self, r: random.Random, fqn, depth=0, fill=0.7, skip=()):
        """A random valuation of the message (all field kinds; recursion bounded by depth)."""
        m = self.cls(fqn)()
        d = m.DESCRIPTOR
        chosen_oneof = {}
        for o in d.oneofs:
            real = [f for f in o.fields]
            if real and r.random() < fill:
                chosen_oneof[o.name] = r.choice(real).name
        for f in d.fields:
            if f.name in skip:
                continue
            if f.containing_oneof is not None:
                if chosen_oneof.get(f.containing_oneof.name) != f.name:
                    continue
            elif r.random() > fill:
                continue
            self._set(r, m, f, depth)
        return m

    def _scalar(self, r, f):
        t = f.type
        if t in (FD.TYPE_STRING,):
            return r.choice(["", "x", "shelves/s1/books/b2", "a b/c?d=e&f", "héllo", "v-1.2_3~4", "0"])
        if t == FD.TYPE_BYTES:
            return bytes(r.randrange(256) for _ in range(r.randint(0, 5)))
        if t == FD.TYPE_BOOL:
            return r.random() < 0.5
        if t in (FD.TYPE_DOUBLE,):
            return r.choice([0.0, 1.5, -2.25, 1e10, 3.0])
        if t in (FD.TYPE_FLOAT,):
            return r.choice([0.0, 1.5, -2.25, 1024.0])
        if t == FD.TYPE_ENUM:
            return r.choice([v.number for v in f.enum_type.values])
        if t in (FD.TYPE_UINT32, FD.TYPE_FIXED32):
            return r.choice([0, 1, 7, 2 ** 32 - 1])
        if t in (FD.TYPE_UINT64, FD.TYPE_FIXED64):
            return r.choice([0, 1, 9, 2 ** 64 - 1])
        if t in (FD.TYPE_INT32, FD.TYPE_SINT32, FD.TYPE_SFIXED32):
            return r.choice([0, 1, -1, 2 ** 31 - 1, -2 ** 31])
        return r.choice([0, 1, -1, 2 ** 63 - 1, -2 ** 63])

    def _set(self, r, m, f, depth):
        is_map = f.type == FD.TYPE_MESSAGE and f.message_type.GetOptions().map_entry
        if is_map:
            kf, vf = f.message_type.fields_by_name["key"], f.message_type.fields_by_name["value"]
            for _ in range(r.randint(1, 2)):
                k = self._scalar(r, kf)
                if vf.type == FD.TYPE_MESSAGE:
                    getattr(m, f.name)[k].CopyFrom(self.random(r, vf.message_type.full_name, depth + 1))
                else:
                    getattr(m, f.name)[k] = self._scalar(r, vf)
        elif f.label == FD.LABEL_REPEATED:
            for _ in range(r.randint(1, 3)):
                if f.type == FD.TYPE_MESSAGE:
                    if depth < 3:
                        getattr(m, f.name).add().CopyFrom(self.random(r, f.message_type.full_name, depth + 1))
                else:
                    getattr(m, f.name).append(self._scalar(r, f))
        elif f.type == FD.TYPE_MESSAGE:
            if depth < 3:
                full = f.message_type.full_name
                if full in ("google.protobuf.Any",):
                    getattr(m, f.name).type_url = "type.googleapis.com/google.protobuf.Empty"
                elif full in ("google.protobuf.Struct", "google.protobuf.Value", "google.protobuf.ListValue"):
                    if full == "google.protobuf.Struct":
                        getattr(m, f.name)["k"] = "v"
                    elif full == "google.protobuf.Value":
                        getattr(m, f.name).string_value = "v"
                    else:
                        getattr(m, f.name).values.add().number_value = 1.0
                elif full == "google.protobuf.FieldMask":
                    getattr(m, f.name).paths.append("name")
                elif full == "google.protobuf.Timestamp":
                    getattr(m, f.name).seconds = r.choice([1, 1700000000])
                elif full == "google.protobuf.Duration":
                    getattr(m, f.name).seconds = r.choice([1, 30])
                else:
                    getattr(m, f.name).CopyFrom(self.random(r, full, depth + 1))
                    if not getattr(m, f.name).ByteSize():
                        getattr(m, f.name).SetInParent()
        else:
            setattr(m, f.name, self._scalar(r, f))
