"""T0 extractors shared by several properties: constants read from /repo with ast (fail-closed)."""
import ast, keyword, os
from . import env, coq


def _parse(rel):
    p = os.path.join(env.REPO, rel)
    return ast.parse(open(p, encoding="utf-8").read(), filename=p)


def _strs(node):
    if not isinstance(node, (ast.List, ast.Set, ast.Tuple)):
        raise ValueError(f"expected a literal collection, got {ast.dump(node)[:80]}")
    out = []
    for e in node.elts:
        if not (isinstance(e, ast.Constant) and isinstance(e.value, str)):
            raise ValueError("non-string element in a constant collection")
        out.append(e.value)
    return out


def reserved_names():
    for n in _parse("gapic/utils/reserved_names.py").body:
        if isinstance(n, ast.Assign) and any(isinstance(t, ast.Name) and t.id == "RESERVED_NAMES" for t in n.targets):
            c = n.value
            if isinstance(c, ast.Call) and getattr(c.func, "id", "") == "frozenset" and len(c.args) == 1:
                return sorted(set(_strs(c.args[0])))
    raise ValueError("RESERVED_NAMES = frozenset([...]) not found in gapic/utils/reserved_names.py")


def imported_module_names():
    """IMPORTED_MODULE_NAMES of gapic/utils/reserved_names.py ([] when the tree does not have it)."""
    for n in _parse("gapic/utils/reserved_names.py").body:
        if isinstance(n, ast.Assign) and any(isinstance(t, ast.Name) and t.id == "IMPORTED_MODULE_NAMES" for t in n.targets):
            c = n.value
            if isinstance(c, ast.Call) and getattr(c.func, "id", "") == "frozenset" and len(c.args) == 1:
                return sorted(set(_strs(c.args[0])))
    return []


def transport_unsafe():
    t = _parse("gapic/schema/wrappers.py")
    for cls in [n for n in t.body if isinstance(n, ast.ClassDef) and n.name == "Method"]:
        for fn in [n for n in cls.body if isinstance(n, ast.FunctionDef) and n.name == "transport_safe_name"]:
            for n in ast.walk(fn):
                if isinstance(n, ast.Assign) and getattr(n.targets[0], "id", "") == "TRANSPORT_UNSAFE_NAMES":
                    c = n.value
                    if (isinstance(c, ast.Call) and getattr(c.func, "id", "") == "chain" and len(c.args) == 2
                            and ast.unparse(c.args[1]) == "keyword.kwlist"):
                        return sorted(set(_strs(c.args[0])))
    raise ValueError("TRANSPORT_UNSAFE_NAMES = chain({...}, keyword.kwlist) not found in Method.transport_safe_name")


def invalid_module_extra():
    t = _parse("gapic/schema/api.py")
    for n in ast.walk(t):
        if isinstance(n, ast.Assign) and getattr(n.targets[0], "id", "") == "invalid_module_names":
            c = n.value
            if (isinstance(c, ast.BinOp) and isinstance(c.op, ast.BitOr) and ast.unparse(c.left) == "set(keyword.kwlist)"):
                return sorted(set(_strs(c.right)))
    raise ValueError("invalid_module_names = set(keyword.kwlist) | {...} not found in gapic/schema/api.py")


def write_kw():
    text = ("(* Gen/Kw.v — REGENERATED from /repo and the interpreter on every run (T0). Do not edit. *)\n"
            "From GV Require Import Base.Str.\n"
            f"Definition RESERVED_NAMES : list string := {coq.slist(reserved_names())}.\n"
            f"Definition KWLIST : list string := {coq.slist(sorted(keyword.kwlist))}.\n"
            f"Definition SOFTKWLIST : list string := {coq.slist(sorted(keyword.softkwlist))}.\n"
            f"Definition TRANSPORT_UNSAFE : list string := {coq.slist(transport_unsafe())}.\n"
            f"Definition INVALID_MODULE_EXTRA : list string := {coq.slist(invalid_module_extra())}.\n"
            f"Definition IMPORTED_MODULE_NAMES : list string := {coq.slist(imported_module_names())}.\n")
    coq.write_gen("Kw", text)


def template_list(tree="gapic/templates"):
    base = os.path.join(env.REPO, tree)
    out = []
    for root, _, files in os.walk(base):
        for f in files:
            out.append(os.path.relpath(os.path.join(root, f), base))
    if not out:
        raise ValueError(f"no templates under {tree}")
    return sorted(out)


def write_templates():
    text = ("(* Gen/Templates.v — REGENERATED template path lists (T0). Do not edit. *)\nFrom GV Require Import Base.Str.\n"
            f"Definition DEFAULT_TEMPLATES : list string := {coq.slist(template_list('gapic/templates'))}.\n"
            f"Definition ADS_TEMPLATES : list string := {coq.slist(template_list('gapic/ads-templates'))}.\n")
    coq.write_gen("Templates", text)
