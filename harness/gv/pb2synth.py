"""Synthesize <pkg>/<file>_pb2.py for dependency files (no protoc): the three lines protoc would emit."""
import os


def write_pb2(root, fdp):
    """fdp: FileDescriptorProto of a dependency file (its own deps must be importable pb2 modules)."""
    rel = fdp.name[:-len(".proto")] + "_pb2.py"
    path = os.path.join(root, rel)
    os.makedirs(os.path.dirname(path), exist_ok=True)
    d = os.path.dirname(path)
    # namespace packages: no __init__.py needed (PEP 420)
    imports = []
    for dep in fdp.dependency:
        mod = dep[:-len(".proto")].replace("/", ".") + "_pb2"
        imports.append(f"import {mod}  # noqa")
    src = f'''# synthesized by /verif/harness/gv/pb2synth.py
from google.protobuf import descriptor_pool as _descriptor_pool
from google.protobuf import symbol_database as _symbol_database
from google.protobuf.internal import builder as _builder
{chr(10).join(imports)}
_sym_db = _symbol_database.Default()
DESCRIPTOR = _descriptor_pool.Default().AddSerializedFile({fdp.SerializeToString()!r})
_globals = globals()
_builder.BuildMessageAndEnumDescriptors(DESCRIPTOR, _globals)
_builder.BuildTopDescriptorsAndMessages(DESCRIPTOR, {(fdp.name[:-len(".proto")].replace("/", ".") + "_pb2")!r}, _globals)
'''
    with open(path, "w") as f:
        f.write(src)
    return path
