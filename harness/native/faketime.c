/* LD_PRELOAD shim: shifts the real-time clock by GV_FAKETIME_OFFSET seconds (C10: wall-clock independence). */
#define _GNU_SOURCE
#include <dlfcn.h>
#include <stdlib.h>
#include <time.h>
#include <sys/time.h>

static long long offset_s(void) {
    static int init = 0; static long long off = 0;
    if (!init) { const char *e = getenv("GV_FAKETIME_OFFSET"); off = e ? atoll(e) : 0; init = 1; }
    return off;
}
int clock_gettime(clockid_t clk, struct timespec *ts) {
    static int (*real)(clockid_t, struct timespec *) = 0;
    if (!real) real = dlsym(RTLD_NEXT, "clock_gettime");
    int r = real(clk, ts);
    if (r == 0 && (clk == CLOCK_REALTIME || clk == CLOCK_REALTIME_COARSE)) ts->tv_sec += offset_s();
    return r;
}
int gettimeofday(struct timeval *tv, void *tz) {
    static int (*real)(struct timeval *, void *) = 0;
    if (!real) real = dlsym(RTLD_NEXT, "gettimeofday");
    int r = real(tv, tz);
    if (r == 0 && tv) tv->tv_sec += offset_s();
    return r;
}
time_t time(time_t *t) {
    static time_t (*real)(time_t *) = 0;
    if (!real) real = dlsym(RTLD_NEXT, "time");
    time_t v = real(0) + offset_s();
    if (t) *t = v;
    return v;
}
