#!/bin/sh
# Build the whole Coq development from files on disk (offline). Gen/*.v are regenerated from /repo first.
set -e
HERE="$(cd "$(dirname "$0")" && pwd)"
cd "$HERE"
export PYTHONPATH="$HERE/harness:/repo" PYTHONHASHSEED=0 PYTHONDONTWRITEBYTECODE=1 PATH="$HERE/harness/bin:$PATH"
/venv/bin/python -m gv.setup "$@"
