(* Base/Str.v — byte strings as Coq [string]; helpers shared by every model.
   Definitions only plus the handful of structural lemmas every proof file needs. *)
From Coq Require Export String Ascii List Bool Arith NArith Lia.
Export ListNotations.
Open Scope string_scope.

(* ---- construction from byte codes (the harness emits [sx [104;105]%N] for arbitrary bytes) ---- *)
Definition chr (n : N) : ascii := ascii_of_N n.
Definition ord (c : ascii) : N := N_of_ascii c.
Fixpoint sx (l : list N) : string :=
  match l with [] => EmptyString | n :: l' => String (chr n) (sx l') end.
Fixpoint xs (s : string) : list N :=
  match s with EmptyString => [] | String c s' => ord c :: xs s' end.

Definition nl : ascii := chr 10.
Definition tab : ascii := chr 9.
Definition sp : ascii := " "%char.

Definition s1 (c : ascii) : string := String c EmptyString.

(* ---- basic operations ---- *)
Fixpoint contains (c : ascii) (s : string) : bool :=
  match s with EmptyString => false | String a s' => Ascii.eqb a c || contains c s' end.

Fixpoint strip_prefix (p s : string) : option string :=
  match p, s with
  | EmptyString, _ => Some s
  | String a p', String b s' => if Ascii.eqb a b then strip_prefix p' s' else None
  | _, _ => None
  end.

Definition starts_with (p s : string) : bool :=
  match strip_prefix p s with Some _ => true | None => false end.

Fixpoint srev_acc (s acc : string) : string :=
  match s with EmptyString => acc | String c s' => srev_acc s' (String c acc) end.
Definition srev (s : string) : string := srev_acc s EmptyString.

Definition ends_with (p s : string) : bool := starts_with (srev p) (srev s).

Fixpoint sconcat (l : list string) : string :=
  match l with [] => "" | x :: l' => x ++ sconcat l' end.

Fixpoint sjoin (sep : string) (l : list string) : string :=
  match l with
  | [] => ""
  | [x] => x
  | x :: l' => x ++ sep ++ sjoin sep l'
  end.

(* split on a single character; Python's str.split(c): always at least one piece *)
Fixpoint split_on_acc (c : ascii) (s acc : string) : list string :=
  match s with
  | EmptyString => [srev acc]
  | String a s' => if Ascii.eqb a c then srev acc :: split_on_acc c s' EmptyString
                   else split_on_acc c s' (String a acc)
  end.
Definition split_on (c : ascii) (s : string) : list string := split_on_acc c s EmptyString.

Fixpoint sall (f : ascii -> bool) (s : string) : bool :=
  match s with EmptyString => true | String a s' => f a && sall f s' end.
Fixpoint sany (f : ascii -> bool) (s : string) : bool :=
  match s with EmptyString => false | String a s' => f a || sany f s' end.

Fixpoint sdrop_while (f : ascii -> bool) (s : string) : string :=
  match s with
  | EmptyString => EmptyString
  | String a s' => if f a then sdrop_while f s' else s
  end.
Fixpoint stake_while (f : ascii -> bool) (s : string) : string :=
  match s with
  | EmptyString => EmptyString
  | String a s' => if f a then String a (stake_while f s') else EmptyString
  end.

Definition lstrip_by (f : ascii -> bool) (s : string) : string := sdrop_while f s.
Definition rstrip_by (f : ascii -> bool) (s : string) : string := srev (sdrop_while f (srev s)).
Definition strip_by (f : ascii -> bool) (s : string) : string := lstrip_by f (rstrip_by f s).

Fixpoint sdrop (n : nat) (s : string) : string :=
  match n, s with
  | O, _ => s
  | S n', String _ s' => sdrop n' s'
  | S _, EmptyString => EmptyString
  end.
Fixpoint stake (n : nat) (s : string) : string :=
  match n, s with
  | O, _ => EmptyString
  | S n', String a s' => String a (stake n' s')
  | S _, EmptyString => EmptyString
  end.

Definition is_empty (s : string) : bool := match s with EmptyString => true | _ => false end.

Fixpoint smap (f : ascii -> ascii) (s : string) : string :=
  match s with EmptyString => EmptyString | String a s' => String (f a) (smap f s') end.

Definition in_range (lo hi : N) (c : ascii) : bool := (N.leb lo (ord c)) && (N.leb (ord c) hi).
Definition is_lower (c : ascii) : bool := in_range 97 122 c.
Definition is_upper (c : ascii) : bool := in_range 65 90 c.
Definition is_digit (c : ascii) : bool := in_range 48 57 c.
Definition is_alpha (c : ascii) : bool := is_lower c || is_upper c.
Definition is_alnum (c : ascii) : bool := is_alpha c || is_digit c.
(* Python \w on ASCII *)
Definition is_word (c : ascii) : bool := is_alnum c || Ascii.eqb c "_"%char.
(* Python \s / str.isspace on ASCII: 9-13, 28-31, 32 *)
Definition is_pyspace (c : ascii) : bool := in_range 9 13 c || in_range 28 31 c || Ascii.eqb c sp.
(* textwrap._whitespace: 9-13, 32 *)
Definition is_twspace (c : ascii) : bool := in_range 9 13 c || Ascii.eqb c sp.
Definition to_lower (c : ascii) : ascii := if is_upper c then chr (ord c + 32) else c.
Definition to_upper (c : ascii) : ascii := if is_lower c then chr (ord c - 32) else c.
Definition lower (s : string) : string := smap to_lower s.
Definition upper (s : string) : string := smap to_upper s.

Definition mem_str (x : string) (l : list string) : bool := existsb (String.eqb x) l.

Fixpoint assoc {A} (k : string) (l : list (string * A)) : option A :=
  match l with
  | [] => None
  | (k', v) :: l' => if String.eqb k k' then Some v else assoc k l'
  end.

(* list equality helpers used by correspondence checks *)
Fixpoint list_eqb {A} (eqb : A -> A -> bool) (l1 l2 : list A) : bool :=
  match l1, l2 with
  | [], [] => true
  | a :: l1', b :: l2' => eqb a b && list_eqb eqb l1' l2'
  | _, _ => false
  end.
Definition option_eqb {A} (eqb : A -> A -> bool) (o1 o2 : option A) : bool :=
  match o1, o2 with
  | None, None => true
  | Some a, Some b => eqb a b
  | _, _ => false
  end.
Definition pair_eqb {A B} (ea : A -> A -> bool) (eb : B -> B -> bool) (p q : A * B) : bool :=
  ea (fst p) (fst q) && eb (snd p) (snd q).

(* indices of failing checks: the one line each cases file prints *)
Fixpoint failing_from (i : nat) (l : list bool) : list nat :=
  match l with
  | [] => []
  | b :: l' => if b then failing_from (S i) l' else i :: failing_from (S i) l'
  end.
Definition failing (l : list bool) : list nat := failing_from 0 l.

(* ---- lemmas ---- *)
Lemma strip_prefix_app l r : strip_prefix l (l ++ r) = Some r.
Proof. induction l as [|a l IH]; simpl; [reflexivity|]. rewrite Ascii.eqb_refl. exact IH. Qed.

Lemma strip_prefix_sound p : forall s r, strip_prefix p s = Some r -> s = p ++ r.
Proof.
  induction p as [|a p IH]; intros s r H; simpl in *.
  - now inversion H.
  - destruct s as [|b s]; [discriminate|].
    destruct (Ascii.eqb a b) eqn:E; [|discriminate].
    apply Ascii.eqb_eq in E. subst b. simpl. f_equal. now apply IH.
Qed.

Lemma sapp_assoc (a b c : string) : (a ++ b) ++ c = a ++ (b ++ c).
Proof. induction a as [|x a IH]; simpl; [reflexivity|]. now rewrite IH. Qed.

Lemma sapp_nil_r (a : string) : a ++ "" = a.
Proof. induction a as [|x a IH]; simpl; [reflexivity|]. now rewrite IH. Qed.

Lemma contains_app c a b : contains c (a ++ b) = contains c a || contains c b.
Proof. induction a as [|x a IH]; simpl; [reflexivity|]. rewrite IH. now rewrite orb_assoc. Qed.

Lemma failing_nil_all l : failing l = [] -> forallb (fun b => b) l = true.
Proof.
  unfold failing. generalize 0. induction l as [|b l IH]; intros n H; simpl in *; [reflexivity|].
  destruct b; [simpl; eauto | discriminate].
Qed.
