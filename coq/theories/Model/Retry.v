(* Model/Retry.v — C09: default retry and timeout from the gRPC service config.
   Mirrors
     gapic/schema/api.py   _ProtoBuilder._get_retry_and_timeout, _ProtoBuilder._to_float
     templates             transports/base.py.j2 (_prep_wrapped_messages), _shared_macros.j2
                           (prep_wrapped_messages_async_method): which keyword arguments are printed
   and, as contracts about code outside the generator, google.api_core: gapic_v1.method._GapicCallable (default
   versus explicit retry/timeout), retry.retry_target with exponential_sleep_generator on a clock that only
   sleeps advance, timeout.TimeToDeadlineTimeout, retry.if_exception_type.
   Durations are exact rationals; no floating point anywhere.  Definitions only. *)
From Coq Require Import QArith Qminmax.
From GV Require Import Base.Str Gen.RetryGen.
Open Scope string_scope.
Open Scope Q_scope.

(* ------------------------------------------------------------------ the service config (JSON) *)
(* one element of an entry's name list: keys that are absent are None *)
Record name_sel := mkName { n_service : option string; n_method : option string }.

Record retry_policy := mkPolicy {
  rp_initial : option string;       (* initialBackoff, a duration string *)
  rp_max : option string;           (* maxBackoff *)
  rp_multiplier : option Q;         (* backoffMultiplier, a JSON number *)
  rp_codes : list string            (* retryableStatusCodes *)
}.

Record method_config := mkMC {
  mc_names : list name_sel;
  mc_timeout : option string;
  mc_retry : option retry_policy
}.

(* the selector of a method is the dict with both keys; dict equality means both keys present and equal *)
Definition selector_matches (service method : string) (n : name_sel) : bool :=
  option_eqb String.eqb (n_service n) (Some service) && option_eqb String.eqb (n_method n) (Some method).

Definition names_method (service method : string) (mc : method_config) : bool :=
  existsb (selector_matches service method) (mc_names mc).

(* the two dicts that name every method of a service: the service alone, or the service with an empty method *)
Definition service_wide_matches (service : string) (n : name_sel) : bool :=
  option_eqb String.eqb (n_service n) (Some service) &&
  match n_method n with None => true | Some m => is_empty m end.

Definition names_service (service : string) (mc : method_config) : bool :=
  existsb (service_wide_matches service) (mc_names mc).

(* next(c for c in methodConfig if selector in c["name"]) or next(c for c in methodConfig if any(s in c["name"] ...)):
   first the entries that name the method exactly, in list order; only when there is none, the entries that name the
   whole service, in list order *)
Definition lookup_exact (cfg : list method_config) (service method : string) : option method_config :=
  find (names_method service method) cfg.
Definition lookup_service (cfg : list method_config) (service : string) : option method_config :=
  find (names_service service) cfg.
Definition lookup (cfg : list method_config) (service method : string) : option method_config :=
  match lookup_exact cfg service method with
  | Some mc => Some mc
  | None => lookup_service cfg service
  end.

(* ------------------------------------------------------------------ _to_float *)
Definition digit_of (c : ascii) : option Z :=
  if is_digit c then Some (Z.of_N (ord c) - 48)%Z else None.

(* Horner evaluation of a run of decimal digits; None when some character is not a digit *)
Fixpoint parse_digits (s : string) (acc : Z) : option Z :=
  match s with
  | EmptyString => Some acc
  | String c s' => match digit_of c with
                   | Some d => parse_digits s' (acc * 10 + d)%Z
                   | None => None
                   end
  end.

(* s[:-1] and s[-1] *)
Fixpoint drop_last (s : string) : string :=
  match s with
  | EmptyString => EmptyString
  | String c EmptyString => EmptyString
  | String c s' => String c (drop_last s')
  end.
Fixpoint last_char (s : string) : option ascii :=
  match s with
  | EmptyString => None
  | String c EmptyString => Some c
  | String _ s' => last_char s'
  end.

(* the text before the first dot, and the text after it when there is one *)
Fixpoint split_dot (s : string) : string * option string :=
  match s with
  | EmptyString => (EmptyString, None)
  | String c s' => if Ascii.eqb c "."%char then (EmptyString, Some s')
                   else let '(a, b) := split_dot s' in (String c a, b)
  end.

Fixpoint pow10 (n : nat) : positive := match n with O => 1%positive | S k => (10 * pow10 k)%positive end.

(* unsigned decimal literal  digits [ . digits ]  with at least one digit overall *)
Definition parse_unsigned (s : string) : option Q :=
  let '(ip, fp) := split_dot s in
  match fp with
  | None => if is_empty ip then None else
            match parse_digits ip 0 with Some a => Some (a # 1) | None => None end
  | Some f =>
      if is_empty ip && is_empty f then None else
      match parse_digits ip 0, parse_digits f 0 with
      | Some a, Some b => Some ((a * Zpos (pow10 (String.length f)) + b)%Z # pow10 (String.length f))
      | _, _ => None
      end
  end.

(* optional sign *)
Definition parse_decimal (s : string) : option Q :=
  match s with
  | String "-"%char s' => option_map Qopp (parse_unsigned s')
  | String "+"%char s' => parse_unsigned s'
  | _ => parse_unsigned s
  end.

Definition parse_int (s : string) : option Z :=
  let digits t := if is_empty t then None else parse_digits t 0 in
  match s with
  | String "-"%char s' => option_map Z.opp (digits s')
  | String "+"%char s' => digits s'
  | _ => digits s
  end.

(* int(s[:-1]) / 1e9 if s.endswith("n") else float(s[:-1]); None stands for the ValueError Python raises on the
   literals modelled here (signs, digits, one dot) *)
Definition to_float (s : string) : option Q :=
  match last_char s with
  | Some "n"%char => option_map (fun z => z # 1000000000) (parse_int (drop_last s))
  | _ => parse_decimal (drop_last s)
  end.

(* ------------------------------------------------------------------ what the table of wrapped methods says *)
Inductive gen_error := ErrBadDuration (s : string) (* ValueError *) | ErrBadStatusCode (c : string) (* AttributeError *).

Record emitted_retry := mkER {
  er_initial : option Q;            (* None: keyword argument not printed *)
  er_maximum : option Q;
  er_multiplier : option Q;
  er_predicate : list string;       (* core_exceptions class names, as printed: sorted, no repetition *)
  er_deadline : option Q            (* always printed; None prints as None *)
}.
Record emitted := mkE { e_retry : option emitted_retry; e_timeout : option Q }.
Inductive gen_result := GenOk (e : emitted) | GenError (err : gen_error).

(* {% if x %}: a number is printed only when it is not zero *)
Definition truthy (q : Q) : option Q := if Qeq_bool q 0 then None else Some q.

Definition class_of_code (code : string) : option string := assoc code CODE_CLASS.

(* sorted(set(...), key=__name__) *)
Fixpoint insert_sorted (x : string) (l : list string) : list string :=
  match l with
  | [] => [x]
  | y :: l' => if String.eqb x y then l
               else if String.ltb x y then x :: l else y :: insert_sorted x l'
  end.
Definition sort_set (l : list string) : list string := fold_right insert_sorted [] l.

Fixpoint classes_of (codes : list string) : gen_error + list string :=
  match codes with
  | [] => inr []
  | c :: rest => match class_of_code c with
                 | None => inl (ErrBadStatusCode c)
                 | Some k => match classes_of rest with inl e => inl e | inr ks => inr (k :: ks) end
                 end
  end.

Definition duration_or_zero (o : option string) : gen_error + Q :=
  match o with
  | None => inr 0
  | Some s => match to_float s with Some q => inr q | None => inl (ErrBadDuration s) end
  end.

(* if mc.get("timeout"): an absent or empty string is skipped *)
Definition parse_timeout (o : option string) : gen_error + option Q :=
  match o with
  | None => inr None
  | Some s => if is_empty s then inr None else
              match to_float s with Some q => inr (Some q) | None => inl (ErrBadDuration s) end
  end.

(* wrappers.RetryInfo as _get_retry_and_timeout builds it (max_attempts is stored but never printed) *)
Record retry_info := mkRI { ri_initial : Q; ri_max : Q; ri_multiplier : Q; ri_classes : list string }.

Definition parse_policy (rp : retry_policy) : gen_error + retry_info :=
  match duration_or_zero (rp_initial rp) with
  | inl e => inl e
  | inr ib =>
      match duration_or_zero (rp_max rp) with
      | inl e => inl e
      | inr mb =>
          match classes_of (rp_codes rp) with
          | inl e => inl e
          | inr ks => inr (mkRI ib mb (match rp_multiplier rp with Some m => m | None => 0 end) (sort_set ks))
          end
      end
  end.

(* _get_retry_and_timeout for the entry that applies (None: no entry): (retry, timeout) *)
Definition entry_info (mc : option method_config) : gen_error + (option retry_info * option Q) :=
  match mc with
  | None => inr (None, None)
  | Some mc =>
      match parse_timeout (mc_timeout mc) with
      | inl e => inl e
      | inr t =>
          match mc_retry mc with
          | None => inr (None, t)
          | Some rp => match parse_policy rp with
                       | inl e => inl e
                       | inr ri => inr (Some ri, t)
                       end
          end
      end
  end.

(* the template: keyword arguments printed for a method with this retry and timeout *)
Definition render_retry (ri : retry_info) (t : option Q) : emitted_retry :=
  mkER (truthy (ri_initial ri)) (truthy (ri_max ri)) (truthy (ri_multiplier ri)) (ri_classes ri) t.
Definition render (ri : option retry_info) (t : option Q) : emitted :=
  mkE (option_map (fun r => render_retry r t) ri) t.

(* the row of one method, given the entry that applies to it *)
Definition emit_entry (mc : option method_config) : gen_result :=
  match entry_info mc with
  | inl e => GenError e
  | inr (ri, t) => GenOk (render ri t)
  end.

(* the table row of a method as the transports print it.  [internal] is whether selective generation
   (generate_omitted_as_internal) made the rpc an internal _method of the client: Method.with_internal_methods only
   flips that flag, the retry and timeout found for the rpc stay with it, so the row does not depend on it. *)
Definition row_of (internal : bool) (cfg : list method_config) (service method : string) : gen_result :=
  emit_entry (lookup cfg service method).

Definition method_info (cfg : list method_config) (service method : string) : gen_error + (option retry_info * option Q) :=
  entry_info (lookup cfg service method).

Definition emit (cfg : list method_config) (service method : string) : gen_result :=
  emit_entry (lookup cfg service method).

(* ------------------------------------------------------------------ contract: what api_core does with a row *)
(* retries.Retry(...): arguments left out take api_core's defaults; if_exception_type(classes) *)
Record retry_params := mkRP {
  r_initial : Q; r_maximum : Q; r_multiplier : Q;
  r_classes : list string;
  r_deadline : option Q
}.
Definition effective (er : emitted_retry) : retry_params :=
  mkRP (match er_initial er with Some q => q | None => DEFAULT_INITIAL end)
       (match er_maximum er with Some q => q | None => DEFAULT_MAXIMUM end)
       (match er_multiplier er with Some q => q | None => DEFAULT_MULTIPLIER end)
       (er_predicate er) (er_deadline er).

(* isinstance(error raised for status [code], class) *)
Definition class_accepts (cls code : string) : bool :=
  match assoc cls CLASS_ACCEPTS with Some l => mem_str code l | None => false end.
Definition accepts (classes : list string) (code : string) : bool :=
  existsb (fun k => class_accepts k code) classes.

(* the server's scripted answer to one attempt *)
Inductive reply := Ok | Err (code : string).
Inductive final := FOk | FSurfaced (code : string) | FRetryError (last : string) | FScriptExhausted.
Record trace := mkTrace {
  t_attempts : nat;
  t_sleeps : list Q;                (* requested sleeps, in order *)
  t_timeouts : list (option Q);     (* timeout argument of each attempt *)
  t_final : final
}.

(* TimeToDeadlineTimeout: what is left of the timeout since the first attempt, reset when under one second *)
Definition attempt_timeout (t : option Q) (elapsed : Q) : option Q :=
  match t with
  | None => None
  | Some T => let r := T - elapsed in Some (if Qle_bool 1 r then r else T)
  end.

Definition cons_attempt (tm : option Q) (tr : trace) : trace :=
  mkTrace (S (t_attempts tr)) (t_sleeps tr) (tm :: t_timeouts tr) (t_final tr).
Definition cons_sleep (s : Q) (tr : trace) : trace :=
  mkTrace (t_attempts tr) (s :: t_sleeps tr) (t_timeouts tr) (t_final tr).
Definition stop (f : final) : trace := mkTrace 0 [] [] f.

Section Loop.
  (* random.uniform(0, d) of the i-th draw *)
  Variable jitter : nat -> Q -> Q.

  (* retry_target + exponential_sleep_generator; [delay] is the generator's max_delay for the draw at hand,
     [now] the time since the call started.  Structural in the server's script. *)
  Fixpoint loop (p : retry_params) (t : option Q) (script : list reply) (i : nat) (delay now : Q) : trace :=
    match script with
    | [] => stop FScriptExhausted
    | Ok :: _ => cons_attempt (attempt_timeout t now) (stop FOk)
    | Err c :: rest =>
        cons_attempt (attempt_timeout t now)
          (if accepts (r_classes p) c then
             let s := jitter i delay in
             let over := match r_deadline p with
                         | Some D => negb (Qle_bool (now + s) D)
                         | None => false
                         end in
             if over then stop (FRetryError c)
             else cons_sleep s (loop p t rest (S i) (Qmin (delay * r_multiplier p) (r_maximum p)) (now + s))
           else stop (FSurfaced c))
    end.

  Definition single (t : option Q) (script : list reply) : trace :=
    match script with
    | [] => stop FScriptExhausted
    | Ok :: _ => cons_attempt (attempt_timeout t 0) (stop FOk)
    | Err c :: _ => cons_attempt (attempt_timeout t 0) (stop (FSurfaced c))
    end.

  (* gapic_v1.method.DEFAULT versus a value given by the caller *)
  Inductive arg (A : Type) := UseDefault | Given (a : A).
  Arguments UseDefault {A}.
  Arguments Given {A} a.

  Definition run (retry : option retry_params) (t : option Q) (script : list reply) : trace :=
    match retry with
    | None => single t script
    | Some p => loop p t script 0 (Qmin (r_initial p) (r_maximum p)) 0
    end.

  (* _GapicCallable.__call__ *)
  Definition call (row : emitted) (retry : arg (option retry_params)) (timeout : arg (option Q)) (script : list reply) : trace :=
    run (match retry with UseDefault => option_map effective (e_retry row) | Given r => r end)
        (match timeout with UseDefault => e_timeout row | Given t => t end)
        script.
  (* the emitted pagers (sync and asyncio copies alike): every page request of a listing, the first one and each
     follow-up the pager makes, is the wrapped method called with the SAME retry / timeout arguments the caller gave *)
  Definition listing (row : emitted) (retry : arg (option retry_params)) (timeout : arg (option Q))
             (page_scripts : list (list reply)) : list trace :=
    map (call row retry timeout) page_scripts.
End Loop.
Arguments UseDefault {A}.
Arguments Given {A} a.

(* ------------------------------------------------------------------ what carries the deadline of an attempt on each surface *)
(* the transports of an emitted library, and the two shapes of rpc that reach every one of them *)
Inductive surface := SGrpc | SGrpcAsyncio | SRest | SRestAsyncio.
Inductive shape := Unary | ServerStreaming.
(* what the transport hands down for one attempt: the timeout= of the gRPC multicallable, or the timeout= of the HTTP
   session call in _get_response (_shared_macros.j2, response_method).  For the session one number bounds connecting and
   every read of the response; a (connect, read) pair bounds them apart, and a part that is None is not bounded at all *)
Inductive handed := Scalar (t : option Q) | Pair (connect read : option Q).
(* every surface, both shapes: the timeout argument of the attempt itself, as one number (a server stream over sync REST
   adds stream=True beside it and nothing else) *)
Definition hand_down (s : surface) (sh : shape) (tm : option Q) : handed := Scalar tm.
Definition connect_deadline (h : handed) : option Q := match h with Scalar t => t | Pair c _ => c end.
Definition read_deadline (h : handed) : option Q := match h with Scalar t => t | Pair _ r => r end.
Definition wire (s : surface) (sh : shape) (tr : trace) : list handed := map (hand_down s sh) (t_timeouts tr).

(* the delay schedule of exponential_sleep_generator: upper bound of the i-th sleep *)
Fixpoint delay_at (p : retry_params) (i : nat) : Q :=
  match i with
  | O => Qmin (r_initial p) (r_maximum p)
  | S j => Qmin (delay_at p j * r_multiplier p) (r_maximum p)
  end.
Fixpoint qpow (q : Q) (n : nat) : Q := match n with O => 1 | S k => q * qpow q k end.

(* ------------------------------------------------------------------ comparisons for the correspondence checks *)
Definition optq_eqb (a b : option Q) : bool := option_eqb Qeq_bool a b.
Definition er_eqb (a b : emitted_retry) : bool :=
  optq_eqb (er_initial a) (er_initial b) && optq_eqb (er_maximum a) (er_maximum b)
  && optq_eqb (er_multiplier a) (er_multiplier b) && list_eqb String.eqb (er_predicate a) (er_predicate b)
  && optq_eqb (er_deadline a) (er_deadline b).
Definition emitted_eqb (a b : emitted) : bool :=
  option_eqb er_eqb (e_retry a) (e_retry b) && optq_eqb (e_timeout a) (e_timeout b).
Definition gen_error_eqb (a b : gen_error) : bool :=
  match a, b with
  | ErrBadDuration x, ErrBadDuration y => String.eqb x y
  | ErrBadStatusCode x, ErrBadStatusCode y => String.eqb x y
  | _, _ => false
  end.
Definition gen_result_eqb (a b : gen_result) : bool :=
  match a, b with
  | GenOk x, GenOk y => emitted_eqb x y
  | GenError x, GenError y => gen_error_eqb x y
  | _, _ => false
  end.
Definition final_eqb (a b : final) : bool :=
  match a, b with
  | FOk, FOk | FScriptExhausted, FScriptExhausted => true
  | FSurfaced x, FSurfaced y | FRetryError x, FRetryError y => String.eqb x y
  | _, _ => false
  end.
Definition ri_eqb (a b : retry_info) : bool :=
  Qeq_bool (ri_initial a) (ri_initial b) && Qeq_bool (ri_max a) (ri_max b) && Qeq_bool (ri_multiplier a) (ri_multiplier b)
  && list_eqb String.eqb (ri_classes a) (ri_classes b).
Definition info_eqb (a b : gen_error + (option retry_info * option Q)) : bool :=
  match a, b with
  | inl x, inl y => gen_error_eqb x y
  | inr (r, t), inr (r', t') => option_eqb ri_eqb r r' && optq_eqb t t'
  | _, _ => false
  end.
(* what is found installed on a live transport: the default Retry object (its three delays, the status codes its
   predicate accepts among the error codes, its overall deadline) and the default timeout *)
Definition ERROR_CODES : list string := filter (fun c => negb (String.eqb c "OK")) STATUS_CODES.
Definition installed_eqb (row : emitted) (obs : option (Q * Q * Q * list string * option Q)) (obs_timeout : option Q) : bool :=
  optq_eqb (e_timeout row) obs_timeout &&
  match option_map effective (e_retry row), obs with
  | None, None => true
  | Some p, Some (i, m, k, codes, d) =>
      Qeq_bool (r_initial p) i && Qeq_bool (r_maximum p) m && Qeq_bool (r_multiplier p) k
      && list_eqb String.eqb (filter (accepts (r_classes p)) ERROR_CODES) codes && optq_eqb (r_deadline p) d
  | _, _ => false
  end.

(* observed numbers are floating point: a sleep may exceed the exact one by rounding only *)
Definition q_close (eps a b : Q) : bool := Qle_bool (a - eps) b && Qle_bool b (a + eps).
Definition trace_close (eps tol : Q) (model : trace) (attempts : nat) (sleeps : list Q) (timeouts : list (option Q)) (f : final) : bool :=
  Nat.eqb (t_attempts model) attempts
  && list_eqb (q_close eps) (t_sleeps model) sleeps
  && list_eqb (fun m o => match m, o with
                          | None, None => true
                          | Some x, Some y => Qle_bool (x - tol) y && Qle_bool y (x + tol)
                          | _, _ => false
                          end) (t_timeouts model) timeouts
  && final_eqb (t_final model) f.

Definition handed_eqb (a b : handed) : bool :=
  match a, b with
  | Scalar x, Scalar y => optq_eqb x y
  | Pair c r, Pair c' r' => optq_eqb c c' && optq_eqb r r'
  | _, _ => false
  end.
