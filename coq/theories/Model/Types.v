(* Model/Types.v — C02: generated message and enum classes are wire-compatible with the input descriptors.
   Mirrors, as the code is:
     templates %sub/types/%proto.py.j2, _message.py.j2, _enum.py.j2      -> emit_header, emit_msg, emit_enum, emit_file
     gapic/schema/wrappers.py  Field.name / proto_type / map / repeated / oneof / proto3_optional, MessageType.map
     gapic/schema/metadata.py  Address.__str__ / rel / module_alias / python_import / is_proto_plus_type -> str_comps, rel, py_import
     gapic/schema/api.py       _ProtoBuilder._get_fields (dict keyed by Field.name), Proto.names / disambiguate / python_modules
     gapic/utils/lines.py      sort_lines (sorted, de-duplicated import lines)
   and, as an executable CONTRACT about third-party code (proto-plus 1.26 message.py / fields.py / enums.py / _file_info.py and
   Python's class-body name lookup): runtime_file / rt_msg / rt_enum = the descriptor proto-plus builds from a declaration.
   Definitions only. *)
From GV Require Import Base.Str Gen.Kw Model.Reserved.
From Coq Require Import ZArith.
Local Open Scope string_scope.

(* ------------------------------------------------------------------ input schema (descriptor level) *)
Inductive scalar := S_DOUBLE | S_FLOAT | S_INT64 | S_UINT64 | S_INT32 | S_FIXED64 | S_FIXED32 | S_BOOL | S_STRING
                  | S_BYTES | S_UINT32 | S_SFIXED32 | S_SFIXED64 | S_SINT32 | S_SINT64.
Definition all_scalars : list scalar :=
  [S_DOUBLE; S_FLOAT; S_INT64; S_UINT64; S_INT32; S_FIXED64; S_FIXED32; S_BOOL; S_STRING; S_BYTES; S_UINT32; S_SFIXED32;
   S_SFIXED64; S_SINT32; S_SINT64].
(* Field.proto_type: FieldDescriptorProto.Type.Name(type) without the TYPE_ prefix *)
Definition scalar_name (s : scalar) : string :=
  match s with
  | S_DOUBLE => "DOUBLE" | S_FLOAT => "FLOAT" | S_INT64 => "INT64" | S_UINT64 => "UINT64" | S_INT32 => "INT32"
  | S_FIXED64 => "FIXED64" | S_FIXED32 => "FIXED32" | S_BOOL => "BOOL" | S_STRING => "STRING" | S_BYTES => "BYTES"
  | S_UINT32 => "UINT32" | S_SFIXED32 => "SFIXED32" | S_SFIXED64 => "SFIXED64" | S_SINT32 => "SINT32" | S_SINT64 => "SINT64"
  end.
(* FieldDescriptorProto.Type numbers *)
Definition scalar_code (s : scalar) : nat :=
  match s with
  | S_DOUBLE => 1 | S_FLOAT => 2 | S_INT64 => 3 | S_UINT64 => 4 | S_INT32 => 5 | S_FIXED64 => 6 | S_FIXED32 => 7 | S_BOOL => 8
  | S_STRING => 9 | S_BYTES => 12 | S_UINT32 => 13 | S_SFIXED32 => 15 | S_SFIXED64 => 16 | S_SINT32 => 17 | S_SINT64 => 18
  end.

(* metadata.Address of a message or enum: proto package, module (file base name), enclosing messages, name *)
Record addr := mkAddr { a_pkg : list string; a_module : string; a_parent : list string; a_name : string }.
Inductive tkind := KMsg | KEnum.
Inductive ftype := TScalar (s : scalar) | TRef (k : tkind) (a : addr).
Record fieldD := mkField { f_name : string; f_number : Z; f_type : ftype; f_repeated : bool;
                           f_oneof : option nat (* oneof_index *); f_opt : bool (* proto3_optional *) }.
Record enumD := mkEnum { e_name : string; e_values : list (string * Z) }.
Inductive msgD := Msg (name : string) (fields : list fieldD) (oneofs : list string) (nested : list msgD)
                      (enums : list enumD) (map_entry : bool).
Definition m_name (m : msgD) := let 'Msg n _ _ _ _ _ := m in n.
Definition m_fields (m : msgD) := let 'Msg _ f _ _ _ _ := m in f.
Definition m_oneofs (m : msgD) := let 'Msg _ _ o _ _ _ := m in o.
Definition m_nested (m : msgD) := let 'Msg _ _ _ n _ _ := m in n.
Definition m_enums (m : msgD) := let 'Msg _ _ _ _ e _ := m in e.
Definition m_map_entry (m : msgD) := let 'Msg _ _ _ _ _ b := m in b.

(* iteration over the nested messages that are not map entries (the template's  if not submessage.map) *)
Definition map_non_entry {B} (f : msgD -> B) : list msgD -> list B :=
  fix go (l : list msgD) : list B :=
    match l with
    | [] => []
    | x :: l' => if m_map_entry x then go l' else f x :: go l'
    end.
Definition all_non_entry (f : msgD -> bool) : list msgD -> bool :=
  fix go (l : list msgD) : bool :=
    match l with
    | [] => true
    | x :: l' => (if m_map_entry x then true else f x) && go l'
    end.

Record fileD := mkFile { fd_pkg : list string; fd_module : string; fd_enums : list enumD; fd_msgs : list msgD }.
(* what the schema of the whole API contributes: naming.proto_package, naming.version, the Python package of the library
   (module_namespace + versioned_module_name), and the module names Proto.names adds for this file (modules reached under
   more than one package, or reserved) — the last is a closure over the whole API computed by the harness and compared
   with Proto.names on every run *)
Record apiD := mkApi { api_pkg : string; api_version : string; api_types_prefix : list string; api_collide : list string }.

Definition dotted (l : list string) : string := sjoin "." l.
Definition full_name (a : addr) : string := dotted (a_pkg a) ++ "." ++ dotted (a_parent a ++ [a_name a])%list.
Definition addr_eqb (a b : addr) : bool :=
  list_eqb String.eqb (a_pkg a) (a_pkg b) && String.eqb (a_module a) (a_module b)
  && list_eqb String.eqb (a_parent a) (a_parent b) && String.eqb (a_name a) (a_name b).
Definition child_addr (at_ : addr) (n : string) : addr :=
  mkAddr (a_pkg at_) (a_module at_) (a_parent at_ ++ [a_name at_])%list n.
Definition tkind_eqb (a b : tkind) : bool := match a, b with KMsg, KMsg | KEnum, KEnum => true | _, _ => false end.

(* Address.is_proto_plus_type (option proto-plus-deps not modelled): a STRING prefix test on the dotted package *)
Definition is_pp (api : apiD) (pkg : list string) : bool := starts_with (api_pkg api) (dotted pkg).

(* ------------------------------------------------------------------ Proto.names, disambiguate *)
Fixpoint msg_all (m : msgD) : list msgD :=
  let 'Msg _ _ _ ns _ _ := m in
  m :: (fix go (l : list msgD) : list msgD := match l with [] => [] | x :: l' => (msg_all x ++ go l')%list end) ns.
Definition file_msgs (f : fileD) : list msgD := flat_map msg_all (fd_msgs f).
Definition file_enums (f : fileD) : list enumD := (fd_enums f ++ flat_map m_enums (file_msgs f))%list.
Definition proto_names (api : apiD) (f : fileD) : list string :=
  (map e_name (file_enums f)
   ++ flat_map (fun m => map (fun x => field_attr (f_name x)) (m_fields m) ++ [m_name m]) (file_msgs f)
   ++ api_collide api)%list.

(* Proto.disambiguate: prefix underscores while the name is taken *)
Fixpoint disambiguate_fuel (fuel : nat) (names : list string) (s : string) : option string :=
  match fuel with
  | O => None
  | S n => if mem_str s names then disambiguate_fuel n names ("_" ++ s) else Some s
  end.
Definition disambiguate (names : list string) (s : string) : option string :=
  disambiguate_fuel (S (length names)) names s.

(* ------------------------------------------------------------------ Address.__str__, rel, python_import *)
Definition addr_alias (api : apiD) (names : list string) (a : addr) : string :=
  module_alias (a_pkg a) (api_version api) (a_module a) (mem_str (a_module a) names).
(* "module.Parent.Name" as its components; the alias is computed and then DROPPED for _pb2 modules *)
Definition str_comps (api : apiD) (names : list string) (a : addr) : list string :=
  let alias := addr_alias api names a in
  let mn := if is_pp api (a_pkg a) then (if is_empty alias then a_module a else alias) else a_module a ++ "_pb2" in
  (mn :: a_parent a ++ [a_name a])%list.

(* what a template prints for a type: a quoted name (resolved later by proto-plus) or a Python expression *)
Inductive refE := RQ (s : string) | RX (comps : list string).
Definition rel (api : apiD) (names : list string) (self at_ : addr) : refE :=
  let quoted := RQ (dotted (a_parent self ++ [a_name self])%list) in
  if list_eqb String.eqb (a_pkg self) (a_pkg at_) && String.eqb (a_module self) (a_module at_) then
    match a_parent self with
    | [] => quoted
    | p :: ptl =>
        (* nested under the same top-level message: quoted; a type nested in the TOP-LEVEL message being declared: relative
           to its class body; everything else (forward, recursive, and — since 2f90e4e — a nested message that merely carries
           the name of another top-level message): quoted *)
        match a_parent at_ with
        | _ :: _ => quoted
        | [] => if String.eqb p (a_name at_) then RX (ptl ++ [a_name self])%list else quoted
        end
    end
  else RX (str_comps api names self).

Record imp := mkImp { i_pkg : list string; i_module : string; i_alias : string; i_key : string (* identity of the proto file *) }.
Definition mod_key (a : addr) : string := dotted (a_pkg a) ++ "/" ++ a_module a.
Definition py_import (api : apiD) (names : list string) (a : addr) : imp :=
  if is_pp api (a_pkg a) then
    mkImp (api_types_prefix api ++ skipn (length (split_on "."%char (api_pkg api))) (a_pkg a) ++ ["types"])%list
          (a_module a) (addr_alias api names a) (mod_key a)
  else mkImp (a_pkg a) (a_module a ++ "_pb2") "" (mod_key a).
Definition imp_line (i : imp) : string :=
  "from " ++ dotted (i_pkg i) ++ " import " ++ i_module i ++ (if is_empty (i_alias i) then "" else " as " ++ i_alias i).
Definition imp_local (i : imp) : string := if is_empty (i_alias i) then i_module i else i_alias i.

(* byte-wise lexicographic order (Python's str comparison on ASCII) *)
Fixpoint str_leb (a b : string) : bool :=
  match a, b with
  | EmptyString, _ => true
  | String _ _, EmptyString => false
  | String x a', String y b' => if N.ltb (ord x) (ord y) then true else if N.ltb (ord y) (ord x) then false else str_leb a' b'
  end.
Fixpoint ins_imp (i : imp) (l : list imp) : list imp :=
  match l with
  | [] => [i]
  | j :: l' => if String.eqb (imp_line i) (imp_line j) then l            (* sort_lines de-duplicates *)
               else if str_leb (imp_line i) (imp_line j) then i :: l else j :: ins_imp i l'
  end.
Definition sort_imps (l : list imp) : list imp := fold_right ins_imp [] l.

(* ------------------------------------------------------------------ declarations (what the types module says) *)
Inductive fkind := KField | KRepeated | KMap (key_type : string).
Record fdecl := mkFDecl { d_attr : string; d_kind : fkind; d_ptype : string; d_number : Z; d_optional : bool;
                          d_oneof : option string; d_ref : option (string * refE) }.
Inductive decl := DEnum (name : string) (values : list (string * Z))
                | DMsg (name : string) (body : list decl) (fields : list fdecl).
Record header := mkHeader { h_proto_alias : option string; h_package : string; h_marshal : option string;
                            h_manifest : list string; h_imports : list imp }.

Definition ptype_of (t : ftype) : string :=
  match t with TScalar s => scalar_name s | TRef KMsg _ => "MESSAGE" | TRef KEnum _ => "ENUM" end.
Definition kw_of (k : tkind) : string := match k with KMsg => "message" | KEnum => "enum" end.
Definition ref_of (api : apiD) (names : list string) (at_ : addr) (t : ftype) : option (string * refE) :=
  match t with TScalar _ => None | TRef k a => Some (kw_of k, rel api names a at_) end.

Fixpoint find_msg (n : string) (l : list msgD) : option msgD :=
  match l with [] => None | m :: l' => if String.eqb (m_name m) n then Some m else find_msg n l' end.
Fixpoint find_field (n : string) (l : list fieldD) : option fieldD :=
  match l with [] => None | f :: l' => if String.eqb (f_name f) n then Some f else find_field n l' end.
(* Field.map: repeated, of message type, that message has options.map_entry; protobuf places the entry among the
   nested types of the message that owns the field.  (key type, value type) *)
Definition entry_of (at_ : addr) (nested : list msgD) (f : fieldD) : option (ftype * ftype) :=
  if f_repeated f then
    match f_type f with
    | TRef KMsg a =>
        if addr_eqb a (child_addr at_ (a_name a)) then
          match find_msg (a_name a) nested with
          | Some e => if m_map_entry e then
                        match find_field "key" (m_fields e), find_field "value" (m_fields e) with
                        | Some k, Some v => Some (f_type k, f_type v)
                        | _, _ => None
                        end
                      else None
          | None => None
          end
        else None
    | _ => None
    end
  else None.

Definition emit_field (api : apiD) (names : list string) (at_ : addr) (oneofs : list string) (nested : list msgD)
                      (f : fieldD) : fdecl :=
  match entry_of at_ nested f with
  | Some (k, v) => mkFDecl (field_attr (f_name f)) (KMap (ptype_of k)) (ptype_of v) (f_number f) false None
                           (ref_of api names at_ v)
  | None => mkFDecl (field_attr (f_name f)) (if f_repeated f then KRepeated else KField) (ptype_of (f_type f)) (f_number f)
                    (f_opt f)
                    (if f_opt f then None else match f_oneof f with Some i => nth_error oneofs i | None => None end)
                    (ref_of api names at_ (f_type f))
  end.

(* _get_fields: an OrderedDict keyed by Field.name — a second field with the same attribute REPLACES the first, in place *)
Fixpoint upsert (d : fdecl) (l : list fdecl) : list fdecl :=
  match l with
  | [] => [d]
  | x :: l' => if String.eqb (d_attr x) (d_attr d) then d :: l' else x :: upsert d l'
  end.
Definition dict_fields (l : list fdecl) : list fdecl := fold_left (fun acc d => upsert d acc) l [].

Definition emit_enum (e : enumD) : decl := DEnum (e_name e) (e_values e).
Fixpoint emit_msg (api : apiD) (names : list string) (pkg : list string) (module : string) (parent : list string)
                  (m : msgD) : decl :=
  let 'Msg n fs os ns es _ := m in
  let at_ := mkAddr pkg module parent n in
  DMsg n
    (map emit_enum es ++ map_non_entry (emit_msg api names pkg module (parent ++ [n])%list) ns)%list
    (dict_fields (map (emit_field api names at_ os ns) fs)).

Definition file_addr (f : fileD) : addr := mkAddr (fd_pkg f) (fd_module f) [] "".
Definition field_refs (m : msgD) : list addr :=
  flat_map (fun x => match f_type x with TRef _ a => [a] | TScalar _ => [] end) (m_fields m).
Definition same_import (i j : imp) : bool := list_eqb String.eqb (i_pkg i) (i_pkg j) && String.eqb (i_module i) (i_module j).
Definition emit_imports (api : apiD) (f : fileD) : list imp :=
  let names := proto_names api f in
  let self := py_import api names (file_addr f) in
  sort_imps (filter (fun i => negb (same_import i self))
                    (map (py_import api names) (flat_map field_refs (file_msgs f)))).
Definition emit_header (api : apiD) (f : fileD) : header :=
  mkHeader (disambiguate (proto_names api f) "proto") (dotted (fd_pkg f))
           (if String.eqb (api_pkg api) (dotted (fd_pkg f)) then None else Some (api_pkg api))
           (map e_name (fd_enums f) ++ map m_name (fd_msgs f))%list
           (emit_imports api f).
Definition emit_file (api : apiD) (f : fileD) : list decl :=
  (map emit_enum (fd_enums f) ++ map (emit_msg api (proto_names api f) (fd_pkg f) (fd_module f) []) (fd_msgs f))%list.

(* ------------------------------------------------------------------ equality of declarations (T1) *)
Definition z_eqb := Z.eqb.
Definition refE_eqb (a b : refE) : bool :=
  match a, b with
  | RQ x, RQ y => String.eqb x y
  | RX x, RX y => list_eqb String.eqb x y
  | _, _ => false
  end.
Definition fkind_eqb (a b : fkind) : bool :=
  match a, b with
  | KField, KField | KRepeated, KRepeated => true
  | KMap x, KMap y => String.eqb x y
  | _, _ => false
  end.
Definition fdecl_eqb (a b : fdecl) : bool :=
  String.eqb (d_attr a) (d_attr b) && fkind_eqb (d_kind a) (d_kind b) && String.eqb (d_ptype a) (d_ptype b)
  && Z.eqb (d_number a) (d_number b) && Bool.eqb (d_optional a) (d_optional b)
  && option_eqb String.eqb (d_oneof a) (d_oneof b)
  && option_eqb (pair_eqb String.eqb refE_eqb) (d_ref a) (d_ref b).
Definition val_eqb (a b : string * Z) : bool := String.eqb (fst a) (fst b) && Z.eqb (snd a) (snd b).
Fixpoint decl_eqb (a b : decl) : bool :=
  match a, b with
  | DEnum n v, DEnum n' v' => String.eqb n n' && list_eqb val_eqb v v'
  | DMsg n body fs, DMsg n' body' fs' =>
      String.eqb n n' && list_eqb fdecl_eqb fs fs'
      && (fix go (l l' : list decl) : bool :=
            match l, l' with
            | [], [] => true
            | x :: t, y :: t' => decl_eqb x y && go t t'
            | _, _ => false
            end) body body'
  | _, _ => false
  end.
Definition imp_eqb (a b : imp) : bool :=
  list_eqb String.eqb (i_pkg a) (i_pkg b) && String.eqb (i_module a) (i_module b) && String.eqb (i_alias a) (i_alias b).
(* the manifest is a Python set: compared as given by the reader (sorted on both sides by the harness) *)
Fixpoint ins_str (s : string) (l : list string) : list string :=
  match l with [] => [s] | x :: l' => if str_leb s x then s :: l else x :: ins_str s l' end.
Definition sort_strs (l : list string) : list string := fold_right ins_str [] l.
Fixpoint uniq_adj (l : list string) : list string :=
  match l with
  | x :: ((y :: _) as l') => if String.eqb x y then uniq_adj l' else x :: uniq_adj l'
  | _ => l
  end.
(* a Python set of names, as a sorted duplicate-free list *)
Definition names_canon (l : list string) : list string := uniq_adj (sort_strs l).
Definition header_eqb (a b : header) : bool :=
  option_eqb String.eqb (h_proto_alias a) (h_proto_alias b) && String.eqb (h_package a) (h_package b)
  && option_eqb String.eqb (h_marshal a) (h_marshal b)
  && list_eqb String.eqb (sort_strs (h_manifest a)) (sort_strs (h_manifest b))
  && list_eqb imp_eqb (h_imports a) (h_imports b).

(* ================================================================== the runtime contract (proto-plus + Python scoping) *)
Record rfield := mkRF { rf_name : string; rf_number : Z; rf_label : nat; rf_type : nat; rf_tname : string;
                        rf_oneof : option nat; rf_p3 : bool }.
Record renum := mkRE { re_name : string; re_values : list (string * Z) }.
Inductive rmsg := RMsg (name : string) (fields : list rfield) (oneofs : list string) (nested : list rmsg)
                       (enums : list renum) (map_entry : bool).
Definition rm_name (m : rmsg) := let 'RMsg n _ _ _ _ _ := m in n.
Definition rm_fields (m : rmsg) := let 'RMsg _ f _ _ _ _ := m in f.
Definition rm_oneofs (m : rmsg) := let 'RMsg _ _ o _ _ _ := m in o.
Definition rm_nested (m : rmsg) := let 'RMsg _ _ _ n _ _ := m in n.
Definition rm_enums (m : rmsg) := let 'RMsg _ _ _ _ e _ := m in e.
Definition rm_map_entry (m : rmsg) := let 'RMsg _ _ _ _ _ b := m in b.

(* proto.primitives.ProtoType *)
Definition code_of_name (n : string) : option nat :=
  if String.eqb n "MESSAGE" then Some 11 else if String.eqb n "ENUM" then Some 14
  else match find (fun s => String.eqb (scalar_name s) n) all_scalars with Some s => Some (scalar_code s) | None => None end.

(* Python values a name can be bound to while a types module executes *)
Inductive pyval := PVMod (key : string) | PVType (full : string) | PVOther.
Definition scope := list (string * pyval).                        (* most recent binding first *)
Definition modtab := list (string * (string * list (string * tkind))). (* file key -> proto package, types (dotted path, kind) *)
Definition typeset := list (string * tkind).                      (* full names declared by the module being executed *)

Definition has_type (n : string) (k : tkind) (l : typeset) : bool :=
  existsb (fun p => String.eqb (fst p) n && tkind_eqb (snd p) k) l.
Definition kind_of_kw (kw : string) : option tkind :=
  if String.eqb kw "message" then Some KMsg else if String.eqb kw "enum" then Some KEnum else None.

(* fields.py Field.descriptor: a string reference gets the package prepended unless it already starts with it *)
Definition qualify (pkg s : string) : string := if starts_with pkg s then s else pkg ++ "." ++ s.
Definition resolve_rq (pkg : string) (ltypes : typeset) (k : tkind) (s : string) : option string :=
  let t := qualify pkg s in if has_type t k ltypes then Some t else None.
(* a dotted Python expression evaluated in a class body: first name in the class-body locals, then the module globals
   (never the enclosing class bodies); then attribute access *)
Definition lookup2 (n : string) (locals globals : scope) : option pyval :=
  match assoc n locals with Some v => Some v | None => assoc n globals end.
Definition resolve_rx (tab : modtab) (ltypes : typeset) (locals globals : scope) (k : tkind) (comps : list string)
  : option string :=
  match comps with
  | [] => None
  | h :: rest =>
      match lookup2 h locals globals with
      | Some (PVMod key) =>
          match assoc key tab, rest with
          | Some (pkg, paths), _ :: _ => if has_type (dotted rest) k paths then Some (pkg ++ "." ++ dotted rest) else None
          | _, _ => None
          end
      | Some (PVType full) =>
          let t := match rest with [] => full | _ :: _ => full ++ "." ++ dotted rest end in
          if has_type t k ltypes then Some t else None
      | _ => None
      end
  end.
Definition resolve (tab : modtab) (pkg : string) (ltypes : typeset) (locals globals : scope) (r : option (string * refE))
  : option string :=
  match r with
  | None => Some ""
  | Some (kw, e) =>
      match kind_of_kw kw with
      | None => None
      | Some k => match e with RQ s => resolve_rq pkg ltypes k s | RX c => resolve_rx tab ltypes locals globals k c end
      end
  end.

(* message.py: re.sub(r"_\w", lambda m: m.group()[1:].upper(), key).replace(key[0], key[0].upper(), 1) + "Entry" *)
Fixpoint pascal_aux (s : string) : string :=
  match s with
  | EmptyString => EmptyString
  | String c s' =>
      if Ascii.eqb c "_"%char then
        match s' with
        | String d s'' => if is_word d then String (to_upper d) (pascal_aux s'') else String c (pascal_aux s')
        | EmptyString => String c EmptyString
        end
      else String c (pascal_aux s')
  end.
Fixpoint replace_first (c d : ascii) (s : string) : string :=
  match s with
  | EmptyString => EmptyString
  | String a s' => if Ascii.eqb a c then String d s' else String a (replace_first c d s')
  end.
Definition entry_name (key : string) : string :=
  match key with
  | EmptyString => "Entry"
  | String c _ => replace_first c (to_upper c) (pascal_aux key) ++ "Entry"
  end.

(* enums.py: values sorted by number (stable); the pool refuses a proto3 enum whose first value is not zero *)
Fixpoint ins_val (v : string * Z) (l : list (string * Z)) : list (string * Z) :=
  match l with [] => [v] | x :: l' => if Z.ltb (snd v) (snd x) then v :: l else x :: ins_val v l' end.
Definition sort_vals (l : list (string * Z)) : list (string * Z) := fold_right ins_val [] l.
Definition rt_enum (n : string) (vals : list (string * Z)) : option renum :=
  match sort_vals vals with
  | (_, 0%Z) :: _ => Some (mkRE n (sort_vals vals))
  | _ => None
  end.

(* real oneofs in order of first appearance among the fields *)
Fixpoint index_of (x : string) (l : list string) : option nat :=
  match l with
  | [] => None
  | y :: l' => if String.eqb x y then Some 0 else match index_of x l' with Some i => Some (S i) | None => None end
  end.
Fixpoint real_oneofs (fs : list fdecl) (acc : list string) : list string :=
  match fs with
  | [] => acc
  | d :: fs' => match d_oneof d with
                | Some n => real_oneofs fs' (if mem_str n acc then acc else (acc ++ [n])%list)
                | None => real_oneofs fs' acc
                end
  end.
Definition synth_oneofs (fs : list fdecl) : list string :=
  flat_map (fun d => if d_optional d then ["_" ++ d_attr d] else []) fs.

Definition omap {A B} (f : A -> option B) : list A -> option (list B) :=
  fix go (l : list A) : option (list B) :=
    match l with
    | [] => Some []
    | x :: l' => match f x, go l' with Some y, Some ys => Some (y :: ys) | _, _ => None end
    end.

(* a sequence of class statements: the enum and message descriptors they create, in order *)
Definition rt_seq (f : decl -> option (list renum * list rmsg)) : list decl -> option (list renum * list rmsg) :=
  fix go (l : list decl) : option (list renum * list rmsg) :=
    match l with
    | [] => Some ([], [])
    | x :: l' => match f x, go l' with
                 | Some (es, ms), Some (es', ms') => Some ((es ++ es')%list, (ms ++ ms')%list)
                 | _, _ => None
                 end
    end.

Section RT.
  Variable tab : modtab.
  Variable pkg : string.          (* __protobuf__.package *)
  Variable ltypes : typeset.
  Variable globals : scope.

  (* one field declaration read by MessageMeta.__new__; [full] = proto full name of the class being created,
     [k] = number of optional fields before this one, [nreal] = number of real oneofs *)
  Definition rt_field (full : string) (real : list string) (locals : scope) (k : nat) (d : fdecl)
    : option (rfield * list rmsg) :=
    match resolve tab pkg ltypes locals globals (d_ref d), code_of_name (d_ptype d) with
    | Some tn, Some code =>
        match d_kind d with
        | KMap kt =>
            match code_of_name kt with
            | Some kc =>
                let en := entry_name (d_attr d) in
                Some (mkRF (d_attr d) (d_number d) 3 11 (full ++ "." ++ en) None false,
                      [RMsg en [mkRF "key" 1 1 kc "" None false; mkRF "value" 2 1 code tn None false] [] [] [] true])
            | None => None
            end
        | kd =>
            let oi := if d_optional d then Some (length real + k)
                      else match d_oneof d with Some n => index_of n real | None => None end in
            Some (mkRF (d_attr d) (d_number d) (match kd with KRepeated => 3 | _ => 1 end) code tn oi (d_optional d), [])
        end
    | _, _ => None
    end.
  Fixpoint rt_fields (full : string) (real : list string) (locals : scope) (k : nat) (fs : list fdecl)
    : option (list rfield * list rmsg) :=
    match fs with
    | [] => Some ([], [])
    | d :: fs' =>
        match rt_field full real locals k d with
        | Some (rf, es) =>
            match rt_fields full real ((d_attr d, PVOther) :: locals) (if d_optional d then S k else k) fs' with
            | Some (rfs, es') => Some (rf :: rfs, (es ++ es')%list)
            | None => None
            end
        | None => None
        end
    end.

  Definition decl_name (d : decl) : string := match d with DEnum n _ => n | DMsg n _ _ => n end.
  Definition body_locals (full : string) (body : list decl) : scope :=
    rev (map (fun d => (decl_name d, PVType (full ++ "." ++ decl_name d))) body).

  (* a class statement: nested classes first (each in its own fresh local scope), then the fields *)
  Fixpoint rt_msg (prefix : string) (d : decl) : option (list renum * list rmsg) :=
    match d with
    | DEnum n vals => match rt_enum n vals with Some e => Some ([e], []) | None => None end
    | DMsg n body fs =>
        let full := prefix ++ "." ++ n in
        match rt_seq (rt_msg full) body with
        | Some (es, ms) =>
            match rt_fields full (real_oneofs fs []) (body_locals full body) 0 fs with
            | Some (rfs, entries) =>
                Some ([], [RMsg n rfs (real_oneofs fs [] ++ synth_oneofs fs)%list (ms ++ entries)%list es false])
            | None => None
            end
        | None => None
        end
    end.
End RT.

Fixpoint decl_types (prefix : string) (d : decl) : typeset :=
  match d with
  | DEnum n _ => [(prefix ++ "." ++ n, KEnum)]
  | DMsg n body _ =>
      (prefix ++ "." ++ n, KMsg)
      :: (fix go (l : list decl) : typeset := match l with [] => [] | x :: l' => (decl_types (prefix ++ "." ++ n) x ++ go l')%list end) body
  end.

(* the module body: import proto, the other imports in emitted order (a later import REBINDS an equal local name),
   __protobuf__, then the classes; each class is bound in the module globals after its body has run *)
Definition initial_globals (h : header) : scope :=
  (("__protobuf__", PVOther)
   :: rev (map (fun i => (imp_local i, PVMod (i_key i))) (h_imports h))
   ++ [(match h_proto_alias h with Some p => p | None => "proto" end, PVOther);
       ("MutableSequence", PVOther); ("MutableMapping", PVOther); ("annotations", PVOther)])%list.
Fixpoint rt_top (tab : modtab) (pkg : string) (ltypes : typeset) (globals : scope) (ds : list decl)
  : option (list renum * list rmsg) :=
  match ds with
  | [] => Some ([], [])
  | d :: ds' =>
      match rt_msg tab pkg ltypes globals pkg d,
            rt_top tab pkg ltypes ((decl_name d, PVType (pkg ++ "." ++ decl_name d)) :: globals) ds' with
      | Some (es, ms), Some (es', ms') => Some ((es ++ es')%list, (ms ++ ms')%list)
      | _, _ => None
      end
  end.
Definition runtime_file (tab : modtab) (h : header) (ds : list decl) : option (list renum * list rmsg) :=
  match h_proto_alias h with
  | None => None
  | Some _ =>
      rt_top tab (h_package h) (flat_map (decl_types (h_package h)) ds) (initial_globals h) ds
  end.

(* ------------------------------------------------------------------ equality of runtime descriptors (T2) *)
Definition rfield_eqb (a b : rfield) : bool :=
  String.eqb (rf_name a) (rf_name b) && Z.eqb (rf_number a) (rf_number b) && Nat.eqb (rf_label a) (rf_label b)
  && Nat.eqb (rf_type a) (rf_type b) && String.eqb (rf_tname a) (rf_tname b)
  && option_eqb Nat.eqb (rf_oneof a) (rf_oneof b) && Bool.eqb (rf_p3 a) (rf_p3 b).
Definition renum_eqb (a b : renum) : bool := String.eqb (re_name a) (re_name b) && list_eqb val_eqb (re_values a) (re_values b).
Fixpoint rmsg_eqb (a b : rmsg) : bool :=
  let 'RMsg n fs os ns es me := a in
  let 'RMsg n' fs' os' ns' es' me' := b in
  String.eqb n n' && list_eqb rfield_eqb fs fs' && list_eqb String.eqb os os' && list_eqb renum_eqb es es' && Bool.eqb me me'
  && (fix go (l l' : list rmsg) : bool :=
        match l, l' with
        | [], [] => true
        | x :: t, y :: t' => rmsg_eqb x y && go t t'
        | _, _ => false
        end) ns ns'.
Definition rfile_eqb (a b : option (list renum * list rmsg)) : bool :=
  match a, b with
  | None, None => true
  | Some (es, ms), Some (es', ms') => list_eqb renum_eqb es es' && list_eqb rmsg_eqb ms ms'
  | _, _ => false
  end.

(* ================================================================== the wire view: what the property compares *)
Record fview := mkFV { v_attr : string; v_number : Z; v_type : nat; v_tname : string; v_repeated : bool;
                       v_oneof : option string (* real oneof, by name *); v_presence : bool (* proto3 optional *);
                       v_map : option (nat * nat * string) (* key type, value type, value type name *) }.
Inductive mview := MV (name : string) (fields : list fview) (nested : list mview) (enums : list renum).

Definition type_code (t : ftype) : nat := match t with TScalar s => scalar_code s | TRef KMsg _ => 11 | TRef KEnum _ => 14 end.
Definition type_tname (t : ftype) : string := match t with TScalar _ => "" | TRef _ a => full_name a end.
Definition enum_view (e : enumD) : renum := mkRE (e_name e) (sort_vals (e_values e)).

Definition field_view_in (at_ : addr) (oneofs : list string) (nested : list msgD) (f : fieldD) : fview :=
  match entry_of at_ nested f with
  | Some (k, v) => mkFV (field_attr (f_name f)) (f_number f) 11 "" true None false
                        (Some (type_code k, type_code v, type_tname v))
  | None => mkFV (field_attr (f_name f)) (f_number f) (type_code (f_type f)) (type_tname (f_type f)) (f_repeated f)
                 (if f_opt f then None else match f_oneof f with Some i => nth_error oneofs i | None => None end)
                 (f_opt f) None
  end.
Fixpoint view_in (pkg : list string) (module : string) (parent : list string) (m : msgD) : mview :=
  let 'Msg n fs os ns es _ := m in
  let at_ := mkAddr pkg module parent n in
  MV n (map (field_view_in at_ os ns) fs)
     (map_non_entry (view_in pkg module (parent ++ [n])%list) ns)
     (map enum_view es).

Definition map_non_entry_r {B} (f : rmsg -> B) : list rmsg -> list B :=
  fix go (l : list rmsg) : list B :=
    match l with
    | [] => []
    | x :: l' => if rm_map_entry x then go l' else f x :: go l'
    end.
Definition find_entry (tname full : string) (nested : list rmsg) : option rmsg :=
  find (fun e => rm_map_entry e && String.eqb tname (full ++ "." ++ rm_name e)) nested.
Definition field_view_rt (full : string) (oneofs : list string) (nested : list rmsg) (rf : rfield) : fview :=
  match (if Nat.eqb (rf_type rf) 11 && Nat.eqb (rf_label rf) 3 then find_entry (rf_tname rf) full nested else None) with
  | Some (RMsg _ [k; v] _ _ _ _) =>
      mkFV (rf_name rf) (rf_number rf) 11 "" true None false (Some (rf_type k, rf_type v, rf_tname v))
  | _ => mkFV (rf_name rf) (rf_number rf) (rf_type rf) (rf_tname rf) (Nat.eqb (rf_label rf) 3)
              (if rf_p3 rf then None else match rf_oneof rf with Some i => nth_error oneofs i | None => None end)
              (rf_p3 rf) None
  end.
Fixpoint view_rt (prefix : string) (r : rmsg) : mview :=
  let 'RMsg n fs os ns es _ := r in
  let full := prefix ++ "." ++ n in
  MV n (map (field_view_rt full os ns) fs)
     (map_non_entry_r (view_rt full) ns)
     es.

(* ------------------------------------------------------------------ well-formedness (boolean) *)
Fixpoint nodup_str (l : list string) : bool :=
  match l with [] => true | x :: l' => negb (mem_str x l') && nodup_str l' end.
Definition map_attrs (at_ : addr) (nested : list msgD) (fs : list fieldD) : list string :=
  flat_map (fun f => match entry_of at_ nested f with Some _ => [field_attr (f_name f)] | None => [] end) fs.
Definition enum_ok (e : enumD) : bool := match rt_enum (e_name e) (e_values e) with Some _ => true | None => false end.
(* attributes pairwise distinct (protoc guarantees it for proto3: `class` and `class_` have the same JSON name), runtime
   entry names of the map fields pairwise distinct and not the type of a repeated message field of the same message (protoc
   guarantees it except when a reserved word is involved), every enum has zero as its least number (BEYOND protoc: negative
   numbers are legal in proto3) *)
Definition entry_clash (full : string) (at_ : addr) (nested : list msgD) (fs : list fieldD) (f : fieldD) : bool :=
  match entry_of at_ nested f with
  | Some _ => false
  | None => f_repeated f && mem_str (type_tname (f_type f)) (map (fun a => full ++ "." ++ entry_name a) (map_attrs at_ nested fs))
  end.
Fixpoint wf_msg (pkg : list string) (module : string) (prefix : string) (parent : list string) (m : msgD) : bool :=
  let 'Msg n fs os ns es _ := m in
  let at_ := mkAddr pkg module parent n in
  let full := prefix ++ "." ++ n in
  nodup_str (map (fun f => field_attr (f_name f)) fs)
  && nodup_str (map entry_name (map_attrs at_ ns fs))
  && negb (existsb (entry_clash full at_ ns fs) fs)
  && forallb enum_ok es
  && all_non_entry (wf_msg pkg module full (parent ++ [n])%list) ns.

(* the class-body scope the model builds, computed from the INPUT message: nested enums, then nested non-entry messages *)
Definition in_locals (full : string) (m : msgD) : scope :=
  rev (map (fun n => (n, PVType (full ++ "." ++ n)))
           (map e_name (m_enums m) ++ map m_name (filter (fun x => negb (m_map_entry x)) (m_nested m)))%list).
(* every reference printed for message m (and, recursively, its nested messages) resolves, in the scope where it is printed,
   to the full name of the type it was printed for *)
Section RefsOk.
  Variables (api : apiD) (names : list string) (tab : modtab) (ltypes : typeset) (globals : scope).
  Definition ref_target (t : ftype) : string := type_tname t.
  Definition field_ref_ok (pkgs : string) (at_ : addr) (nested : list msgD) (locals : scope) (f : fieldD) : bool :=
    let t := match entry_of at_ nested f with Some (_, v) => v | None => f_type f end in
    option_eqb String.eqb (resolve tab pkgs ltypes locals globals (ref_of api names at_ t)) (Some (type_tname t)).
  Fixpoint fields_ref_ok (pkgs : string) (at_ : addr) (nested : list msgD) (locals : scope) (fs : list fieldD) : bool :=
    match fs with
    | [] => true
    | f :: fs' => field_ref_ok pkgs at_ nested locals f
                  && fields_ref_ok pkgs at_ nested ((field_attr (f_name f), PVOther) :: locals) fs'
    end.
  Fixpoint refs_ok (pkg : list string) (module : string) (prefix : string) (parent : list string) (m : msgD) : bool :=
    let 'Msg n fs os ns es _ := m in
    let at_ := mkAddr pkg module parent n in
    let full := prefix ++ "." ++ n in
    fields_ref_ok (dotted pkg) at_ ns (in_locals full m) fs
    && all_non_entry (refs_ok pkg module full (parent ++ [n])%list) ns.
End RefsOk.

(* ------------------------------------------------------------------ file level: the hypotheses of the round trip, decidable *)
Fixpoint msgs_ok (api : apiD) (names : list string) (tab : modtab) (ltypes : typeset) (pkg : list string) (module : string)
                 (globals : scope) (ms : list msgD) : bool :=
  match ms with
  | [] => true
  | m :: ms' =>
      wf_msg pkg module (dotted pkg) [] m
      && refs_ok api names tab ltypes globals pkg module (dotted pkg) [] m
      && msgs_ok api names tab ltypes pkg module ((m_name m, PVType (dotted pkg ++ "." ++ m_name m)) :: globals) ms'
  end.
Definition enum_globals (pkgs : string) (es : list enumD) (g : scope) : scope :=
  fold_left (fun g e => (e_name e, PVType (pkgs ++ "." ++ e_name e)) :: g) es g.
Definition file_ok (api : apiD) (tab : modtab) (f : fileD) : bool :=
  let h := emit_header api f in
  let pkgs := dotted (fd_pkg f) in
  match h_proto_alias h with
  | None => false
  | Some _ =>
      forallb enum_ok (fd_enums f)
      && msgs_ok api (proto_names api f) tab (flat_map (decl_types pkgs) (emit_file api f)) (fd_pkg f) (fd_module f)
                 (enum_globals pkgs (fd_enums f) (initial_globals h)) (fd_msgs f)
  end.

(* ------------------------------------------------------------------ selective generation: emitted classes and printed references
   A class (message or enum, at any depth) is rendered only inside its outermost enclosing message, and
   prune_messages_for_selective_generation keeps the top-level messages whose address is allow-listed: a class is EMITTED iff
   the top-level class enclosing it is kept.  MessageType.add_to_address_allowlist adds a message with the types of its
   fields, its nested enums and nested messages; API.build then adds the enclosing top-level message of every allow-listed
   nested type until nothing changes.  [closed] states what that fixed point guarantees (per class: descendants of a kept
   top-level class are kept; a kept class has its enclosing top-level class and the package-local types of its fields kept). *)
Local Open Scope list_scope.
Definition top_of (a : addr) : addr :=
  match a_parent a with [] => a | p :: _ => mkAddr (a_pkg a) (a_module a) [] p end.
Definition cls := (addr * list addr)%type.
Fixpoint msg_cls (pkg : list string) (module : string) (parent : list string) (m : msgD) : list cls :=
  let 'Msg n fs _ ns es _ := m in
  ((mkAddr pkg module parent n, field_refs m)
   :: map (fun e => (mkAddr pkg module (parent ++ [n]) (e_name e), [])) es)
  ++ (fix go (l : list msgD) : list cls :=
        match l with [] => [] | x :: l' => msg_cls pkg module (parent ++ [n]) x ++ go l' end) ns.
Definition file_cls (f : fileD) : list cls :=
  map (fun e => (mkAddr (fd_pkg f) (fd_module f) [] (e_name e), [])) (fd_enums f)
  ++ flat_map (msg_cls (fd_pkg f) (fd_module f) []) (fd_msgs f).
Definition in_kept (kept : list addr) (a : addr) : bool := existsb (addr_eqb a) kept.
Definition emitted (kept : list addr) (a : addr) : bool := in_kept kept (top_of a).
Definition local_ (decls : list cls) (r : addr) : bool := existsb (fun d => addr_eqb r (fst d)) decls.
Definition closed_at (kept : list addr) (decls : list cls) (d : cls) : bool :=
  implb (in_kept kept (top_of (fst d))) (in_kept kept (fst d))
  && implb (in_kept kept (fst d))
           (in_kept kept (top_of (fst d))
            && forallb (fun r => implb (local_ decls r) (in_kept kept r)) (snd d)).
Definition closed (kept : list addr) (decls : list cls) : bool := forallb (closed_at kept decls) decls.
Definition printed_refs (kept : list addr) (decls : list cls) : list addr :=
  flat_map (fun d : cls => if emitted kept (fst d) then filter (local_ decls) (snd d) else []) decls.
(* the witness: rpc -> Outer.Mid only; Outer.inner : Other.Inner; Other.leaf : Third.Leaf *)
Definition sx_pkg := ["google"; "example"; "v1"].
Definition sx_ref (parent : list string) (n : string) := TRef KMsg (mkAddr sx_pkg "lib" parent n).
Definition sx_file : fileD := mkFile sx_pkg "lib" []
  [Msg "Third" [] [] [Msg "Leaf" [mkField "z" 1 (TScalar S_STRING) false None false] [] [] [] false] [] false;
   Msg "Other" [mkField "leaf" 1 (sx_ref ["Third"] "Leaf") false None false] []
       [Msg "Inner" [mkField "x" 1 (TScalar S_INT32) false None false] [] [] [] false] [] false;
   Msg "Outer" [mkField "inner" 1 (sx_ref ["Other"] "Inner") false None false] []
       [Msg "Mid" [mkField "y" 1 (TScalar S_INT32) false None false] [] [] [] false] [] false;
   Msg "KeepRequest" [mkField "mid" 1 (sx_ref ["Outer"] "Mid") false None false] [] [] [] false;
   Msg "DropRequest" [] [] [] [] false].
Definition sx_a (parent : list string) (n : string) := mkAddr sx_pkg "lib" parent n.
(* the fixed point of /repo's loop *)
Definition sx_kept_fix := [sx_a [] "KeepRequest"; sx_a ["Outer"] "Mid"; sx_a [] "Outer"; sx_a ["Other"] "Inner"; sx_a [] "Other";
                           sx_a ["Third"] "Leaf"; sx_a [] "Third"].
(* one sweep of the enclosing-message rule only *)
Definition sx_kept_once := [sx_a [] "KeepRequest"; sx_a ["Outer"] "Mid"; sx_a [] "Outer"; sx_a ["Other"] "Inner"].
