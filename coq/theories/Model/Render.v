(* Model/Render.v — C01: which per-service templates are rendered for which options (Generator._render_template,
   _is_desired_transport), and the transport-related import lines / registry entries those templates print
   (client.py.j2, async_client.py.j2, services/%service/__init__.py.j2, transports/__init__.py.j2, transports/*.py.j2).
   Template paths come from Gen/Templates.v, regenerated from /repo on every run.  Definitions only. *)
From GV Require Import Base.Str Gen.Templates.

Fixpoint has_sub (sub s : string) : bool :=
  starts_with sub s || match s with EmptyString => false | String _ s' => has_sub sub s' end.

Record opts := { o_grpc : bool; o_rest : bool; o_rest_async : bool }.
Definition transports (o : opts) : list string :=
  (if o_grpc o then ["grpc"] else []) ++ (if o_rest o then ["rest"] else []).

Fixpoint basename_acc (s acc : string) : string :=
  match s with
  | EmptyString => srev acc
  | String c s' => if Ascii.eqb c "/"%char then basename_acc s' "" else basename_acc s' (String c acc)
  end.
Definition basename (p : string) : string := basename_acc p "".

(* Generator.get_response: private templates are skipped *)
Definition is_private (tmpl : string) : bool :=
  starts_with "_" (basename tmpl) && negb (String.eqb (basename tmpl) "__init__.py.j2").

(* Generator._is_desired_transport: a SUBSTRING test over the template name *)
Definition is_desired_transport (o : opts) (tmpl : string) : bool :=
  existsb (fun t => has_sub t tmpl) (["__init__"; "base"; "README"] ++ transports o).

(* the skip condition of the %service loop of _render_template *)
Definition service_skipped (o : opts) (tmpl : string) : bool :=
  (has_sub "transport" tmpl && negb (is_desired_transport o tmpl))
  || (has_sub "async_client" tmpl && negb (o_grpc o) && negb (o_rest_async o))
  || (has_sub "rest_asyncio" tmpl && negb (o_rest_async o))
  || (has_sub "rest_base" tmpl && negb (o_rest o)).

Definition service_templates : list string := filter (has_sub "%service") DEFAULT_TEMPLATES.
Definition rendered_service_templates (o : opts) : list string :=
  filter (fun t => negb (is_private t) && negb (service_skipped o t)) service_templates.

(* module path relative to services/<service>/ of a rendered template, without the .py.j2 suffix:
   "client", "async_client", "transports/grpc", ... (non-Python files keep their name) *)
Definition strip_suffix (suf s : string) : string :=
  if ends_with suf s then srev (sdrop (String.length suf) (srev s)) else s.
Fixpoint after_sub (sub s : string) : option string :=
  match strip_prefix sub s with
  | Some r => Some r
  | None => match s with EmptyString => None | String _ s' => after_sub sub s' end
  end.
Definition service_module (tmpl : string) : option string :=
  match after_sub "%service/" tmpl with
  | Some r => if ends_with ".py.j2" r then Some (strip_suffix ".py.j2" r) else None
  | None => None
  end.
Fixpoint cat_options {A} (l : list (option A)) : list A :=
  match l with [] => [] | Some x :: l' => x :: cat_options l' | None :: l' => cat_options l' end.
Definition emitted_modules (o : opts) : list string := cat_options (map service_module (rendered_service_templates o)).

(* ---- what the templates print ---- *)
(* client.py.j2: _transport_registry keys in order *)
Definition registry (o : opts) : list string :=
  (if o_grpc o then ["grpc"; "grpc_asyncio"] else [])
  ++ (if o_rest o then "rest" :: (if o_rest_async o then ["rest_asyncio"] else []) else []).
Definition default_transport (o : opts) : option string :=
  match registry o with [] => None | k :: _ => Some k end.

(* intra-package imports of each module, as module paths relative to services/<service>/ ;
   guarded = inside try/except ImportError, so a missing target is tolerated *)
Definition imports_of (o : opts) (m : string) : list string :=
  if String.eqb m "__init__" then "client" :: (if o_grpc o then ["async_client"] else [])
  else if String.eqb m "client" then
    ["transports/base"] ++ (if o_grpc o then ["transports/grpc"; "transports/grpc_asyncio"] else [])
    ++ (if o_rest o then ["transports/rest"] else [])
  else if String.eqb m "async_client" then ["transports/base"; "transports/grpc_asyncio"; "client"]
  else if String.eqb m "transports/__init__" then
    ["transports/base"] ++ (if o_grpc o then ["transports/grpc"; "transports/grpc_asyncio"] else [])
    ++ (if o_rest o then ["transports/rest"] else [])
  else if String.eqb m "transports/grpc" then ["transports/base"]
  else if String.eqb m "transports/grpc_asyncio" then ["transports/base"; "transports/grpc"]
  else if String.eqb m "transports/rest" then ["transports/rest_base"; "transports/base"]
  else if String.eqb m "transports/rest_asyncio" then ["transports/rest_base"; "transports/base"]
  else if String.eqb m "transports/rest_base" then ["transports/base"]
  else [].

(* every unguarded import of every emitted module targets an emitted module *)
Definition imports_closed (o : opts) : bool :=
  forallb (fun m => forallb (fun i => mem_str i (emitted_modules o)) (imports_of o m)) (emitted_modules o).

(* transport classes offered = registry keys map to emitted transport modules *)
Definition registry_backed (o : opts) : bool :=
  forallb (fun k => mem_str ("transports/" ++ k) (emitted_modules o)) (registry o).

Definition all_opts : list opts :=
  [ {| o_grpc := true; o_rest := false; o_rest_async := false |};
    {| o_grpc := false; o_rest := true; o_rest_async := false |};
    {| o_grpc := true; o_rest := true; o_rest_async := false |};
    {| o_grpc := true; o_rest := false; o_rest_async := true |};
    {| o_grpc := false; o_rest := true; o_rest_async := true |};
    {| o_grpc := true; o_rest := true; o_rest_async := true |} ].
Definition supported (o : opts) : bool := (o_grpc o || o_rest o) && negb (o_rest_async o).
