(* Model/Stubs.v — C03: gRPC calls reach the right RPC.  Definitions only.

   Mirrors, as the code is:
     gapic/schema/wrappers.py      Method.transport_safe_name, grpc_stub_type, void, _client_output
     gapic/utils/case.py           to_snake_case
     transports/grpc.py.j2, grpc_asyncio.py.j2   one property per method creating the stub
                                   (path literal, unary/stream factory, serializer / deserializer choice)
     transports/base.py.j2, _shared_macros.j2    _prep_wrapped_messages: the table of wrapped methods
     _client_macros.j2, async_client.py.j2, _mixins.py.j2, _async_mixins.py.j2, client.py.j2
                                   which table entry each client method uses, how it calls it, what it returns
   The request coercion block is the one of Model/Flatten.v.
   TRANSPORT_UNSAFE_LITERALS and PY_KWLIST are regenerated on every run (T0: Gen/StubsGen.v). *)
From GV Require Import Base.Str Gen.StubsGen Model.Flatten.

(* ---- gapic.utils.to_snake_case: four regex substitutions with zero-width look-around, then lower() ---- *)
Fixpoint ins_pass (test : option ascii -> ascii -> string -> bool) (prev : option ascii) (s : string) : string :=
  match s with
  | EmptyString => EmptyString
  | String c s' =>
      if test prev c s' then String "_"%char (String c (ins_pass test (Some c) s'))
      else String c (ins_pass test (Some c) s')
  end.
Definition prev_is (f : ascii -> bool) (p : option ascii) : bool := match p with Some a => f a | None => false end.
Definition next_is (f : ascii -> bool) (s : string) : bool := match s with String a _ => f a | EmptyString => false end.
Definition at_dollar (s : string) : bool :=
  match s with EmptyString => true | String a EmptyString => Ascii.eqb a nl | _ => false end.
(* lower-case letter before, capital here *)
Definition sn1 (p : option ascii) (c : ascii) (_ : string) : bool := prev_is is_lower p && is_upper c.
(* anything but an underscore before, capital here, lower-case letter after *)
Definition sn2 (p : option ascii) (c : ascii) (r : string) : bool :=
  prev_is (fun a => negb (Ascii.eqb a "_"%char)) p && is_upper c && next_is is_lower r.
(* lower-case letter before, digit here, two capitals after *)
Definition sn3 (p : option ascii) (c : ascii) (r : string) : bool :=
  prev_is is_lower p && is_digit c && match r with String a (String b _) => is_upper a && is_upper b | _ => false end.
(* lower-case letter before, digit here, one capital then the end after *)
Definition sn4 (p : option ascii) (c : ascii) (r : string) : bool :=
  prev_is is_lower p && is_digit c && match r with String a r' => is_upper a && at_dollar r' | _ => false end.
Definition snake (s : string) : string :=
  lower (ins_pass sn4 None (ins_pass sn3 None (ins_pass sn2 None (ins_pass sn1 None s)))).

(* ---- schema subset ---- *)
Record meth := mkMeth {
  me_name : string;            (* the RPC name of the proto *)
  me_cs : bool;                (* client_streaming *)
  me_ss : bool;                (* server_streaming *)
  me_in_pp : bool;             (* the request type is a proto-plus type (its python module does not end in _pb2) *)
  me_out_pp : bool;
  me_void : bool;              (* output is google.protobuf.Empty *)
  me_lro : bool;
  me_paged : bool
}.

Record svc := mkSvc {
  s_package : string;          (* '.'.join(method.meta.address.package) *)
  s_name : string;
  s_methods : list meth;
  s_mixins : list string;      (* api.mixin_api_methods.keys(), e.g. ListOperations, GetLocation, SetIamPolicy *)
  s_add_iam : bool             (* option add-iam-methods *)
}.

(* Method.transport_safe_name *)
Definition unsafe_names : list string := TRANSPORT_UNSAFE_LITERALS ++ PY_KWLIST.
Definition safe_name (n : string) : string := if mem_str (lower n) unsafe_names then n ++ "_" else n.
Definition key_of (m : meth) : string := snake (safe_name (me_name m)).

(* Method.client_method_name *)
(* (methods made internal by selective generation get a leading underscore: not modelled, see C16) *)
Definition client_name (m : meth) : string :=
  snake (if mem_str (lower (me_name m)) PY_KWLIST then me_name m ++ "_" else me_name m).

Inductive kind := UU | US | SU | SS.
Definition kind_of_flags (cs ss : bool) : kind :=
  match cs, ss with false, false => UU | false, true => US | true, false => SU | true, true => SS end.
Definition flags_of_kind (k : kind) : bool * bool :=
  match k with UU => (false, false) | US => (false, true) | SU => (true, false) | SS => (true, true) end.
(* Method.grpc_stub_type: the channel attribute used to make the stub *)
Definition kind_attr (k : kind) : string :=
  match k with UU => "unary_unary" | US => "unary_stream" | SU => "stream_unary" | SS => "stream_stream" end.
Definition kind_eqb (a b : kind) : bool :=
  match a, b with UU, UU => true | US, US => true | SU, SU => true | SS, SS => true | _, _ => false end.

Definition mk_path (full_service method : string) : string := "/" ++ full_service ++ "/" ++ method.
Definition full_service (s : svc) : string := s_package s ++ "." ++ s_name s.

Record stub := mkStub {
  st_key : string;             (* property name and key of self._stubs *)
  st_kind : kind;
  st_path : string;
  st_req_ser : string;         (* attribute of the request class *)
  st_resp_deser : string       (* attribute of the response class *)
}.

Definition stub_of (s : svc) (m : meth) : stub :=
  mkStub (key_of m) (kind_of_flags (me_cs m) (me_ss m)) (mk_path (full_service s) (me_name m))
         (if me_in_pp m then "serialize" else "SerializeToString")
         (if me_out_pp m then "deserialize" else "FromString").

(* the legacy add-iam-methods stubs and the mixin stubs are unary-unary on fixed services *)
Definition IAM_LEGACY : list (string * string) :=
  [("set_iam_policy", "SetIamPolicy"); ("get_iam_policy", "GetIamPolicy"); ("test_iam_permissions", "TestIamPermissions")].
Definition iam_stub (kn : string * string) : stub :=
  mkStub (fst kn) UU (mk_path "google.iam.v1.IAMPolicy" (snd kn)) "SerializeToString" "FromString".
Definition is_iam (n : string) : bool := mem_str n (map snd IAM_LEGACY).
Definition is_location (n : string) : bool := mem_str n ["GetLocation"; "ListLocations"].
Definition mixin_service (n : string) : string :=
  if is_iam n then "google.iam.v1.IAMPolicy"
  else if is_location n then "google.cloud.location.Locations" else "google.longrunning.Operations".
Definition mixin_stub (n : string) : stub :=
  mkStub (snake n) UU (mk_path (mixin_service n) n) "SerializeToString" "FromString".

(* the properties of the transport class, in the order of definition: methods, then the legacy IAM ones,
   then the mixins (IAM mixins only without add-iam-methods).  A later definition of a name replaces an earlier one. *)
(* transports/_mixins.py.j2 and _mixins.py.j2 emit the mixin methods that are configured, in these fixed orders *)
Definition TRANSPORT_MIXIN_ORDER : list string :=
  ["DeleteOperation"; "CancelOperation"; "WaitOperation"; "GetOperation"; "ListOperations";
   "ListLocations"; "GetLocation"; "SetIamPolicy"; "GetIamPolicy"; "TestIamPermissions"].
Definition CLIENT_MIXIN_ORDER : list string :=
  ["ListOperations"; "GetOperation"; "DeleteOperation"; "CancelOperation"; "WaitOperation";
   "SetIamPolicy"; "GetIamPolicy"; "TestIamPermissions"; "GetLocation"; "ListLocations"].
Definition mixins_emitted (order : list string) (s : svc) : list string :=
  filter (fun n => mem_str n (s_mixins s) && negb (is_iam n && s_add_iam s)) order.

Definition transport_props (s : svc) : list stub :=
  map (stub_of s) (s_methods s)
  ++ (if s_add_iam s then map iam_stub IAM_LEGACY else [])
  ++ map mixin_stub (mixins_emitted TRANSPORT_MIXIN_ORDER s).

Fixpoint live_from (k : string) (l : list stub) (found : option stub) : option stub :=
  match l with
  | [] => found
  | x :: l' => live_from k l' (if String.eqb (st_key x) k then Some x else found)
  end.
(* the stub behind the attribute self.<k> of the transport *)
Definition live (s : svc) (k : string) : option stub := live_from k (transport_props s) None.

(* _prep_wrapped_messages: the table is keyed by the stub objects self.<k>, for these k, in this order *)
Definition wrapped_keys (s : svc) : list string := map key_of (s_methods s) ++ map snake (s_mixins s).

(* how a client method gets its rpc *)
Inductive lookup_form := Table | Direct.      (* table[self._transport.k]  /  wrap_method(self._transport.k) on the fly *)
Definition lookup_form_eqb (a b : lookup_form) : bool :=
  match a, b with Table, Table => true | Direct, Direct => true | _, _ => false end.

Record client_method := mkCM {
  cm_name : string;            (* name of the client method *)
  cm_form : lookup_form;
  cm_key : string              (* attribute of the transport it asks for *)
}.

Definition method_cms (s : svc) : list client_method :=
  map (fun m => mkCM (client_name m) Table (key_of m)) (s_methods s).
Definition mixin_cms (s : svc) : list client_method :=
  map (fun n => mkCM (snake n) Table (snake n)) (mixins_emitted CLIENT_MIXIN_ORDER s).
(* the legacy IAM methods wrap the transport attribute on the fly, in both clients (the asyncio client used to ask the
   table, which has no such entries: fixed in /repo by "wrap the legacy IAM methods of the asyncio client as the sync client does") *)
Definition legacy_iam_cms (v : variant) (s : svc) : list client_method :=
  if s_add_iam s then map (fun kn => mkCM (fst kn) Direct (fst kn)) IAM_LEGACY
  else [].
(* the rpc-calling methods of the client class, in the order of definition *)
Definition client_methods (v : variant) (s : svc) : list client_method :=
  method_cms s ++ mixin_cms s ++ legacy_iam_cms v s.

(* the client class keeps the last definition of a method name: the RPC whose body runs when <name> is called *)
Fixpoint live_meth_from (n : string) (l : list meth) (found : option meth) : option meth :=
  match l with
  | [] => found
  | m :: l' => live_meth_from n l' (if String.eqb (client_name m) n then Some m else found)
  end.
Definition live_meth (s : svc) (n : string) : option meth := live_meth_from n (s_methods s) None.

Definition client_lookup_keys (v : variant) (s : svc) : list string :=
  map cm_key (filter (fun c => match cm_form c with Table => true | Direct => false end) (client_methods v s)).

(* calling client method c: None stands for the KeyError of the table lookup *)
Definition dispatch (v : variant) (s : svc) (c : client_method) : option stub :=
  match cm_form c with
  | Direct => live s (cm_key c)
  | Table => if mem_str (cm_key c) (wrapped_keys s) then live s (cm_key c) else None
  end.

(* ---- the call and what the client method gives back ---- *)
Record call_ir := mkCall {
  c_arg : string;              (* request / requests *)
  c_awaited : bool;
  c_assigned : bool;           (* response = rpc(...) *)
  c_returns : bool             (* return response *)
}.
Definition call_of (v : variant) (m : meth) : call_ir :=
  mkCall (if me_cs m then "requests" else "request")
         (match v with Async => negb (me_ss m) | Sync => false end)
         (negb (me_void m)) (negb (me_void m)).
Definition call_eqb (a b : call_ir) : bool :=
  String.eqb (c_arg a) (c_arg b) && Bool.eqb (c_awaited a) (c_awaited b) && Bool.eqb (c_assigned a) (c_assigned b)
  && Bool.eqb (c_returns a) (c_returns b).

(* Method._client_output *)
Inductive out_kind := ONone | OOperation | OPager | OPlain.
Definition client_output (m : meth) : out_kind :=
  if me_void m then ONone else if me_lro m then OOperation else if me_paged m then OPager else OPlain.
Definition out_kind_eqb (a b : out_kind) : bool :=
  match a, b with ONone, ONone => true | OOperation, OOperation => true | OPager, OPager => true | OPlain, OPlain => true | _, _ => false end.

(* what the caller gets for the replies the server sent (plain methods; operations and pagers wrap the reply) *)
Inductive result := RetNone | RetOne (r : string) | RetStream (rs : list string) | RetWrapped (k : out_kind) (r : string) | RetError.
Definition client_result (m : meth) (replies : list string) : result :=
  if me_ss m then (if me_void m then RetNone else RetStream replies) else
  match replies with
  | [r] => match client_output m with
           | ONone => RetNone
           | OPlain => RetOne r
           | k => RetWrapped k r
           end
  | _ => RetError              (* a unary response needs exactly one reply *)
  end.
(* number of request messages the server receives *)
Definition requests_on_wire (m : meth) (n_given : nat) : nat := if me_cs m then n_given else 1.

Definition stub_eqb (a b : stub) : bool :=
  String.eqb (st_key a) (st_key b) && kind_eqb (st_kind a) (st_kind b) && String.eqb (st_path a) (st_path b) &&
  String.eqb (st_req_ser a) (st_req_ser b) && String.eqb (st_resp_deser a) (st_resp_deser b).

Definition cm_eqb (a b : client_method) : bool :=
  String.eqb (cm_name a) (cm_name b) && lookup_form_eqb (cm_form a) (cm_form b) && String.eqb (cm_key a) (cm_key b).

(* /<package>.<Service>/<Method> read back *)
Definition parse_path (p : string) : option (string * string) :=
  match split_on "/"%char p with
  | [e; a; b] => if is_empty e then Some (a, b) else None
  | _ => None
  end.
