(* Model/Mixins.v — C17: mixin RPCs (google.longrunning.Operations, google.iam.v1.IAMPolicy,
   google.cloud.location.Locations) as configured in the service YAML.
   Mirrors gapic/schema/api.py: API.has_location_mixin / has_iam_mixin / has_operations_mixin, _get_methods_from_service,
   _has_iam_overrides, mixin_api_methods, mixin_api_signatures, mixin_http_options; wrappers.py: HttpRule.try_parse_http_rule;
   utils/uri_conv.py: convert_uri_fieldnames; and the hand-written per-method template text of
   services/%service/_mixins.py.j2, _async_mixins.py.j2, client.py.j2 / async_client.py.j2 (opts.add_iam_methods blocks),
   transports/base.py.j2 and _shared_macros.j2 (the _wrapped_methods tables), transports/_mixins.py.j2, grpc.py.j2,
   grpc_asyncio.py.j2 (stub properties), transports/_rest_mixins_base.py.j2 (_get_http_options).
   Definitions only.  The canonical method table CANON, MIXINS_MAP, the merge order and the api names compared by has_*_mixin
   are regenerated on every run (Gen/MixinsGen.v, T0); the template tables below are compared with every emitted library (T1). *)
From GV Require Import Base.Str Gen.Kw Gen.MixinsGen Model.Case Model.Reserved.

(* ---- the canonical table (installed pb2 service descriptors) ---- *)
Record crow := { cr_mod : string; cr_api : string; cr_method : string; cr_in : string; cr_out : string; cr_route : string }.
Definition mk_row (t : string * (string * (string * (string * (string * string))))) : crow :=
  let '(a, (s, (m, (i, (o, r))))) := t in
  {| cr_mod := a; cr_api := s; cr_method := m; cr_in := i; cr_out := o; cr_route := r |}.
Definition CANON : list crow := map mk_row CANON_ROWS.

Definition fqn (r : crow) : string := cr_api r ++ "." ++ cr_method r.
Definition grpc_path (r : crow) : string := "/" ++ cr_api r ++ "/" ++ cr_method r.
Definition crow_eqb (a b : crow) : bool :=
  String.eqb (cr_mod a) (cr_mod b) && String.eqb (cr_api a) (cr_api b) && String.eqb (cr_method a) (cr_method b)
  && String.eqb (cr_in a) (cr_in b) && String.eqb (cr_out a) (cr_out b) && String.eqb (cr_route a) (cr_route b).

(* literals the model was written against; pinned to Gen/MixinsGen.v in Proofs/Mixins.v *)
Definition LOC : string := "locations_pb2".
Definition IAM : string := "iam_policy_pb2".
Definition OPS : string := "operations_pb2".
Definition LOC_API : string := "google.cloud.location.Locations".
Definition IAM_API : string := "google.iam.v1.IAMPolicy".
Definition OPS_API : string := "google.longrunning.Operations".
Definition EMPTY : string := "google.protobuf.Empty".

(* ---- the service YAML subset and the API's own services ---- *)
(* a google.api.HttpRule: [b_verb] is WhichOneof("pattern") ("" when unset; get put post delete patch custom) *)
Record binding := { b_verb : string; b_uri : string; b_body : string }.
Record rule := { r_selector : string; r_main : binding; r_more : list binding }.
Record config := { c_apis : list string;                 (* names under `apis`, in order *)
                   c_rules : list rule;                  (* http.rules, in order *)
                   c_services : list (list string);      (* rpc names of every service of the API itself *)
                   c_add_iam : bool }.                   (* option add-iam-methods *)
Definition mkB (v u b : string) : binding := {| b_verb := v; b_uri := u; b_body := b |}.
Definition mkRule (s : string) (m : binding) (more : list binding) : rule := {| r_selector := s; r_main := m; r_more := more |}.
Definition mkCfg (apis : list string) (rules : list rule) (svcs : list (list string)) (iam : bool) : config :=
  {| c_apis := apis; c_rules := rules; c_services := svcs; c_add_iam := iam |}.

(* ---- Python dict with insertion order ---- *)
Fixpoint dict_set {A} (k : string) (v : A) (l : list (string * A)) : list (string * A) :=
  match l with
  | [] => [(k, v)]
  | (k', v') :: t => if String.eqb k k' then (k, v) :: t else (k', v') :: dict_set k v t
  end.
(* {**d, **new} *)
Definition dict_update {A} (d new : list (string * A)) : list (string * A) :=
  fold_left (fun acc kv => dict_set (fst kv) (snd kv) acc) new d.
Definition keys {A} (d : list (string * A)) : list string := map fst d.

(* ---- API._get_methods_from_service ---- *)
Definition module_rows (m : string) : list crow := filter (fun r => String.eqb (cr_mod r) m) CANON.
Definition find_row (m sel : string) : option crow := find (fun r => String.eqb (fqn r) sel) (module_rows m).
Definition gm_step (m : string) (acc : list (string * (crow * rule))) (rl : rule) : list (string * (crow * rule)) :=
  match find_row m (r_selector rl) with
  | Some r => dict_set (cr_method r) (r, rl) acc
  | None => acc
  end.
Definition get_methods (m : string) (cfg : config) : list (string * (crow * rule)) :=
  fold_left (gm_step m) (c_rules cfg) [].

(* ---- has_*_mixin, _has_iam_overrides, mixin_api_methods ---- *)
Definition has_listed (api : string) (cfg : config) : bool := mem_str api (c_apis cfg).
Definition has_iam_overrides (cfg : config) : bool :=
  has_listed IAM_API cfg &&
  existsb (fun svc => existsb (fun kv => mem_str (fst kv) svc) (get_methods IAM cfg)) (c_services cfg).
Definition mixin_api_methods (cfg : config) : list (string * (crow * rule)) :=
  let m1 := if has_listed LOC_API cfg then dict_update [] (get_methods LOC cfg) else [] in
  let m2 := if negb (has_iam_overrides cfg) && has_listed IAM_API cfg then dict_update m1 (get_methods IAM cfg) else m1 in
  if has_listed OPS_API cfg then dict_update m2 (get_methods OPS cfg) else m2.
Definition mixin_names (cfg : config) : list string := keys (mixin_api_methods cfg).

(* mixin_api_signatures: MIXINS_MAP[name] (KeyError = None) with the pb2 aliases resolved *)
Definition mixin_signatures (cfg : config) : list (string * option (string * string)) :=
  map (fun n => (n, assoc n MIXINS_MAP_FULL)) (mixin_names cfg).

(* ---- uri_conv.convert_uri_fieldnames over path_template._VARIABLE_RE ----
   an opening brace, a lazy name of one or more non-slash characters, optionally an equals sign and a lazy non-empty
   template without newline, a closing brace.  The name is replaced by _fix_field_path(name); everything else is copied. *)
Definition ceq (a b : ascii) : bool := Ascii.eqb a b.
(* index of the first closing brace before any newline *)
Fixpoint close_idx (s : string) : option nat :=
  match s with
  | EmptyString => None
  | String c s' => if ceq c "}"%char then Some 0 else if ceq c nl then None else option_map S (close_idx s')
  end.
(* length of what follows the name, up to and including the closing brace *)
Definition tail_len (s : string) : option nat :=
  match s with
  | String c t =>
      if ceq c "}"%char then Some 1
      else if ceq c "="%char then
        match t with
        | String d t' => if ceq d nl then None else option_map (fun k => 3 + k) (close_idx t')
        | EmptyString => None
        end
      else None
  | EmptyString => None
  end.
(* [s] is the text after the brace with [n] name characters already taken: shortest name that lets the rest match *)
Fixpoint var_match (s : string) (n : nat) : option (nat * nat) :=
  match s with
  | EmptyString => None
  | String c s' =>
      if ceq c "/"%char then None
      else match tail_len s' with
           | Some t => Some (S n, t)
           | None => var_match s' (S n)
           end
  end.
Fixpoint convert_aux (drop copy : nat) (s : string) : string :=
  match s with
  | EmptyString => EmptyString
  | String c s' =>
      match drop, copy with
      | S d, _ => convert_aux d copy s'
      | O, S k => String c (convert_aux O k s')
      | O, O =>
          if ceq c "{"%char then
            match var_match s' 0 with
            | Some (n, t) => String c (fix_path (stake n s') ++ convert_aux n t s')
            | None => String c (convert_aux O O s')
            end
          else String c (convert_aux O O s')
      end
  end.
Definition convert_uri (u : string) : string := convert_aux 0 0 u.

(* ---- HttpRule.try_parse_http_rule and API.mixin_http_options ---- *)
Record http_opt := { h_method : string; h_uri : string; h_body : option string }.
Definition parse_binding (b : binding) : option http_opt :=
  if is_empty (b_verb b) || String.eqb (b_verb b) "custom" then None
  else if is_empty (b_uri b) then None
  else Some {| h_method := b_verb b; h_uri := convert_uri (b_uri b);
               h_body := if is_empty (b_body b) then None else Some (body_attr (b_body b)) |}.
Fixpoint somes {A} (l : list (option A)) : list A :=
  match l with [] => [] | Some x :: t => x :: somes t | None :: t => somes t end.
Definition rule_options (rl : rule) : list http_opt := somes (map parse_binding (r_main rl :: r_more rl)).
Definition mixin_http_options (cfg : config) : list (string * list http_opt) :=
  map (fun kv => (fst kv, rule_options (snd (snd kv)))) (mixin_api_methods cfg).

(* ---- transports/_rest_mixins_base.py.j2 and generate_mixin_call_method (since /repo 869bd41):
   _get_request_body_json exists (and __call__ passes data=body) when ANY binding of the rule has a body; the body sent is
   json.dumps(transcoded_request['body']) when the binding that transcode matched has one, None otherwise ---- *)
Definition has_body (o : http_opt) : bool := match h_body o with Some _ => true | None => false end.
Definition rest_body_defined (opts : list http_opt) : bool := existsb has_body opts.
Definition rest_sends_body (opts : list http_opt) (matched : http_opt) : bool := rest_body_defined opts && has_body matched.
Definition mixin_body_defined (cfg : config) : list (string * bool) :=
  map (fun kv => (fst kv, rest_body_defined (snd kv))) (mixin_http_options cfg).

(* ---- template text: client methods (services/%service/_mixins.py.j2 and _async_mixins.py.j2, same order) ---- *)
Inductive group := GOps | GIam | GLoc.
Record tmethod := { t_name : string; t_group : group; t_route : string }.
Definition mkT (n : string) (g : group) (r : string) : tmethod := {| t_name := n; t_group := g; t_route := r |}.
Definition CLIENT_TMPL : list tmethod :=
  [ mkT "ListOperations" GOps "name"; mkT "GetOperation" GOps "name"; mkT "DeleteOperation" GOps "name";
    mkT "CancelOperation" GOps "name"; mkT "WaitOperation" GOps "name";
    mkT "SetIamPolicy" GIam "resource"; mkT "GetIamPolicy" GIam "resource"; mkT "TestIamPermissions" GIam "resource";
    mkT "GetLocation" GLoc "name"; mkT "ListLocations" GLoc "name" ].
(* the jinja guard around each group *)
Definition group_on (g : group) (cfg : config) : bool :=
  match g with
  | GOps => has_listed OPS_API cfg
  | GIam => negb (c_add_iam cfg) && has_listed IAM_API cfg
  | GLoc => has_listed LOC_API cfg
  end.
Definition tmpl_on (cfg : config) (n : string) (g : group) : bool := group_on g cfg && mem_str n (mixin_names cfg).

Inductive ckind := Sync | Async.
(* one method of a client class: python name, the key it looks up in transport._wrapped_methods (None: it wraps the
   transport property itself at call time with gapic_v1.method.wrap_method / method_async.wrap_method), the request
   field of its routing header *)
Record cmethod := { m_name : string; m_lookup : option string; m_route : string; m_legacy : bool }.
Definition client_mixin_methods (cfg : config) : list cmethod :=
  map (fun t => {| m_name := snake (t_name t); m_lookup := Some (snake (t_name t)); m_route := t_route t; m_legacy := false |})
      (filter (fun t => tmpl_on cfg (t_name t) (t_group t)) CLIENT_TMPL).
(* client.py.j2 / async_client.py.j2, opts.add_iam_methods blocks *)
Definition LEGACY : list string := ["SetIamPolicy"; "GetIamPolicy"; "TestIamPermissions"].
Definition legacy_methods (k : ckind) (cfg : config) : list cmethod :=
  if c_add_iam cfg then
    (* since /repo bb707ed the asyncio client wraps the transport property itself, as the sync client always did *)
    map (fun n => {| m_name := snake n; m_lookup := match k with Sync => None | Async => None end;
                     m_route := "resource"; m_legacy := true |}) LEGACY
  else [].
Definition client_methods (k : ckind) (cfg : config) : list cmethod := client_mixin_methods cfg ++ legacy_methods k cfg.

(* ---- template text: the isinstance(request, dict) branch of every mixin and legacy method (keyword expansion of the dict), on
   both clients: the request class a dict is coerced to (message full name) ---- *)
Definition COERCE_TMPL : list (string * string) :=
  [ ("ListOperations", "google.longrunning.ListOperationsRequest"); ("GetOperation", "google.longrunning.GetOperationRequest");
    ("DeleteOperation", "google.longrunning.DeleteOperationRequest"); ("CancelOperation", "google.longrunning.CancelOperationRequest");
    ("WaitOperation", "google.longrunning.WaitOperationRequest");
    ("SetIamPolicy", "google.iam.v1.SetIamPolicyRequest"); ("GetIamPolicy", "google.iam.v1.GetIamPolicyRequest");
    ("TestIamPermissions", "google.iam.v1.TestIamPermissionsRequest");
    ("GetLocation", "google.cloud.location.GetLocationRequest"); ("ListLocations", "google.cloud.location.ListLocationsRequest") ].
Definition coerce_of (n : string) : option string := assoc n COERCE_TMPL.
(* (python method, type a dict request is coerced to) for every mixin / legacy method of a client, in definition order *)
Definition client_coercions (k : ckind) (cfg : config) : list (string * option string) :=
  map (fun t => (snake (t_name t), coerce_of (t_name t))) (filter (fun t => tmpl_on cfg (t_name t) (t_group t)) CLIENT_TMPL)
  ++ (if c_add_iam cfg then map (fun n => (snake n, coerce_of n)) LEGACY else []).

(* ---- the _wrapped_methods table of a transport (base.py.j2 and prep_wrapped_messages_async_method):
   the service's own rpcs (transport-safe snake names, given) then one key per mixin method ---- *)
Definition mixin_table_keys (cfg : config) : list string := map snake (mixin_names cfg).
Definition table_keys (cfg : config) (own : list string) : list string := own ++ mixin_table_keys cfg.

(* ---- template text: gRPC stub properties (transports/_mixins.py.j2; legacy blocks of grpc.py.j2 / grpc_asyncio.py.j2).
   request/response are message full names (the harness resolves the pb2 aliases the same way T0 does);
   response None = response_deserializer=None ---- *)
Record stub := { s_name : string; s_group : group; s_path : string; s_req : string; s_resp : option string }.
Definition mkS (n : string) (g : group) (p rq : string) (rs : option string) : stub :=
  {| s_name := n; s_group := g; s_path := p; s_req := rq; s_resp := rs |}.
Definition STUB_TMPL : list stub :=
  [ mkS "DeleteOperation" GOps "/google.longrunning.Operations/DeleteOperation" "google.longrunning.DeleteOperationRequest" None;
    mkS "CancelOperation" GOps "/google.longrunning.Operations/CancelOperation" "google.longrunning.CancelOperationRequest" None;
    mkS "WaitOperation" GOps "/google.longrunning.Operations/WaitOperation" "google.longrunning.WaitOperationRequest" (Some "google.longrunning.Operation");
    mkS "GetOperation" GOps "/google.longrunning.Operations/GetOperation" "google.longrunning.GetOperationRequest" (Some "google.longrunning.Operation");
    mkS "ListOperations" GOps "/google.longrunning.Operations/ListOperations" "google.longrunning.ListOperationsRequest" (Some "google.longrunning.ListOperationsResponse");
    mkS "ListLocations" GLoc "/google.cloud.location.Locations/ListLocations" "google.cloud.location.ListLocationsRequest" (Some "google.cloud.location.ListLocationsResponse");
    mkS "GetLocation" GLoc "/google.cloud.location.Locations/GetLocation" "google.cloud.location.GetLocationRequest" (Some "google.cloud.location.Location");
    mkS "SetIamPolicy" GIam "/google.iam.v1.IAMPolicy/SetIamPolicy" "google.iam.v1.SetIamPolicyRequest" (Some "google.iam.v1.Policy");
    mkS "GetIamPolicy" GIam "/google.iam.v1.IAMPolicy/GetIamPolicy" "google.iam.v1.GetIamPolicyRequest" (Some "google.iam.v1.Policy");
    mkS "TestIamPermissions" GIam "/google.iam.v1.IAMPolicy/TestIamPermissions" "google.iam.v1.TestIamPermissionsRequest" (Some "google.iam.v1.TestIamPermissionsResponse") ].
Definition LEGACY_STUBS : list stub := filter (fun s => mem_str (s_name s) LEGACY) STUB_TMPL.
Definition grpc_stubs (cfg : config) : list stub :=
  filter (fun s => tmpl_on cfg (s_name s) (s_group s)) STUB_TMPL ++ (if c_add_iam cfg then LEGACY_STUBS else []).
Definition grpc_props (cfg : config) : list string := map (fun s => snake (s_name s)) (grpc_stubs cfg).

(* what the property's sentence demands of a stub, against the canonical row *)
Definition resp_canonical (s : stub) (r : crow) : bool :=
  match s_resp s with
  | Some t => String.eqb t (cr_out r)
  | None => String.eqb (cr_out r) EMPTY
  end.
Definition stub_row (s : stub) : option crow := find (fun r => String.eqb (cr_method r) (s_name s)) CANON.
Definition stub_path_req_ok (s : stub) : bool :=
  match stub_row s with
  | Some r => String.eqb (s_path s) (grpc_path r) && String.eqb (s_req s) (cr_in r)
  | None => false
  end.
Definition stub_resp_ok (s : stub) : bool :=
  match stub_row s with Some r => resp_canonical s r | None => false end.

(* ---- the selection predicate of the property's sentence ---- *)
Definition has_rule (sel : string) (cfg : config) : bool := existsb (fun rl => String.eqb (r_selector rl) sel) (c_rules cfg).
Definition selected (cfg : config) (r : crow) : bool :=
  has_listed (cr_api r) cfg && has_rule (fqn r) cfg &&
  (if String.eqb (cr_mod r) IAM then negb (has_iam_overrides cfg) else true).

(* ---- comparison helpers for the harness ---- *)
Definition hopt_eqb (a b : http_opt) : bool :=
  String.eqb (h_method a) (h_method b) && String.eqb (h_uri a) (h_uri b) && option_eqb String.eqb (h_body a) (h_body b).
Definition mkH (m u : string) (b : option string) : http_opt := {| h_method := m; h_uri := u; h_body := b |}.
Definition hopts_eqb (a b : list (string * list http_opt)) : bool :=
  list_eqb (pair_eqb String.eqb (list_eqb hopt_eqb)) a b.
Definition cmethod_eqb (a b : cmethod) : bool :=
  String.eqb (m_name a) (m_name b) && option_eqb String.eqb (m_lookup a) (m_lookup b) && String.eqb (m_route a) (m_route b)
  && Bool.eqb (m_legacy a) (m_legacy b).
Definition mkM (n : string) (l : option string) (r : string) (lg : bool) : cmethod :=
  {| m_name := n; m_lookup := l; m_route := r; m_legacy := lg |}.
(* a stub as the harness reads it from an emitted transport: property name, path, request, response *)
Definition stub_obs (s : stub) : string * (string * (string * option string)) :=
  (snake (s_name s), (s_path s, (s_req s, s_resp s))).
Definition obs_eqb (a b : string * (string * (string * option string))) : bool :=
  pair_eqb String.eqb (pair_eqb String.eqb (pair_eqb String.eqb (option_eqb String.eqb))) a b.
(* insertion sort on the property name, so the harness can hand over file order *)
Fixpoint ins_obs (x : string * (string * (string * option string))) (l : list (string * (string * (string * option string)))) :=
  match l with
  | [] => [x]
  | y :: t => if String.leb (fst x) (fst y) then x :: l else y :: ins_obs x t
  end.
Definition sort_obs (l : list (string * (string * (string * option string)))) := fold_right ins_obs [] l.
Definition sig_eqb (a b : list (string * option (string * string))) : bool :=
  list_eqb (pair_eqb String.eqb (option_eqb (pair_eqb String.eqb String.eqb))) a b.
