(* Model/Files.v — C11: the emitted file set.
   Mirrors, as the code is:
     gapic/utils/options.py      Options.build                      -> options_build
     gapic/schema/naming.py      Naming.build, module_name, ...     -> naming_build
     gapic/cli/generate.py       generate (target package)          -> generate
     gapic/schema/api.py         API.build (file_to_generate by in_package, file-name sanitising),
                                 API.protos / services / subpackages, Proto.module_name, Address.subpackage
     gapic/generator/generator.py  get_response, _render_template, _is_desired_transport, _get_file (name only),
                                 _get_filename                      -> response, render, sgate, get_filename
   Definitions only.  Template lists, OPT_FLAGS, the option prefix, kwlist are regenerated from /repo (Gen/C11Gen.v). *)
From GV Require Import Base.Str Model.Case Gen.C11Gen.

(* ------------------------------------------------------------------ results *)
Inductive gerr := ENoCommonRoot | ENoRegexMatch | EUnversionedMulti | EBadOption | EServiceAndProto | EFuel.
Inductive res (A : Type) := Ok (a : A) | Err (e : gerr).
Arguments Ok {A} a.
Arguments Err {A} e.
Definition bind {A B} (r : res A) (f : A -> res B) : res B :=
  match r with Ok a => f a | Err e => Err e end.

(* ------------------------------------------------------------------ string primitives *)
(* str.replace(p, v) for a non-empty constant p: leftmost, non-overlapping *)
Fixpoint replace_fuel (n : nat) (p v s : string) : string :=
  match n with
  | O => s
  | S n' =>
      match s with
      | EmptyString => EmptyString
      | String c s' =>
          match strip_prefix p s with
          | Some r => v ++ replace_fuel n' p v r
          | None => String c (replace_fuel n' p v s')
          end
      end
  end.
Definition replace (p v s : string) : string :=
  if is_empty p then s else replace_fuel (S (String.length s)) p v s.

Definition is_slash (c : ascii) : bool := Ascii.eqb c "/"%char.
Definition lstrip_slash (s : string) : string := sdrop_while is_slash s.
(* re.sub(r"/+", "/", s) *)
Fixpoint squeeze_aux (prev : bool) (s : string) : string :=
  match s with
  | EmptyString => EmptyString
  | String c s' =>
      if is_slash c then (if prev then squeeze_aux true s' else String c (squeeze_aux true s'))
      else String c (squeeze_aux false s')
  end.
Definition squeeze (s : string) : string := squeeze_aux false s.

(* substring test: Python's  p in s *)
Fixpoint occurs (p s : string) : bool :=
  starts_with p s || match s with EmptyString => false | String _ s' => occurs p s' end.

Definition drop_last (n : nat) (s : string) : string := stake (String.length s - n) s.
Fixpoint last_seg_acc (acc s : string) : string :=
  match s with
  | EmptyString => srev acc
  | String c s' => if Ascii.eqb c "/"%char then last_seg_acc EmptyString s' else last_seg_acc (String c acc) s'
  end.
(* s.split("/")[-1] *)
Definition last_segment (s : string) : string := last_seg_acc EmptyString s.
(* os.path.commonprefix: the longest common prefix of all strings, "" for no strings *)
Fixpoint lcp (a b : string) : string :=
  match a, b with
  | String x a', String y b' => if Ascii.eqb x y then String x (lcp a' b') else EmptyString
  | _, _ => EmptyString
  end.
Definition commonprefix (l : list string) : string :=
  match l with [] => "" | x :: l' => fold_left lcp l' x end.
Fixpoint lcp_list (a b : list string) : list string :=
  match a, b with
  | x :: a', y :: b' => if String.eqb x y then x :: lcp_list a' b' else []
  | _, _ => []
  end.
(* ".".join(os.path.commonprefix([p.split(".") for p in packages])): the common prefix by package SEGMENTS *)
Definition common_segments (l : list string) : string :=
  match map (split_on "."%char) l with
  | [] => ""
  | x :: r => sjoin "." (fold_left lcp_list r x)
  end.
Definition is_dot (c : ascii) : bool := Ascii.eqb c "."%char.
Definition rstrip_dots (s : string) : string := rstrip_by is_dot s.
Fixpoint dedup_acc (seen : list string) (l : list string) : list string :=
  match l with
  | [] => []
  | x :: l' => if mem_str x seen then dedup_acc seen l' else x :: dedup_acc (x :: seen) l'
  end.
(* keys of an OrderedDict after successive update(): first position of each key *)
Definition dedup (l : list string) : list string := dedup_acc [] l.
Fixpoint is_prefix_list (a b : list string) : bool :=
  match a, b with
  | [], _ => true
  | x :: a', y :: b' => String.eqb x y && is_prefix_list a' b'
  | _, [] => false
  end.

(* ------------------------------------------------------------------ Options.build *)
Record options := {
  o_name : string; o_namespace : list string; o_warehouse : string;
  o_retry : option string;          (* path that is opened: the last retry-config *)
  o_service_yaml : option string;   (* path that is opened: the last service-yaml *)
  o_samples : list string; o_autogen : bool; o_templates : list string (* before tweak_path *);
  o_lazy : bool; o_old_naming : bool; o_add_iam : bool; o_metadata : bool;
  o_transport : list string; o_numeric_enums : bool; o_pp_deps : list string;
  o_warn : list string              (* keys warned about as unrecognised python-gapic- options, in order *)
}.

Definition strip_ws (s : string) : string := strip_by is_pyspace s.
(* the raw multimap built by the loop: (key, value) in insertion order *)
Definition kv := (string * string)%type.
(* str.split("=", 1): at most one split *)
Definition split_first (c : ascii) (s : string) : list string :=
  match split_on c s with
  | x :: (_ :: _) as rest => [x; sjoin (String c "") rest]
  | l => l
  end.
(* the code as it is splits at every "=" (opt_split_first = false, regenerated from /repo); with the maxsplit argument it
   splits once.  Both are modelled so that the tie survives the repair of DESIGN section 9 no. 19. *)
Definition split_eq (first : bool) (s : string) : list string :=
  if first then split_first "="%char s else split_on "="%char s.
(* one option of the comma separated string: Err when "k, v = opt.split('=')" cannot unpack *)
Definition parse_opt_gen (first : bool) (raw : string) : res (list kv) :=
  let opt := strip_ws raw in
  let parts := split_eq first opt in
  match parts with
  | [k] => Ok ((if mem_str k opt_flags then [(k, "true")] else []) ++
               (match strip_prefix gapic_prefix k with Some k' => [(k', "true")] | None => [] end))%list
  | [k; v] => Ok ((if mem_str k opt_flags then [(k, v)] else []) ++
                  (match strip_prefix gapic_prefix k with Some k' => [(k', v)] | None => [] end))%list
  | _ => Err EBadOption
  end.
Fixpoint parse_opts_gen (first : bool) (l : list string) : res (list kv) :=
  match l with
  | [] => Ok []
  | x :: l' => bind (parse_opt_gen first x) (fun a => bind (parse_opts_gen first l') (fun b => Ok (a ++ b)%list))
  end.
Definition parse_opt : string -> res (list kv) := parse_opt_gen opt_split_first.
Definition parse_opts : list string -> res (list kv) := parse_opts_gen opt_split_first.
Definition values (k : string) (m : list kv) : list string :=
  map snd (filter (fun e => String.eqb (fst e) k) m).
Definition truthy (k : string) (m : list kv) : bool := match values k m with [] => false | _ => true end.
Fixpoint last_opt (l : list string) : option string :=
  match l with [] => None | [x] => Some x | _ :: l' => last_opt l' end.
(* opts.pop(key, [d]).pop()  and  opts.pop(key, [d])[0] : the defaults are the code's *)
Definition last_or (d : string) (l : list string) : string := match last_opt l with Some x => x | None => d end.
Definition first_or (d : string) (l : list string) : string := match l with x :: _ => x | [] => d end.
Definition consumed_keys : list string :=
  ["templates"; "retry-config"; "service-yaml"; "samples"; "autogen-snippets"; "old-naming"; "proto-plus-deps"; "name";
   "namespace"; "warehouse-package-name"; "lazy-import"; "add-iam-methods"; "metadata"; "transport"; "rest-numeric-enums"].
Definition options_of (m : list kv) : options :=
  let old := truthy "old-naming" m in
  {| o_name := last_or "" (values "name" m);
     o_namespace := values "namespace" m;
     o_warehouse := last_or "" (values "warehouse-package-name" m);
     o_retry := last_opt (values "retry-config" m);
     o_service_yaml := last_opt (values "service-yaml" m);
     o_samples := values "samples" m;
     o_autogen := if old then false else mem_str (first_or "True" (values "autogen-snippets" m)) ["True"; "true"; "T"; "t"; "TRUE"];
     o_templates := match values "templates" m with [] => ["DEFAULT"] | l => l end;
     o_lazy := truthy "lazy-import" m; o_old_naming := old; o_add_iam := truthy "add-iam-methods" m;
     o_metadata := truthy "metadata" m;
     o_transport := split_on "+"%char (first_or "grpc" (values "transport" m));
     o_numeric_enums := truthy "rest-numeric-enums" m;
     o_pp_deps := match values "proto-plus-deps" m with [] => [] | x :: _ => split_on "+"%char x end;
     o_warn := dedup (filter (fun k => negb (mem_str k consumed_keys)) (map fst m)) |}.
Definition options_build_gen (first : bool) (opt_string : string) : res options :=
  bind (parse_opts_gen first (split_on ","%char opt_string)) (fun m => Ok (options_of m)).
Definition options_build : string -> res options := options_build_gen opt_split_first.

(* ------------------------------------------------------------------ Naming.build *)
Definition ns_char (c : ascii) : bool := is_lower c || is_digit c || Ascii.eqb c "_"%char || is_dot c.
Definition nm_char (c : ascii) : bool := is_lower c || is_digit c || Ascii.eqb c "_"%char.

(* the version regex (see Gen.C11Gen.naming_build_consts) at the head of s: v, digits, optional p digits, optional
   alpha or beta with optional digits; the text the greedy match captures *)
Definition match_version (s : string) : option string :=
  match s with
  | String c r =>
      if Ascii.eqb c "v"%char then
        let d := stake_while is_digit r in
        if is_empty d then None else
        let r1 := sdrop_while is_digit r in
        let '(p, r2) :=
          match r1 with
          | String c1 r1' =>
              if Ascii.eqb c1 "p"%char && negb (is_empty (stake_while is_digit r1'))
              then ("p" ++ stake_while is_digit r1', sdrop_while is_digit r1') else ("", r1)
          | EmptyString => ("", r1)
          end in
        let ab :=
          match strip_prefix "alpha" r2 with
          | Some r3 => "alpha" ++ stake_while is_digit r3
          | None => match strip_prefix "beta" r2 with
                    | Some r3 => "beta" ++ stake_while is_digit r3
                    | None => ""
                    end
          end in
        Some ("v" ++ d ++ p ++ ab)
      else None
  | EmptyString => None
  end.
(* re.search(version, s): a dot followed by a version, anywhere *)
Fixpoint has_version (s : string) : bool :=
  match s with
  | EmptyString => false
  | String c s' => (is_dot c && match match_version s' with Some _ => true | None => false end) || has_version s'
  end.

(* one candidate of the backtracking search: the name starts at offset j of s; with a version the name must be
   followed by a dot and a version *)
Definition try_name (s : string) (j : nat) (need_version : bool) : option (string * string) :=
  let name := stake_while nm_char (sdrop j s) in
  if is_empty name then None else
  if need_version then
    match sdrop (j + String.length name) s with
    | String c r => if is_dot c then match match_version r with Some v => Some (name, v) | None => None end else None
    | EmptyString => None
    end
  else Some (name, "").
(* positions i >= 1 of dots inside the maximal [a-z0-9_.] prefix, largest first *)
Fixpoint dot_positions (i : nat) (s : string) : list nat :=
  match s with
  | EmptyString => []
  | String c s' => if ns_char c then (if is_dot c && negb (Nat.eqb i 0) then (dot_positions (S i) s' ++ [i])%list else dot_positions (S i) s')
                   else []
  end.
Fixpoint first_some {A B} (f : A -> option B) (l : list A) : option B :=
  match l with [] => None | x :: l' => match f x with Some b => Some b | None => first_some f l' end end.
(* ^((?P<namespace>[a-z0-9_.]+)\.)?(?P<name>[a-z0-9_]+)  optionally followed by  \.(?P<version>...) *)
Definition match_package (s : string) : option (string * string * string) :=
  let nv := has_version s in
  match first_some (fun i => match try_name s (S i) nv with Some (n, v) => Some (stake i s, n, v) | None => None end)
                   (dot_positions 0 s) with
  | Some r => Some r
  | None => match try_name s 0 nv with Some (n, v) => Some ("", n, v) | None => None end
  end.

Record naming := { n_name : string; n_namespace : list string; n_version : string; n_proto_package : string; n_old : bool }.
Definition nonempty (s : string) : bool := negb (is_empty s).
Definition naming_build (packages : list string) (o : options) : res naming :=
  let root := common_segments packages in
  if is_empty root then Err ENoCommonRoot else
  match match_package root with
  | None => Err ENoRegexMatch
  | Some (ns, name, version) =>
      if is_empty version && Nat.ltb 1 (List.length (dedup packages)) then Err EUnversionedMulti else
      let name1 := if is_empty (o_name o) then capitalize name
                   else sjoin " " (map capitalize (split_on " "%char (smap (fun c => if Ascii.eqb c "_"%char then " "%char else c) (o_name o)))) in
      let ns1 := match o_namespace o with
                 | [] => map capitalize (filter nonempty (split_on "."%char ns))
                 | l => map capitalize (split_on "."%char (sjoin "." l))
                 end in
      Ok {| n_name := name1; n_namespace := ns1; n_version := version; n_proto_package := root; n_old := o_old_naming o |}
  end.
Definition module_name (n : naming) : string := valid_module (n_name n).
Definition versioned_module_name (n : naming) : string := versioned_module (n_old n) (n_name n) (n_version n).
Definition ns_path (n : naming) : string := sjoin "/" (map lower (n_namespace n)).

(* ------------------------------------------------------------------ _get_filename *)
Record fctx := { c_ns : string; c_nv : string; c_ver : string; c_name : string; c_sub : string;
                 c_service : option string; c_proto : option string }.
Definition get_filename (tpl : string) (c : fctx) : string :=
  let f0 := drop_last 3 tpl in
  let f1 := lstrip_slash (replace "%namespace" (c_ns c) f0) in
  let f2 := replace "%name_%version" (c_nv c) f1 in
  let f3 := replace "%version" (c_ver c) f2 in
  let f4 := replace "%name" (c_name c) f3 in
  let f5 := replace "%sub" (c_sub c) f4 in
  let f6 := match c_service c with Some s => replace "%service" s f5 | None => f5 end in
  let f7 := match c_proto c with Some p => replace "%proto" p f6 | None => f6 end in
  squeeze f7.

(* ------------------------------------------------------------------ the API as far as file names need it *)
Record pfile := { pf_name : string; pf_package : string; pf_services : list string }.
(* a target proto: module name, sub-package below the API's proto package, module names of its services *)
Record unit_ := { u_module : string; u_sub : list string; u_services : list string }.
Record rapi := { ra_ns : string; ra_name : string; ra_version : string; ra_nv : string;
                 ra_protos : list unit_ }.     (* target protos, order of all_protos *)
Record ropts := { ro_metadata : bool; ro_transport : list string; ro_unversioned_disabled : bool; ro_rest_async : bool }.

(* API.build: disambiguate_keyword_sanitize_fname, applied to every file in order; visited = names so far *)
(* keyword.kwlist plus the names API.build adds (regenerated: metadata, request, retry, timeout, transport) *)
Definition invalid_module_names : list string := (kwlist ++ invalid_module_extra)%list.
Definition split_ext (fname : string) : string * string :=   (* os.path.splitext on a base name with an inner dot *)
  match rev (split_on "."%char fname) with
  | ext :: (_ :: _) as stem_rev => (sjoin "." (rev stem_rev), "." ++ ext)
  | _ => (fname, "")
  end.
Definition split_path (full : string) : string * string :=   (* os.path.split *)
  match rev (split_on "/"%char full) with
  | base :: (_ :: _) as dir_rev => (sjoin "/" (rev dir_rev), base)
  | _ => ("", full)
  end.
Definition join_path (dir base : string) : string := if is_empty dir then base else dir ++ "/" ++ base.
Fixpoint bump (fuel : nat) (dir name ext : string) (visited : list string) : string :=
  match fuel with
  | O => join_path dir (name ++ ext)
  | S f => let full := join_path dir (name ++ "_" ++ ext) in
           if mem_str full visited then bump f dir (name ++ "_") ext visited else full
  end.
Definition is_dash (c : ascii) : bool := Ascii.eqb c "-"%char.
(* dots and dashes of the base name become underscores; a name that is reserved as it is or in snake case (Import -> import),
   or whose path is already taken, gets trailing underscores until the path is free *)
Definition sanitize_fname (full : string) (visited : list string) : string :=
  let '(dir, fname) := split_path full in
  let '(name0, ext) := split_ext fname in
  let name := smap (fun c => if is_dot c || is_dash c then "_"%char else c) name0 in
  let full1 := if contains "."%char name0 || contains "-"%char name0 then join_path dir (name ++ ext) else full in
  if mem_str name invalid_module_names || mem_str (snake name) invalid_module_names || mem_str full1 visited
  then bump (S (List.length visited)) dir name ext visited else full1.
Fixpoint sanitize_all (visited : list string) (l : list pfile) : list pfile :=
  match l with
  | [] => []
  | f :: l' => let n := sanitize_fname (pf_name f) visited in
               {| pf_name := n; pf_package := pf_package f; pf_services := pf_services f |} :: sanitize_all (n :: visited) l'
  end.
(* Proto.module_name *)
Definition proto_module (name : string) : string := snake (drop_last 6 (last_segment name)).
(* Address.subpackage *)
Definition subpackage_of (proto_package pkg : string) : list string :=
  skipn (List.length (split_on "."%char proto_package)) (split_on "."%char pkg).

(* API.protos / API.services for a sub-package view (ChainMap: maps are iterated last to first) *)
Definition protos_of (a : rapi) (view : list string) : list unit_ :=
  filter (fun u => is_prefix_list view (u_sub u)) (ra_protos a).
Definition services_of (a : rapi) (view : list string) : list (string * list string) :=
  flat_map (fun u => map (fun s => (s, u_sub u)) (u_services u)) (rev (protos_of a view)).
(* API.subpackages: sorted set of subpackage[level] of the protos strictly below the view *)
Definition sub_names (a : rapi) (view : list string) : list string :=
  let level := List.length view in
  flat_map (fun u => if Nat.ltb level (List.length (u_sub u)) && list_eqb String.eqb (firstn level (u_sub u)) view
                     then match skipn level (u_sub u) with x :: _ => [x] | [] => [] end else []) (protos_of a view).
Section StrSort.
  Fixpoint sinsert (x : string) (l : list string) : list string :=
    match l with [] => [x] | y :: l' => if String.leb x y then x :: l else y :: sinsert x l' end.
  Fixpoint ssort (l : list string) : list string := match l with [] => [] | x :: l' => sinsert x (ssort l') end.
End StrSort.
Definition subviews (a : rapi) (view : list string) : list (list string) :=
  map (fun n => (view ++ [n])%list) (ssort (dedup (sub_names a view))).

(* _is_desired_transport and the per-service conditions of _render_template *)
Definition desired_transport (o : ropts) (tpl : string) : bool :=
  existsb (fun t => occurs t tpl) (["__init__"; "base"; "README"] ++ ro_transport o)%list.
Definition sgate (o : ropts) (tpl : string) : bool :=
  negb ((occurs "transport" tpl && negb (desired_transport o tpl))
        || (occurs "async_client" tpl && negb (mem_str "grpc" (ro_transport o)) && negb (ro_rest_async o))
        || (occurs "rest_asyncio" tpl && negb (ro_rest_async o))
        || (occurs "rest_base" tpl && negb (mem_str "rest" (ro_transport o)))).
Definition ggate (o : ropts) (tpl : string) : bool :=
  negb ((negb (ro_metadata o) && ends_with "gapic_metadata.json.j2" tpl)
        || (starts_with "%namespace/%name/" tpl && ro_unversioned_disabled o)).

Definition ctx_of (a : rapi) (view : list string) (svc proto : option string) : fctx :=
  {| c_ns := ra_ns a; c_nv := ra_nv a; c_ver := ra_version a; c_name := ra_name a; c_sub := sjoin "/" view;
     c_service := svc; c_proto := proto |}.

(* an instance: which template is rendered for which view / service / proto *)
Record inst := { i_tpl : string; i_view : list string; i_service : option string; i_proto : option string }.
Definition inst_name (a : rapi) (i : inst) : string :=
  get_filename (i_tpl i) (ctx_of a (i_view i) (i_service i) (i_proto i)).

(* concatenation of results, the first error wins *)
Fixpoint collect {A} (l : list (res (list A))) : res (list A) :=
  match l with
  | [] => Ok []
  | r :: l' => bind r (fun x => bind (collect l') (fun y => Ok (x ++ y)%list))
  end.

(* the files one template yields for one view: per proto, per service (gated), or one file.
   skip = the template was already rendered for sub-package views, so only units of exactly this view are taken *)
Definition kind_insts (a : rapi) (o : ropts) (tpl : string) (view : list string) (skip : bool) : list inst :=
  if occurs "%proto" tpl then
    map (fun u => {| i_tpl := tpl; i_view := view; i_service := None; i_proto := Some (u_module u) |})
        (filter (fun u => negb (skip && negb (list_eqb String.eqb (u_sub u) view))) (protos_of a view))
  else if occurs "%service" tpl then
    map (fun sv => {| i_tpl := tpl; i_view := view; i_service := Some (fst sv); i_proto := None |})
        (filter (fun sv => negb (skip && negb (list_eqb String.eqb (snd sv) view)) && sgate o tpl) (services_of a view))
  else [{| i_tpl := tpl; i_view := view; i_service := None; i_proto := None |}].

(* _render_template; the fuel bounds the depth of sub-package views and running out is an error *)
Fixpoint render (fuel : nat) (a : rapi) (o : ropts) (tpl : string) (view : list string) : res (list inst) :=
  match fuel with
  | O => Err EFuel
  | S f =>
      if negb (ggate o tpl) then Ok [] else
      let subs := if occurs "%sub" tpl then subviews a view else [] in
      let skip := match subs with [] => false | _ => true end in
      bind (collect (map (render f a o tpl) subs)) (fun below => Ok (below ++ kind_insts a o tpl view skip)%list)
  end.

(* get_response: client templates only (sample templates are handled by samplegen, not modelled), private ones skipped *)
Definition is_sample_template (tpl : string) : bool := String.eqb (last_segment tpl) sample_template_name.
Definition is_private (tpl : string) : bool :=
  starts_with "_" (last_segment tpl) && negb (String.eqb (last_segment tpl) "__init__.py.j2").
Definition client_templates (templates : list string) : list string :=
  filter (fun t => negb (is_sample_template t) && negb (is_private t)) templates.
Definition max_sub_len (a : rapi) : nat := fold_right (fun u m => Nat.max (List.length (u_sub u)) m) 0 (ra_protos a).
Definition instances (templates : list string) (a : rapi) (o : ropts) : res (list inst) :=
  if existsb (fun t => occurs "%service" t && occurs "%proto" t) (client_templates templates) then Err EServiceAndProto else
  collect (map (fun t => render (2 + max_sub_len a) a o t []) (client_templates templates)).
(* the names before the emptiness filter of _get_file, de-duplicated as the dict does *)
Definition candidates (templates : list string) (a : rapi) (o : ropts) : res (list string) :=
  bind (instances templates a o) (fun l => Ok (dedup (map (inst_name a) l))).

(* ------------------------------------------------------------------ generate.py + API.build, names only *)
(* in_package of API.build: the package itself or one of its sub-packages (everything when no package is given) *)
Definition in_pkg (package p : string) : bool :=
  is_empty package || String.eqb p package || starts_with (package ++ ".") p.
Definition build_rapi (files : list pfile) (to_generate : list string) (o : options) : res rapi :=
  let package := common_segments (map pf_package (filter (fun f => mem_str (pf_name f) to_generate) files)) in
  let targets0 := filter (fun f => in_pkg package (pf_package f)) files in
  bind (naming_build (map pf_package targets0) o) (fun n =>
    let files' := sanitize_all [] files in
    let targets := filter (fun f => in_pkg package (pf_package f)) files' in
    let sub f := subpackage_of (n_proto_package n) (pf_package f) in
    Ok {| ra_ns := ns_path n; ra_name := module_name n; ra_version := n_version n; ra_nv := versioned_module_name n;
          ra_protos := map (fun f => {| u_module := proto_module (pf_name f); u_sub := sub f;
                                        u_services := map snake (pf_services f) |}) targets |}).

Definition feature_proto3_optional : nat := 1.
(* the whole pipeline: candidate names of the response (samples excluded) and supported_features *)
Definition generate (templates : list string) (files : list pfile) (to_generate : list string) (param : string)
           (unversioned_disabled rest_async : bool) : res (list string * nat) :=
  bind (options_build param) (fun o =>
  bind (build_rapi files to_generate o) (fun a =>
  bind (candidates templates a {| ro_metadata := o_metadata o; ro_transport := o_transport o;
                                  ro_unversioned_disabled := unversioned_disabled; ro_rest_async := rest_async |})
       (fun names => Ok (names, feature_proto3_optional)))).

(* what a response may look like given the candidates: the emptiness filter can only drop names that are neither
   __init__.py nor py.typed, order and de-duplication are the dict's *)
Definition keeps_name (n : string) : bool := ends_with "py.typed" n || ends_with "__init__.py" n.
Definition response_ok (cands actual : list string) : bool :=
  list_eqb String.eqb actual (filter (fun n => mem_str n actual) cands)
  && forallb (fun n => mem_str n actual || negb (keeps_name n)) cands.

(* ------------------------------------------------------------------ the properties as executable predicates on names *)
Inductive nstate := NStart | NDot1 | NDot2 | NOther.
Definition nstep (st : nstate) (c : ascii) : option nstate :=
  if is_slash c then match st with NOther => Some NStart | _ => None end
  else if is_dot c then match st with NStart => Some NDot1 | NDot1 => Some NDot2 | _ => Some NOther end
  else Some NOther.
Fixpoint norm_aux (st : nstate) (s : string) : bool :=
  match s with
  | EmptyString => match st with NOther => true | _ => false end
  | String c s' => match nstep st c with Some st' => norm_aux st' s' | None => false end
  end.
(* relative and normalised: no leading slash, no empty, "." or ".." segment (hence no trailing slash, not empty) *)
Definition normalised (s : string) : bool := norm_aux NStart s.

(* helpers for the harness *)
Definition mkPF (n p : string) (svcs : list string) : pfile := {| pf_name := n; pf_package := p; pf_services := svcs |}.
Definition mkU (m : string) (sub svcs : list string) : unit_ := {| u_module := m; u_sub := sub; u_services := svcs |}.
Definition res_eqb {A} (eqb : A -> A -> bool) (r : res A) (x : option A) (err : string) : bool :=
  match r, x with
  | Ok a, Some b => eqb a b
  | Err e, None => String.eqb err (match e with ENoCommonRoot => "NoCommonRoot" | ENoRegexMatch => "NoRegexMatch"
                                   | EUnversionedMulti => "UnversionedMulti" | EBadOption => "BadOption"
                                   | EServiceAndProto => "ServiceAndProto" | EFuel => "Fuel" end)
  | _, _ => false
  end.

Definition sl_eqb := list_eqb String.eqb.
Definition so_eqb := option_eqb String.eqb.
Definition options_eqb (o : options) (name : string) (ns : list string) (wh : string) (retry yaml : option string)
           (autogen : bool) (templates : list string) (lazy old iam meta : bool) (transport : list string)
           (numeric : bool) (pp warn : list string) : bool :=
  String.eqb (o_name o) name && sl_eqb (o_namespace o) ns && String.eqb (o_warehouse o) wh && so_eqb (o_retry o) retry
  && so_eqb (o_service_yaml o) yaml && Bool.eqb (o_autogen o) autogen && sl_eqb (o_templates o) templates
  && Bool.eqb (o_lazy o) lazy && Bool.eqb (o_old_naming o) old && Bool.eqb (o_add_iam o) iam && Bool.eqb (o_metadata o) meta
  && sl_eqb (o_transport o) transport && Bool.eqb (o_numeric_enums o) numeric && sl_eqb (o_pp_deps o) pp && sl_eqb (o_warn o) warn.
Definition naming_eqb (n : naming) (name : string) (ns : list string) (version pkg modname versioned nspath : string) : bool :=
  String.eqb (n_name n) name && sl_eqb (n_namespace n) ns && String.eqb (n_version n) version
  && String.eqb (n_proto_package n) pkg && String.eqb (module_name n) modname
  && String.eqb (versioned_module_name n) versioned && String.eqb (ns_path n) nspath.
Definition unit_eqb (u v : unit_) : bool :=
  String.eqb (u_module u) (u_module v) && sl_eqb (u_sub u) (u_sub v) && sl_eqb (u_services u) (u_services v).
Definition rapi_eqb (a : rapi) (ns name version nv : string) (protos : list unit_) : bool :=
  String.eqb (ra_ns a) ns && String.eqb (ra_name a) name && String.eqb (ra_version a) version && String.eqb (ra_nv a) nv
  && list_eqb unit_eqb (ra_protos a) protos.
Definition on_ok {A} (r : res A) (f : A -> bool) : bool := match r with Ok a => f a | Err _ => false end.
Definition is_err {A} (r : res A) (e : gerr) : bool :=
  match r with Ok _ => false | Err e' => match e, e' with
    | ENoCommonRoot, ENoCommonRoot | ENoRegexMatch, ENoRegexMatch | EUnversionedMulti, EUnversionedMulti
    | EBadOption, EBadOption | EServiceAndProto, EServiceAndProto | EFuel, EFuel => true | _, _ => false end end.
