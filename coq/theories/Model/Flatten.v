(* Model/Flatten.v — C05 (and the request-coercion block of C03).  Definitions only.

   Mirrors, as the code is:
     gapic/schema/wrappers.py   Field.name, MessageType.get_field, Method._fields_mapping / flattened_fields
     _client_macros.j2          client_method: signature, flattened_params guard, request coercion, per-field application
     async_client.py.j2         the same block of the asyncio client
   and states, as an executable contract ("Values"), what proto-plus / protobuf do when the emitted statements run:
   attribute assignment, extend, update, keyword construction, on a message valuation with protobuf presence semantics.

   RESERVED_NAMES and KWLIST are regenerated from /repo and from the interpreter on every run (T0: Gen/FlattenGen.v). *)
From GV Require Import Base.Str Gen.FlattenGen.

(* ------------------------------------------------------------------------------------------------ *)
(* 1. Values: message valuations                                                                    *)
(* ------------------------------------------------------------------------------------------------ *)

(* What can be stored under one field path.  Scalars and enums are carried as a canonical text, the empty text
   standing for the type's default value; a whole sub-message is carried as its canonical serialisation (opaque);
   a repeated field is a list of such texts; a map field a list of (key, value) texts with distinct keys. *)
Inductive leaf :=
| LS (s : string)
| LM (s : string)
| LL (l : list string)
| LD (d : list (string * string)).

Definition is_nil {A} (l : list A) : bool := match l with [] => true | _ => false end.

Definition leaf_eqb (a b : leaf) : bool :=
  match a, b with
  | LS x, LS y => String.eqb x y
  | LM x, LM y => String.eqb x y
  | LL x, LL y => list_eqb String.eqb x y
  | LD x, LD y => list_eqb (pair_eqb String.eqb String.eqb) x y
  | _, _ => false
  end.

(* A request valuation: the fields that are set, keyed by dotted path, and the sub-messages that exist
   only because something below them was touched ("vivified": present on the wire even when empty). *)
Record req := mkReq { entries : list (string * leaf); viv : list string }.
Definition empty_req : req := mkReq [] [].

Definition lookup (k : string) (r : req) : option leaf := assoc k (entries r).
Definition vivified (p : string) (r : req) : bool := mem_str p (viv r).

Definition del (k : string) (l : list (string * leaf)) : list (string * leaf) :=
  filter (fun kv => negb (String.eqb k (fst kv))) l.

(* proper prefixes of a dotted key: a.b.c gives a and a.b *)
Fixpoint prefixes_from (acc : option string) (segs : list string) : list string :=
  match segs with
  | [] => []
  | [_] => []
  | s :: rest =>
      let a := match acc with None => s | Some p => p ++ "." ++ s end in
      a :: prefixes_from (Some a) rest
  end.
Definition segments (k : string) : list string := split_on "."%char k.
Definition prefixes (k : string) : list string := prefixes_from None (segments k).
Definition dotted (k : string) : bool := negb (is_nil (prefixes k)).

(* protobuf presence: storing the default of a field without presence, an empty list or an empty map
   leaves the field unset; a sub-message or a field with explicit presence stays set *)
Definition vacuous (presence : bool) (v : leaf) : bool :=
  match v with
  | LS s => negb presence && is_empty s
  | LM _ => false
  | LL l => is_nil l
  | LD d => is_nil d
  end.

Definition store (k : string) (v : option leaf) (r : req) (touch : bool) : req :=
  mkReq (match v with Some x => (k, x) :: del k (entries r) | None => del k (entries r) end)
        (if touch then prefixes k ++ viv r else viv r).

(* request.<k> = v   (proto-plus attribute assignment; protobuf scalar assignment) *)
Definition assign (presence : bool) (k : string) (v : leaf) (r : req) : req :=
  store k (if vacuous presence v then None else Some v) r true.

(* request.<k>.extend(l) : appends; reaching the container through its parents materialises them *)
Definition extend (k : string) (l : list string) (r : req) : req :=
  let old := match lookup k r with Some (LL o) => o | _ => [] end in
  store k (if is_nil (old ++ l) then None else Some (LL (old ++ l))) r true.

(* request.<k>.update(d) : later keys win; an empty update touches nothing (observed with upb) *)
Fixpoint map_put (kk vv : string) (d : list (string * string)) : list (string * string) :=
  match d with
  | [] => [(kk, vv)]
  | (k', v') :: d' => if String.eqb kk k' then (kk, vv) :: d' else (k', v') :: map_put kk vv d'
  end.
Definition map_merge (old d : list (string * string)) : list (string * string) :=
  fold_left (fun acc kv => map_put (fst kv) (snd kv) acc) d old.
Definition update (k : string) (d : list (string * string)) (r : req) : req :=
  let old := match lookup k r with Some (LD o) => o | _ => [] end in
  let m := map_merge old d in
  store k (if is_nil m then None else Some (LD m)) r (negb (is_nil d)).

(* extensional equality of valuations: same value under every path, same vivified sub-messages *)
Definition req_equiv (a b : req) : Prop :=
  (forall k, lookup k a = lookup k b) /\ (forall p, vivified p a = vivified p b).

(* ------------------------------------------------------------------------------------------------ *)
(* 2. Schema subset and Method._fields_mapping                                                      *)
(* ------------------------------------------------------------------------------------------------ *)

Inductive ftype := TScalar | TEnum | TMessage (fqn : string).

Record field := mkField {
  f_pb : string;            (* field_pb.name *)
  f_type : ftype;
  f_repeated : bool;        (* label == LABEL_REPEATED *)
  f_map : bool;             (* repeated and its message is a map entry *)
  f_struct_value : bool;    (* str(field.ident.ident) == "struct_pb2.Value" *)
  f_presence : bool         (* proto3 optional, member of a oneof, or message-typed: used by the Values contract only *)
}.

Record message := mkMsg {
  m_proto_plus : bool;      (* meta.address.is_proto_plus_type of the message (and hence of its fields) *)
  m_fields : list field
}.
Definition schema := list (string * message).

Definition reserved (n : string) : bool := mem_str n RESERVED_NAMES.

(* Field.name *)
Definition wrapper_name (proto_plus : bool) (f : field) : string :=
  if reserved (f_pb f) && proto_plus then f_pb f ++ "_" else f_pb f.

(* MessageType.fields is an ordered dict keyed by Field.name: a later field with the same key replaces the value *)
Fixpoint dict_get (m : message) (fs : list field) (key : string) (found : option field) : option field :=
  match fs with
  | [] => found
  | f :: fs' => dict_get m fs' key (if String.eqb (wrapper_name (m_proto_plus m) f) key then Some f else found)
  end.
Definition msg_field (m : message) (key : string) : option field := dict_get m (m_fields m) key None.

(* what the templates read off a flattened field *)
Record rfield := mkR {
  r_name : string;          (* Field.name: the keyword parameter *)
  r_pb : string;
  r_repeated : bool;
  r_map : bool;
  r_primitive : bool;       (* isinstance(field.type, PrimitiveType) *)
  r_message : bool;         (* field.message is not None *)
  r_struct_value : bool;
  r_presence : bool
}.
(* Field.map is "repeated and message and message.map"; the identifier of a map field is its entry type,
   never struct_pb2.Value *)
Definition is_msg (f : field) : bool := match f_type f with TMessage _ => true | _ => false end.
Definition rfield_of (m : message) (f : field) : rfield :=
  let mp := f_repeated f && is_msg f && f_map f in
  mkR (wrapper_name (m_proto_plus m) f) (f_pb f) (f_repeated f) mp
      (match f_type f with TScalar => true | _ => false end) (is_msg f)
      (f_struct_value f && is_msg f && negb mp) (f_presence f).
Definition rfield_wf (r : rfield) : bool :=
  implb (r_map r) (r_repeated r && r_message r) && implb (r_struct_value r) (r_message r && negb (r_map r)) &&
  implb (r_primitive r) (negb (r_message r)).

(* MessageType.get_field on a path: None stands for the KeyError the generator raises *)
Fixpoint get_field (sch : schema) (m : message) (path : list string) : option rfield :=
  match path with
  | [] => None
  | first :: rest =>
      match msg_field m (if reserved first && m_proto_plus m then first ++ "_" else first) with
      | None => None
      | Some cursor =>
          match rest with
          | [] => Some (rfield_of m cursor)
          | _ :: _ =>
              if f_repeated cursor then None else
              match f_type cursor with
              | TMessage fqn => match assoc fqn sch with
                                | Some m' => get_field sch m' rest
                                | None => None
                                end
              | _ => None
              end
          end
      end
  end.

(* str.strip() *)
Definition pystrip (s : string) : string := strip_by is_pyspace s.

(* the attribute path of the request that leads to the field: every segment is the Field.name of its own field
   (the proto name, with an underscore when it is reserved and the owning message is proto-plus).
   The generator computes it as get_field(path[:1]).name, get_field(path[:2]).name, ...: the same walk, one name per step. *)
Fixpoint attr_path (sch : schema) (m : message) (path : list string) : option (list string) :=
  match path with
  | [] => None
  | first :: rest =>
      match msg_field m (if reserved first && m_proto_plus m then first ++ "_" else first) with
      | None => None
      | Some cursor =>
          let nm := wrapper_name (m_proto_plus m) cursor in
          match rest with
          | [] => Some [nm]
          | _ :: _ =>
              if f_repeated cursor then None else
              match f_type cursor with
              | TMessage fqn => match assoc fqn sch with
                                | Some m' => match attr_path sch m' rest with
                                             | Some ks => Some (nm :: ks)
                                             | None => None
                                             end
                                | None => None
                                end
              | _ => None
              end
          end
      end
  end.

(* the body of filter_fields for one comma-separated piece: None = KeyError, Some None = skipped *)
Definition sig_item (sch : schema) (input : message) (cross : bool) (piece : string)
  : option (option (string * rfield)) :=
  let path := segments (pystrip piece) in
  match get_field sch input path, attr_path sch input path with
  | Some rf, Some ks =>
      let key := sjoin "." ks in
      if cross && negb (r_primitive rf) then Some None else Some (Some (key, rf))
  | _, _ => None
  end.

(* the generator expression feeding OrderedDict: every piece of every signature in textual order;
   the first KeyError aborts *)
Fixpoint seq_items (sch : schema) (input : message) (cross : bool) (pieces : list string)
  : option (list (string * rfield)) :=
  match pieces with
  | [] => Some []
  | p :: ps =>
      if is_empty p then seq_items sch input cross ps else
      match sig_item sch input cross p with
      | None => None
      | Some o =>
          match seq_items sch input cross ps with
          | None => None
          | Some l => Some (match o with Some kv => kv :: l | None => l end)
          end
      end
  end.
Definition all_pieces (sigs : list string) : list string := flat_map (split_on ","%char) sigs.

(* OrderedDict(pairs): first occurrence fixes the position, last occurrence the value *)
Fixpoint od_put {A} (k : string) (v : A) (d : list (string * A)) : list (string * A) :=
  match d with
  | [] => [(k, v)]
  | (k', v') :: d' => if String.eqb k k' then (k, v) :: d' else (k', v') :: od_put k v d'
  end.
Definition odict {A} (l : list (string * A)) : list (string * A) :=
  fold_left (fun acc kv => od_put (fst kv) (snd kv) acc) l [].

Definition fields_mapping (sch : schema) (input : message) (cross : bool) (sigs : list string)
  : option (list (string * rfield)) :=
  match seq_items sch input cross (all_pieces sigs) with
  | None => None
  | Some l => Some (odict l)
  end.

(* ------------------------------------------------------------------------------------------------ *)
(* 3. The emitted flattened-params block as an IR                                                   *)
(* ------------------------------------------------------------------------------------------------ *)

Inductive guard := GNotNone | GTruthy.           (* "if p is not None:"  /  "if p:" *)
Inductive act := Assign | Extend | Update.       (* request.k = p / request.k.extend(p) / request.k.update(p) *)
Inductive vkind := KScalar | KMsg | KList | KMap.

Record app := mkApp {
  ap_param : string;
  ap_key : string;
  ap_guard : guard;
  ap_act : act;
  ap_kind : vkind;         (* kind of value the field accepts *)
  ap_presence : bool
}.

Inductive coerce :=
| CSame                                   (* if not isinstance(request, T): request = T(request) *)
| CCross.                                 (* if isinstance(request, dict): request = T(kwargs of request)  elif not request: request = T() *)

Inductive place := PInFresh | PTop.       (* the applications sit inside the branch that builds a new request / after the coercion *)

Record block := mkBlock {
  b_params : list string;                 (* keyword-only parameters between "*" and retry *)
  b_guard : option (list string);         (* flattened_params = [...] and the raise, when there are flattened fields *)
  b_coerce : coerce;
  b_place : place;
  b_apps : list app;
  b_proto_plus : bool                     (* the request class is a proto-plus message *)
}.

Definition kind_of (f : rfield) : vkind :=
  if r_map f then KMap else if r_repeated f then KList else if r_message f then KMsg else KScalar.

Definition fm := list (string * rfield).

Definition mk_app (g : guard) (a : act) (kf : string * rfield) : app :=
  mkApp (r_name (snd kf)) (fst kf) g a (kind_of (snd kf)) (r_presence (snd kf)).

Definition names (m : fm) : list string := map (fun kf => r_name (snd kf)) m.

(* _client_macros.j2: one loop for the fields that are assigned, then (cross-package requests only) one for the
   repeated fields, updated when they are maps and extended otherwise; everything sits in the branch that creates the request *)
Definition emit_sync (m : fm) (cross proto_plus : bool) : block :=
  let loop1 := filter (fun kf => negb (r_repeated (snd kf)) || negb cross) m in
  let loop2 := filter (fun kf => r_repeated (snd kf) && cross) m in
  mkBlock (names m)
          (if is_nil m then None else Some (names m))
          (if cross then CCross else CSame)
          PInFresh
          (map (fun kf => mk_app GNotNone
                            (if r_struct_value (snd kf) && r_repeated (snd kf) then Extend else Assign) kf) loop1
           ++ map (fun kf => mk_app GTruthy (if r_map (snd kf) then Update else Extend) kf) loop2)
          proto_plus.

(* async_client.py.j2: same-package requests: three loops after the coercion (assigned, maps updated, lists extended);
   cross-package requests: inside the branch that creates the request, the non-repeated fields assigned and then every
   repeated field extended *)
Definition emit_async (m : fm) (cross proto_plus : bool) : block :=
  let l1 := filter (fun kf => negb (r_repeated (snd kf))) m in
  let l2 := filter (fun kf => r_map (snd kf)) m in
  let l3 := filter (fun kf => r_repeated (snd kf) && negb (r_map (snd kf))) m in
  let c2 := filter (fun kf => r_repeated (snd kf)) m in
  mkBlock (names m)
          (if is_nil m then None else Some (names m))
          (if cross then CCross else CSame)
          (if cross then PInFresh else PTop)
          (if cross then map (mk_app GNotNone Assign) l1 ++ map (mk_app GTruthy Extend) c2
           else map (mk_app GNotNone Assign) l1 ++ map (mk_app GTruthy Update) l2 ++ map (mk_app GTruthy Extend) l3)
          proto_plus.

Inductive variant := Sync | Async.
Definition emit (v : variant) := match v with Sync => emit_sync | Async => emit_async end.

(* --- does the emitted method compile? --- *)
Fixpoint nodupb (l : list string) : bool :=
  match l with [] => true | x :: l' => negb (mem_str x l') && nodupb l' end.
Definition is_kw (s : string) : bool := mem_str s KWLIST.
(* def m(self, request=None, *, <params>, retry=..., timeout=..., metadata=...): no duplicate argument, no keyword *)
Definition sig_ok (b : block) : bool :=
  nodupb ("self" :: "request" :: b_params b ++ ["retry"; "timeout"; "metadata"]) &&
  forallb (fun p => negb (is_kw p)) (b_params b).
(* request.<seg>.<seg> : no segment may be a keyword *)
Definition keys_ok (b : block) : bool :=
  forallb (fun a => forallb (fun s => negb (is_kw s)) (segments (ap_key a))) (b_apps b).
Definition block_ok (b : block) : bool := sig_ok b && keys_ok b.

(* ------------------------------------------------------------------------------------------------ *)
(* 4. Running the block                                                                             *)
(* ------------------------------------------------------------------------------------------------ *)

Inductive rarg := RNone | RDict (d : req) | RMsg (m : req).   (* request omitted / a dict / a message instance *)
Definition kwargs := list (string * leaf).                    (* the parameters passed with a value other than None *)

Inductive outcome :=
| ORaiseValue        (* ValueError of the mutual-exclusion check; nothing is sent *)
| ORaiseType         (* a value of the wrong kind reached an application; nothing is sent *)
| OSend (r : req).   (* rpc(request, ...) is invoked with this request *)

Definition passed (kw : kwargs) (p : string) : bool :=
  match assoc p kw with Some _ => true | None => false end.

Definition truthy (v : leaf) : bool :=
  match v with LS s => negb (is_empty s) | LM _ => true | LL l => negb (is_nil l) | LD d => negb (is_nil d) end.

Definition guard_ok (g : guard) (v : leaf) : bool := match g with GNotNone => true | GTruthy => truthy v end.

Definition kind_ok (k : vkind) (v : leaf) : bool :=
  match k, v with
  | KScalar, LS _ => true | KMsg, LM _ => true | KList, LL _ => true | KMap, LD _ => true
  | _, _ => false
  end.

(* does the application run with this value *)
Definition fires (a : app) (kw : kwargs) : option leaf :=
  match assoc (ap_param a) kw with
  | Some v => if guard_ok (ap_guard a) v then Some v else None
  | None => None
  end.

Definition apps_typed (l : list app) (kw : kwargs) : bool :=
  forallb (fun a => match fires a kw with Some v => kind_ok (ap_kind a) v | None => true end) l.

Definition run_app (kw : kwargs) (r : req) (a : app) : req :=
  match fires a kw with
  | None => r
  | Some v =>
      match ap_act a, v with
      | Assign, _ => assign (ap_presence a) (ap_key a) v r
      | Extend, LL l => extend (ap_key a) l r
      | Update, LD d => update (ap_key a) d r
      | _, _ => r          (* excluded by apps_typed, which exec checks first *)
      end
  end.
Definition run_apps (l : list app) (kw : kwargs) (r : req) : req := fold_left (run_app kw) l r.

(* bool(request): a protobuf message is always true; a proto-plus message is true when some field holds a true value
   (a set field with a default value, an empty sub-message or one whose own fields are all false do not count;
   an opaque sub-message value stands for a true one unless it is the empty serialisation) *)
Definition leaf_falsy (v : leaf) : bool :=
  match v with LS s => is_empty s | LM s => is_empty s | LL l => is_nil l | LD d => is_nil d end.
Definition msg_falsy (proto_plus : bool) (m : req) : bool :=
  proto_plus && forallb (fun kv => leaf_falsy (snd kv)) (entries m).

Definition exec (b : block) (ra : rarg) (kw : kwargs) : outcome :=
  let has := match b_guard b with Some ps => existsb (passed kw) ps | None => false end in
  let given := match ra with RNone => false | _ => true end in
  if given && has then ORaiseValue else
  let apply (l : list app) (r : req) :=
      if apps_typed l kw then OSend (run_apps l kw r) else ORaiseType in
  let finish (fresh : bool) (r : req) :=
      match b_place b with
      | PInFresh => if fresh then apply (b_apps b) r else OSend r
      | PTop => apply (b_apps b) r
      end in
  match b_coerce b, ra with
  | CSame, RMsg m => finish false m
  | CSame, RNone => finish true empty_req
  | CSame, RDict d => finish true d
  | CCross, RDict d => finish false d
  | CCross, RNone => finish true empty_req
  | CCross, RMsg m => if msg_falsy (b_proto_plus b) m then finish true empty_req else finish false m
  end.

(* the request the caller means when passing these keyword arguments: the empty message with each passed
   field assigned, in declared order *)
Definition spec_apps (m : fm) : list app := map (mk_app GNotNone Assign) m.
Definition request_of (m : fm) (kw : kwargs) : req := run_apps (spec_apps m) kw empty_req.

(* ------------------------------------------------------------------------------------------------ *)
(* 5. Comparison helpers for the correspondence checks (T1 / T2)                                    *)
(* ------------------------------------------------------------------------------------------------ *)
Definition guard_eqb (a b : guard) : bool :=
  match a, b with GNotNone, GNotNone => true | GTruthy, GTruthy => true | _, _ => false end.
Definition act_eqb (a b : act) : bool :=
  match a, b with Assign, Assign => true | Extend, Extend => true | Update, Update => true | _, _ => false end.
Definition place_eqb (a b : place) : bool :=
  match a, b with PInFresh, PInFresh => true | PTop, PTop => true | _, _ => false end.

(* what the ast reader sees of one application / of the block *)
Definition syn_app := (string * string * guard * act)%type.
Definition syn_of_app (a : app) : syn_app := (ap_param a, ap_key a, ap_guard a, ap_act a).
Definition syn_app_eqb (x y : syn_app) : bool :=
  match x, y with
  | (p1, k1, g1, a1), (p2, k2, g2, a2) => String.eqb p1 p2 && String.eqb k1 k2 && guard_eqb g1 g2 && act_eqb a1 a2
  end.
(* SCrossCtor: the keyword construction the asyncio template used before /repo commit 14fc9e4; kept on the reader's
   side so that its return is reported as a mismatch *)
Inductive syn_coerce := SSame | SCross | SCrossCtor (kw : list (string * string)).
Definition syn_of_coerce (c : coerce) : syn_coerce :=
  match c with
  | CSame => SSame | CCross => SCross
  end.
Definition syn_coerce_eqb (x y : syn_coerce) : bool :=
  match x, y with
  | SSame, SSame => true | SCross, SCross => true
  | SCrossCtor a, SCrossCtor b => list_eqb (pair_eqb String.eqb String.eqb) a b
  | _, _ => false
  end.
Record syn_block := mkSyn {
  s_params : list string; s_guard : option (list string); s_coerce : syn_coerce; s_place : place; s_apps : list syn_app }.
Definition syn_of (b : block) : syn_block :=
  mkSyn (b_params b) (b_guard b) (syn_of_coerce (b_coerce b)) (b_place b) (map syn_of_app (b_apps b)).
Definition syn_eqb (x y : syn_block) : bool :=
  list_eqb String.eqb (s_params x) (s_params y) &&
  option_eqb (list_eqb String.eqb) (s_guard x) (s_guard y) &&
  syn_coerce_eqb (s_coerce x) (s_coerce y) &&
  (is_nil (s_apps x) && is_nil (s_apps y) || place_eqb (s_place x) (s_place y)) &&
  list_eqb syn_app_eqb (s_apps x) (s_apps y).

Definition outcome_eqb_on (keys pres : list string) (a b : outcome) : bool :=
  match a, b with
  | ORaiseValue, ORaiseValue => true
  | ORaiseType, ORaiseType => true
  | OSend x, OSend y =>
      forallb (fun k => option_eqb leaf_eqb (lookup k x) (lookup k y)) keys &&
      forallb (fun p => Bool.eqb (vivified p x) (vivified p y)) pres
  | _, _ => false
  end.

Definition fm_eqb (a b : fm) : bool :=
  list_eqb (fun x y => String.eqb (fst x) (fst y) && String.eqb (r_name (snd x)) (r_name (snd y)) &&
                       String.eqb (r_pb (snd x)) (r_pb (snd y)) && Bool.eqb (r_repeated (snd x)) (r_repeated (snd y)) &&
                       Bool.eqb (r_map (snd x)) (r_map (snd y)) && Bool.eqb (r_primitive (snd x)) (r_primitive (snd y)) &&
                       Bool.eqb (r_message (snd x)) (r_message (snd y)) &&
                       Bool.eqb (r_struct_value (snd x)) (r_struct_value (snd y))) a b.
