(* Model/Determ.v — C10: the order-sensitive combinators the generator applies to sets.
   sorted(...) on strings, Jinja's |sort(attribute=k) (a stable sort by a lower-cased key),
   utils.lines.sort_lines (split, drop blank, set, sort, join).  A Python set is modelled as an
   arbitrary duplicate-free enumeration of its elements: theorems quantify over all enumerations. *)
From GV Require Import Base.Str.
From Coq Require Import Permutation Sorted.

(* lexicographic order on byte strings (Python compares str by code point; on UTF-8 bytes the order agrees) *)
Fixpoint sleb (a b : string) : bool :=
  match a, b with
  | EmptyString, _ => true
  | String _ _, EmptyString => false
  | String x a', String y b' =>
      if N.ltb (ord x) (ord y) then true
      else if N.ltb (ord y) (ord x) then false
      else sleb a' b'
  end.

Section SortBy.
  Context {A : Type}.
  Variable key : A -> string.

  (* stable insertion: x goes after every element whose key is <= key x *)
  Fixpoint insert_right (x : A) (l : list A) : list A :=
    match l with
    | [] => [x]
    | y :: l' => if sleb (key y) (key x) then y :: insert_right x l' else x :: l
    end.
  (* a stable sort: fold from the left, inserting each element after its equals *)
  Definition sort_by (l : list A) : list A := fold_left (fun acc x => insert_right x acc) l [].
End SortBy.

Definition sorted_strs (l : list string) : list string := sort_by (fun s => s) l.

(* Jinja |sort(attribute=k): case-insensitive by default, i.e. key = lower(attr) *)
Definition jinja_sort {A} (attr : A -> string) (l : list A) : list A := sort_by (fun x => lower (attr x)) l.

(* ---- sort_lines ---- *)
Definition is_blank (s : string) : bool := sall is_pyspace s.
Definition strip (s : string) : string := strip_by is_pyspace s.

(* [set_enum] stands for the iteration order of set(lines): any duplicate-free enumeration with the same elements *)
Definition sort_lines_with (set_enum : list string -> list string) (dedupe : bool) (text : string) : string :=
  let leading := if starts_with (s1 nl) text then s1 nl else "" in
  let trailing := if ends_with (s1 nl) text then s1 nl else "" in
  let lines := filter (fun i => negb (is_blank i)) (split_on nl (strip text)) in
  let lines' := if dedupe then set_enum lines else lines in
  leading ++ sjoin (s1 nl) (sorted_strs lines') ++ trailing.

(* one concrete enumeration: first occurrences, in order *)
Fixpoint dedup (l : list string) : list string :=
  match l with
  | [] => []
  | x :: l' => x :: filter (fun y => negb (String.eqb x y)) (dedup l')
  end.
Definition sort_lines (dedupe : bool) (text : string) : string := sort_lines_with dedup dedupe text.

Definition is_set_enum (f : list string -> list string) : Prop :=
  forall l, NoDup (f l) /\ (forall x, In x (f l) <-> In x l).

(* ---- selective generation: pruning a declaration-ordered dict by an allow-list that is a SET ----
   api.py Proto.prune_messages_for_selective_generation:
     {k: v for k, v in self.all_messages.items() if v.ident in address_allowlist}
   walks the dict (declaration order) and asks the set only for membership.  [allow] is any enumeration of the set. *)
Definition prune_decl (decl allow : list string) : list string := filter (fun k => mem_str k allow) decl.
(* the other way round, {k: decl[k] for k in allow if k in decl}, walks the set *)
Definition prune_by_set (decl allow : list string) : list string := filter (fun k => mem_str k decl) allow.
