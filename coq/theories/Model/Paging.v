(* Model/Paging.v — C07: pagination.  Definitions only.

   (i)  gapic/schema/wrappers.py: Method.paged_result_field / _validate_paged_field_size_type, over an abstract
        request/response shape (declaration-ordered fields: name, type, repeated label, map flag);
        and, written independently, the rule of the property's own sentence ([spec_paged]).
   (ii) what services/%service/pagers.py.j2 emits (the fixed class skeleton, as the canonical ast.unparse lines
        the harness extracts) and the denotation of that skeleton: the pager loop over a scripted server history.
   (iii) which client methods are wrapped in a pager (_client_macros.j2 / async_client.py.j2, paged branch). *)
From GV Require Import Base.Str.

(* ------------------------------------------------------------------ (i) classification *)

(* Field.type as the generator sees it: the ten integer scalar kinds collapse to Python int, float/double to float;
   a message type is known by its package and short name (the code looks at message_pb.name only). *)
Inductive ftype := TStr | TInt | TFloat | TBool | TBytes | TEnum | TMsg (pkg name : string).

(* How a field is declared with respect to presence: plain, proto3 `optional` (a synthetic one-member oneof, so
   Field.oneof is set for it too), or a member of a real oneof.  Method.paged_result_field does not look at it: a
   method whose page_token / next_page_token / page_size / max_results is proto3-optional (the Compute shape) or sits
   in a real oneof is paginated like any other, and the property's sentence does not exclude either. *)
Inductive presence := PPlain | POptional | POneof (group : string).

Record field := mkField { fname : string; fty : ftype; frep : bool; fmap : bool; fpres : presence }.
Definition shape := list field.

(* source.fields.get(name): protoc guarantees distinct field names, see [uniq] *)
Definition lookup (n : string) (s : shape) : option field :=
  find (fun f => String.eqb (fname f) n) s.

Definition uniq (s : shape) : Prop := NoDup (map fname s).

(* field.type == str   (PrimitiveType.__eq__ against the Python type) *)
Definition is_str (f : field) : bool := match fty f with TStr => true | _ => false end.
Definition is_int (f : field) : bool := match fty f with TInt => true | _ => false end.

(* _validate_paged_field_size_type: int, or a message whose short name is UInt32Value / Int32Value *)
Definition wrapper_name (n : string) : bool := String.eqb n "UInt32Value" || String.eqb n "Int32Value".
Definition size_type_ok (f : field) : bool :=
  match fty f with TInt => true | TMsg _ n => wrapper_name n | _ => false end.

(* "if not field or field.repeated or field.type != source_type: return None" *)
Definition token_ok (f : field) : bool := negb (frep f) && is_str f.

(* has_page_size   = page_size and not page_size.repeated and page_size.type == int
   has_max_results = max_results and not max_results.repeated and _validate_paged_field_size_type(max_results) *)
Definition has_page_size (req : shape) : bool :=
  match lookup "page_size" req with Some f => negb (frep f) && is_int f | None => false end.
Definition has_max_results (req : shape) : bool :=
  match lookup "max_results" req with Some f => negb (frep f) && size_type_ok f | None => false end.

(* "for field in self.output.fields.values(): if field.repeated: return field" *)
Definition first_repeated (resp : shape) : option field := find frep resp.

Definition paged_result_field (req resp : shape) : option field :=
  match lookup "page_token" req with
  | None => None
  | Some t =>
    if negb (token_ok t) then None else
    match lookup "next_page_token" resp with
    | None => None
    | Some n =>
      if negb (token_ok n) then None else
      if has_page_size req || has_max_results req then first_repeated resp else None
    end
  end.

(* the same shape with every field declared plain *)
Definition plain (f : field) : field := mkField (fname f) (fty f) (frep f) (fmap f) PPlain.
Definition erase_presence (s : shape) : shape := map plain s.

Definition is_paged (req resp : shape) : bool :=
  match paged_result_field req resp with Some _ => true | None => false end.

Definition has (s : shape) (n : string) (p : field -> bool) : Prop :=
  exists f, In f s /\ fname f = n /\ p f = true.
Definition has_repeated (s : shape) : Prop := exists f, In f s /\ frep f = true.

(* ---- the property's own sentence ----
   "its request has a string page_token and an integer page_size (or legacy max_results, integer or
    Int32Value/UInt32Value) and its response has a string next_page_token and at least one repeated field".
   A string / an integer / a wrapper is a singular field of that type. *)
Definition sing_str (f : field) : bool := is_str f && negb (frep f).
Definition sing_int (f : field) : bool := is_int f && negb (frep f).
Definition sing_wrapper32 (f : field) : bool :=
  match fty f with TMsg _ n => wrapper_name n | _ => false end && negb (frep f).
Definition legacy_size (f : field) : bool := sing_int f || sing_wrapper32 f.

Definition spec_paged (req resp : shape) : Prop :=
  has req "page_token" sing_str /\
  (has req "page_size" sing_int \/ has req "max_results" legacy_size) /\
  has resp "next_page_token" sing_str /\
  has_repeated resp.

(* boolean mirror (decision procedure; proved equivalent in Proofs/Paging.v) *)
Definition hasb (s : shape) (n : string) (p : field -> bool) : bool :=
  existsb (fun f => String.eqb (fname f) n && p f) s.
Definition spec_pagedb (req resp : shape) : bool :=
  hasb req "page_token" sing_str &&
  (hasb req "page_size" sing_int || hasb req "max_results" legacy_size) &&
  hasb resp "next_page_token" sing_str &&
  existsb frep resp.

(* ------------------------------------------------------------------ (ii) the emitted pager classes *)

(* What the harness extracts from pagers.py with ast: per class, the lines of ast.unparse of the class with
   docstrings and annotations removed, blank lines dropped, and the callee of the request copy replaced by
   REQUEST_TYPE (the callee itself is compared separately with the input message name). *)
Definition init_lines : list string := [
  "    def __init__(self, method, request, response, *, retry=gapic_v1.method.DEFAULT, timeout=gapic_v1.method.DEFAULT, metadata=()):";
  "        self._method = method";
  "        self._request = REQUEST_TYPE(request)";
  "        self._response = response";
  "        self._retry = retry";
  "        self._timeout = timeout";
  "        self._metadata = metadata";
  "    def __getattr__(self, name):";
  "        return getattr(self._response, name)" ].

Definition pages_lines (is_async : bool) : list string := [
  "    @property";
  (if is_async then "    async def pages(self):" else "    def pages(self):");
  "        yield self._response";
  "        while self._response.next_page_token:";
  "            self._request.page_token = self._response.next_page_token";
  (if is_async
   then "            self._response = await self._method(self._request, retry=self._retry, timeout=self._timeout, metadata=self._metadata)"
   else "            self._response = self._method(self._request, retry=self._retry, timeout=self._timeout, metadata=self._metadata)");
  "            yield self._response" ].

Definition iter_lines (is_async is_map : bool) (item : string) : list string :=
  let src := "page." ++ item ++ (if is_map then ".items()" else "") in
  let for_line := "                for response in " ++ src ++ ":" in
  let yield_from_line := "            yield from " ++ src in
  let get_line := "        return self._response." ++ item ++ ".get(key)" in
  let iter :=
    if is_async then [
      "    def __aiter__(self):";
      "        async def async_generator():";
      "            async for page in self.pages:";
      for_line;
      "                    yield response";
      "        return async_generator()" ]
    else [
      "    def __iter__(self):";
      "        for page in self.pages:";
      yield_from_line ] in
  let get := if is_map then [ "    def get(self, key):"; get_line ] else [] in
  app iter get.

Definition repr_lines : list string := [
  "    def __repr__(self):";
  "        return '{0}<{1!r}>'.format(self.__class__.__name__, self._response)" ].

Definition pager_class (rpc : string) (is_async : bool) (f : field) : list string :=
  ("class " ++ rpc ++ (if is_async then "AsyncPager:" else "Pager:"))
  :: (init_lines ++ pages_lines is_async ++ iter_lines is_async (fmap f) (fname f) ++ repr_lines)%list.

(* one RPC as the harness describes it *)
Record rpc := mkRpc { r_name : string; r_req : shape; r_resp : shape }.

(* pagers.py of one service: for every paged method, in service order, the sync class and — when a gRPC
   transport is generated — the asyncio class *)
Fixpoint pagers_module (with_async : bool) (ms : list rpc) : list (list string) :=
  match ms with
  | [] => []
  | m :: ms' =>
    match paged_result_field (r_req m) (r_resp m) with
    | None => pagers_module with_async ms'
    | Some f =>
      pager_class (r_name m) false f ::
      ((if with_async then [pager_class (r_name m) true f] else []) ++ pagers_module with_async ms')%list
    end
  end.

(* ------------------------------------------------------------------ (iii) wrapping in the client methods *)

(* "response = pagers.<Rpc>Pager(method=rpc, request=request, response=response, retry=retry, timeout=timeout,
    metadata=metadata)" — extracted as (class name, keyword list) or None *)
Definition wrap_kwargs : list (string * string) :=
  [("method", "rpc"); ("request", "request"); ("response", "response");
   ("retry", "retry"); ("timeout", "timeout"); ("metadata", "metadata")].
Definition client_wrap (is_async : bool) (m : rpc) : option (string * list (string * string)) :=
  match paged_result_field (r_req m) (r_resp m) with
  | None => None
  | Some _ => Some (r_name m ++ (if is_async then "AsyncPager" else "Pager"), wrap_kwargs)
  end.

(* ------------------------------------------------------------------ denotation of the skeleton: the loop *)

Section Pager.
  (* item: what one element of the item field is; attrs: everything else on a response;
     fields: every request field except page_token; opts: the call options (retry, timeout, metadata) *)
  Variables (item attrs fields opts : Type).

  Record page := mkPage { p_items : list item; p_token : string; p_attrs : attrs }.
  Record call := mkCall { c_token : string; c_fields : fields; c_opts : opts }.

  (* pager state: self._request (with the options stored at construction) and self._response *)
  Record pstate := mkState { st_call : call; st_resp : page }.

  (* one turn of the while loop, given the server's answer to the re-issued call *)
  Definition next_call (st : pstate) : call :=
    mkCall (p_token (st_resp st)) (c_fields (st_call st)) (c_opts (st_call st)).
  Definition step (answer : page) (st : pstate) : pstate := mkState (next_call st) answer.

  (* the generator [pages], run to exhaustion against a scripted server: [script] is what the server answers
     to the follow-up calls, in order.  The result is the list of pager states at each yield (the page yielded
     is [st_resp]).  A script that runs out while the last token is non-empty has no defined continuation: None. *)
  Fixpoint run (st : pstate) (script : list page) : option (list pstate) :=
    if is_empty (p_token (st_resp st)) then Some [st]
    else match script with
         | [] => None
         | answer :: script' =>
           match run (step answer st) script' with
           | Some sts => Some (st :: sts)
           | None => None
           end
         end.

  Definition yielded_pages (sts : list pstate) : list page := map st_resp sts.
  (* follow-up calls seen by the server: one per state after the first *)
  Definition followup_calls (sts : list pstate) : list call :=
    match sts with [] => [] | _ :: sts' => map st_call sts' end.

  (* sync __iter__:  for page in pages: yield from page.items *)
  Definition items_sync (ps : list page) : list item := concat (map p_items ps).
  (* asyncio __aiter__: async for page in pages: for response in page.items: yield response *)
  Fixpoint yield_each (l : list item) (rest : list item) : list item :=
    match l with [] => rest | x :: l' => x :: yield_each l' rest end.
  Fixpoint items_async (ps : list page) : list item :=
    match ps with [] => [] | p :: ps' => yield_each (p_items p) (items_async ps') end.

  (* __getattr__: attribute lookup goes to self._response of the current state *)
  Definition pager_attrs (st : pstate) : page := st_resp st.

  Fixpoint last_opt {A} (l : list A) : option A :=
    match l with [] => None | [x] => Some x | _ :: l' => last_opt l' end.

  (* the whole observable behaviour of "call the method, iterate the pager to the end" *)
  Record outcome := mkOutcome { o_items : list item; o_calls : list call; o_pages : list page; o_final : option page }.
  Definition iterate (is_async : bool) (first : call) (resp0 : page) (script : list page) : option outcome :=
    match run (mkState first resp0) script with
    | None => None
    | Some sts =>
      let ps := yielded_pages sts in
      Some (mkOutcome (if is_async then items_async ps else items_sync ps)
                      (first :: followup_calls sts) ps (option_map pager_attrs (last_opt sts)))
    end.

  (* One listing as the CALLER lives it.  The caller holds a request value [r]; the client method sends it and gives
     the pager a COPY (the T1 pin "self._request = REQUEST_TYPE(request)"): iteration runs on the pager's own state
     [pstate], so the caller's request is not among the things iteration can change.  [list_and_drain] returns the
     outcome together with the request the caller holds afterwards. *)
  Definition list_and_drain (is_async : bool) (r : call) (resp0 : page) (script : list page) : option outcome * call :=
    (iterate is_async r resp0 script, r).

  (* the consumer breaks out of the loop while it holds page number [b] (0 = the first page): the generator is
     suspended at that yield, nothing further has been fetched, and attribute lookup reaches page [b] *)
  Definition stop_after (b : nat) (o : outcome) : option outcome :=
    match nth_error (o_pages o) b with
    | None => None
    | Some pb =>
      Some (mkOutcome (concat (map p_items (firstn (S b) (o_pages o)))) (firstn (S b) (o_calls o))
                      (firstn (S b) (o_pages o)) (Some pb))
    end.
  (* iterating items: the page being consumed when the [j]-th item (j >= 1) has just been yielded *)
  Fixpoint page_of_item (j : nat) (ps : list page) : option nat :=
    match ps with
    | [] => None
    | p :: ps' => if Nat.leb j (length (p_items p)) then Some 0
                  else option_map S (page_of_item (j - length (p_items p)) ps')
    end.

  (* ---- the property's sentence about the loop, stated on the history alone ---- *)
  Definition nonempty_token (p : page) : Prop := p_token p <> "".
  (* [h] = init ++ last :: rest with [last] the first page whose token is empty *)
  Definition splits_at_first_empty (h init : list page) (last : page) (rest : list page) : Prop :=
    h = (init ++ last :: rest)%list /\ Forall nonempty_token init /\ p_token last = "".
End Pager.

Arguments mkPage {item attrs}. Arguments p_items {item attrs}. Arguments p_token {item attrs}. Arguments p_attrs {item attrs}.
Arguments mkCall {fields opts}. Arguments c_token {fields opts}. Arguments c_fields {fields opts}. Arguments c_opts {fields opts}.
Arguments mkState {item attrs fields opts}. Arguments st_call {item attrs fields opts}. Arguments st_resp {item attrs fields opts}.
Arguments run {item attrs fields opts}. Arguments step {item attrs fields opts}. Arguments next_call {item attrs fields opts}.
Arguments yielded_pages {item attrs fields opts}. Arguments followup_calls {item attrs fields opts}.
Arguments items_sync {item attrs}. Arguments items_async {item attrs}. Arguments yield_each {item}.
Arguments pager_attrs {item attrs fields opts}. Arguments last_opt {A}.
Arguments iterate {item attrs fields opts}. Arguments mkOutcome {item attrs fields opts}.
Arguments o_items {item attrs fields opts}. Arguments o_calls {item attrs fields opts}.
Arguments o_pages {item attrs fields opts}. Arguments o_final {item attrs fields opts}.
Arguments list_and_drain {item attrs fields opts}.
Arguments stop_after {item attrs fields opts}. Arguments page_of_item {item attrs}.
Arguments nonempty_token {item attrs}. Arguments splits_at_first_empty {item attrs}.

(* ------------------------------------------------------------------ comparison helpers for the harness *)
Definition ftype_eqb (a b : ftype) : bool :=
  match a, b with
  | TStr, TStr | TInt, TInt | TFloat, TFloat | TBool, TBool | TBytes, TBytes | TEnum, TEnum => true
  | TMsg p n, TMsg q m => String.eqb p q && String.eqb n m
  | _, _ => false
  end.

(* string instance used by T2: items, attrs, fields and options are canonical strings *)
Definition spage := page string string.
Definition scall := call string string.
Definition scall_eqb (a b : scall) : bool :=
  String.eqb (c_token a) (c_token b) && String.eqb (c_fields a) (c_fields b) && String.eqb (c_opts a) (c_opts b).
Definition spage_eqb (a b : spage) : bool :=
  list_eqb String.eqb (p_items a) (p_items b) && String.eqb (p_token a) (p_token b) && String.eqb (p_attrs a) (p_attrs b).

(* an "items" run observes (items yielded, calls at the server, attributes after exhaustion);
   a "pages" run observes (pages with the pager's own attributes at each yield, calls, attributes after exhaustion) *)
Definition items_run_matches (is_async : bool) (first : scall) (resp0 : spage) (script : list spage)
           (items : list string) (calls : list scall) (final : option spage) : bool :=
  match iterate is_async first resp0 script with
  | None => false
  | Some o =>
    list_eqb String.eqb (o_items o) items && list_eqb scall_eqb (o_calls o) calls &&
    option_eqb spage_eqb (o_final o) final
  end.
Definition pages_run_matches (is_async : bool) (first : scall) (resp0 : spage) (script : list spage)
           (pages : list spage) (calls : list scall) (final : option spage) : bool :=
  match iterate is_async first resp0 script with
  | None => false
  | Some o =>
    list_eqb spage_eqb (o_pages o) pages && list_eqb scall_eqb (o_calls o) calls &&
    option_eqb spage_eqb (o_final o) final
  end.

(* the consumer left the "pages" loop while holding page [b]: pages seen (with the pager's own attributes at each
   yield), calls at the server so far, attributes read through the pager after the break *)
Definition pages_break_matches (is_async : bool) (first : scall) (resp0 : spage) (script : list spage) (b : nat)
           (pages : list spage) (calls : list scall) (final : option spage) : bool :=
  match iterate is_async first resp0 script with
  | None => false
  | Some o =>
    match stop_after b o with
    | None => false
    | Some o' =>
      list_eqb spage_eqb (o_pages o') pages && list_eqb scall_eqb (o_calls o') calls &&
      option_eqb spage_eqb (o_final o') final
    end
  end.
(* the consumer left the item loop after [j] >= 1 items *)
Definition items_break_matches (is_async : bool) (first : scall) (resp0 : spage) (script : list spage) (j : nat)
           (items : list string) (calls : list scall) (final : option spage) : bool :=
  match iterate is_async first resp0 script with
  | None => false
  | Some o =>
    match page_of_item j (o_pages o) with
    | None => false
    | Some b =>
      match stop_after b o with
      | None => false
      | Some o' =>
        list_eqb String.eqb (firstn j (o_items o)) items && list_eqb scall_eqb (o_calls o') calls &&
        option_eqb spage_eqb (o_final o') final
      end
    end
  end.

Definition lines_eqb (a b : list string) : bool := list_eqb String.eqb a b.
Definition wrap_eqb (a b : option (string * list (string * string))) : bool :=
  option_eqb (pair_eqb String.eqb (list_eqb (pair_eqb String.eqb String.eqb))) a b.
