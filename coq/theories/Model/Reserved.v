(* Model/Reserved.v — C12: reserved-word and collision disambiguation.
   Mirrors: gapic/utils/reserved_names.py (through Gen/Kw.v, regenerated on every run),
   wrappers.py Field.name / FieldHeader.disambiguated / MessageType.get_field / Method._fields_mapping /
   HttpRule.try_parse_http_rule (body) / Method.client_method_name / transport_safe_name,
   uri_conv.convert_uri_fieldnames (_fix_field_path), api.py disambiguate_keyword_sanitize_fname,
   metadata.py Address.module_alias, protobuf's ToJsonName.  Definitions only. *)
From GV Require Import Base.Str Gen.Kw Model.Case.

Definition reserved (w : string) : bool := mem_str w RESERVED_NAMES.
Definition is_kw (w : string) : bool := mem_str w KWLIST.

(* one trailing underscore iff reserved: Field.name (proto-plus types), FieldHeader per component,
   uri_conv._fix_name_segment *)
Definition field_attr (w : string) : string := if reserved w then w ++ "_" else w.

(* a dotted field path: every component suffixed independently *)
Definition fix_path (p : string) : string := sjoin "." (map field_attr (split_on "."%char p)).

(* HttpRule body *)
Definition body_attr (b : string) : string :=
  if reserved b && negb (ends_with "_" b) then b ++ "_" else b.

(* key of Method._fields_mapping for a signature entry: the path as written, plus "_" when the LAST
   field's proto name is reserved (intermediate components are left as written) *)
Fixpoint last_seg (l : list string) : string :=
  match l with [] => "" | [x] => x | _ :: l' => last_seg l' end.
Definition flat_key (path : string) : string :=
  if reserved (last_seg (split_on "."%char path)) then path ++ "_" else path.

(* Method.client_method_name (non-internal) and transport_safe_name; templates apply snake_case,
   which on a single capitalised word is lower-casing *)
Definition client_method_name (n : string) : string := if is_kw (lower n) then n ++ "_" else n.
Definition transport_safe_name (n : string) : string :=
  if mem_str (lower n) (TRANSPORT_UNSAFE ++ KWLIST) then n ++ "_" else n.

(* ---- what Python accepts as an attribute / parameter name ---- *)
Definition is_ident_start (c : ascii) : bool := is_alpha c || Ascii.eqb c "_"%char.
Definition is_ident (s : string) : bool :=
  match s with EmptyString => false | String c s' => is_ident_start c && sall is_word s' end.
Definition python_ok (s : string) : bool := is_ident s && negb (is_kw s).
Definition chain_ok (p : string) : bool := forallb python_ok (split_on "."%char p).

(* ---- proto file names: api.py disambiguate_keyword_sanitize_fname on the base name ----
   [name] is the file's base name without extension, [visited] the base names already taken in the same
   directory (same extension).  Dots and dashes become underscores; then one underscore is appended when the name,
   or its snake-case form (the module the types are written to), is an invalid module name, or when the name is
   already taken, and again while the result is taken. *)
Definition dots_to_us (s : string) : string :=
  smap (fun c => if Ascii.eqb c "."%char || Ascii.eqb c "-"%char then "_"%char else c) s.
Definition invalid_module (n : string) : bool := mem_str n (KWLIST ++ INVALID_MODULE_EXTRA).
Definition module_invalid (n : string) : bool := invalid_module n || invalid_module (snake n).

Fixpoint bump (fuel : nat) (n : string) (visited : list string) : option string :=
  match fuel with
  | O => None
  | S f => let n' := n ++ "_" in
           if mem_str n' visited then
             (* recursive call of the Python function on n': its own first test is true again *)
             bump f n' visited
           else Some n'
  end.
Definition count_ge (k : nat) (visited : list string) : nat :=
  length (filter (fun v => Nat.leb k (String.length v)) visited).
Definition sanitize_fname (name : string) (visited : list string) : option string :=
  let n := dots_to_us name in
  if module_invalid n || mem_str n visited then bump (S (count_ge (S (String.length n)) visited)) n visited
  else Some n.

(* ---- Address.module_alias: initials of the package components (version component skipped) + "_" + module ---- *)
Definition initial (s : string) : string := match s with EmptyString => "" | String c _ => s1 c end.
Definition pkg_initials (package : list string) (version : string) : string :=
  sconcat (map (fun comp => if String.eqb comp version then ""
                            else sconcat (map initial (split_on "_"%char comp))) package).
(* modules the emitted service code itself imports under their bare names (regenerated list): a types module of that name is aliased too *)
Definition imported_name (m : string) : bool := mem_str m IMPORTED_MODULE_NAMES.
Definition module_alias (package : list string) (version module : string) (collides : bool) : string :=
  if collides || reserved module || imported_name module then pkg_initials package version ++ "_" ++ module else "".

(* ---- protobuf ToJsonName: drop underscores, upper-case the next character ---- *)
Fixpoint to_json_name_aux (cap : bool) (s : string) : string :=
  match s with
  | EmptyString => EmptyString
  | String c s' => if Ascii.eqb c "_"%char then to_json_name_aux true s'
                   else String (if cap then to_upper c else c) (to_json_name_aux false s')
  end.
Definition to_json_name (s : string) : string := to_json_name_aux false s.

(* ---- the finite cross product of the property: words x positions ---- *)
Definition WORDS : list string := RESERVED_NAMES ++ KWLIST.
Definition cap1 (w : string) : string := match w with EmptyString => "" | String c s => String (to_upper c) s end.

Definition position_ok (w : string) : list bool :=
  [ python_ok (field_attr w)                                   (* top-level / nested field attribute, header component *)
  ; chain_ok (fix_path ("sub." ++ w))                          (* dotted http path variable / implicit header *)
  ; chain_ok (fix_path (w ++ ".name"))                         (* reserved word as the first component *)
  ; python_ok (body_attr w)                                    (* http body *)
  ; python_ok (field_attr (last_seg (split_on "."%char (flat_key w))))   (* flattened parameter name = Field.name *)
  ; String.eqb (flat_key w) (field_attr w)                     (* flattened key agrees with the attribute *)
  ; python_ok (lower (client_method_name (cap1 w)))            (* rpc named by the capitalised word *)
  ; python_ok (lower (transport_safe_name (cap1 w)))
  ; String.eqb (to_json_name (field_attr w)) (to_json_name w)  (* JSON name unchanged by the suffix *)
  ].
Definition all_positions_ok : bool := forallb (fun w => forallb (fun b => b) (position_ok w)) WORDS.
