(* Model/Metadata.v — C15: gapic/schema/api.py: API.gapic_metadata; gapic/schema/wrappers.py: Service.client_name,
   async_client_name, is_internal, Method.client_method_name, legacy_flattened_fields, Field.name;
   the METHOD_TO_PARAMS block of templates/scripts/fixup_%name_%version_keywords.py.j2 (jinja2 sort with its default
   case-insensitive key, unique with case_sensitive=True).  Definitions only.
   kwlist and RESERVED_NAMES are regenerated from /repo and the interpreter on every run (Gen/C15Gen.v). *)
From GV Require Import Base.Str Model.Case Gen.C15Gen.

Record field := { f_name : string; f_required : bool }.
Record rpc := { r_name : string; r_internal : bool; r_pp : bool (* request message is a proto-plus type *);
                r_fields : list field }.
Record svc := { s_name : string; s_rpcs : list rpc }.

(* ---- names (wrappers.py) ---- *)
Definition svc_internal (s : svc) : bool := existsb r_internal (s_rpcs s).
Definition client_name (s : svc) : string := (if svc_internal s then "Base" else "") ++ s_name s ++ "Client".
Definition async_client_name (s : svc) : string := (if svc_internal s then "Base" else "") ++ s_name s ++ "AsyncClient".
Definition make_private (n : string) : string := if starts_with "_" n then n else "_" ++ n.
Definition client_method_name (r : rpc) : string :=
  let n := if mem_str (lower (r_name r)) kwlist then r_name r ++ "_" else r_name r in
  if r_internal r then make_private n else n.
(* what gapic_metadata stores and what the client templates define: snake_case of client_method_name *)
Definition py_method (r : rpc) : string := snake (client_method_name r).
(* Field.name *)
Definition field_pyname (pp : bool) (f : field) : string :=
  if mem_str (f_name f) reserved_names && pp then f_name f ++ "_" else f_name f.

(* ---- stable insertion sort by a string key: Python sorted(key=...) on ASCII strings ---- *)
Section SortBy.
  Context {A : Type} (key : A -> string).
  Fixpoint insert_by (x : A) (l : list A) : list A :=
    match l with
    | [] => [x]
    | y :: l' => if String.leb (key x) (key y) then x :: l else y :: insert_by x l'
    end.
  Fixpoint sort_by (l : list A) : list A :=
    match l with [] => [] | x :: l' => insert_by x (sort_by l') end.
  (* jinja2 unique(attribute=...): first element of each key, original order *)
  Fixpoint unique_by_acc (seen : list string) (l : list A) : list A :=
    match l with
    | [] => []
    | x :: l' => if mem_str (key x) seen then unique_by_acc seen l' else x :: unique_by_acc (key x :: seen) l'
    end.
  Definition unique_by (l : list A) : list A := unique_by_acc [] l.
End SortBy.

(* ---- API.gapic_metadata ---- *)
Definition kinds (transport : list string) (s : svc) : list (string * string) :=
  (if mem_str "grpc" transport then [("grpc", client_name s); ("grpc-async", async_client_name s)] else []) ++
  (if mem_str "rest" transport then [("rest", client_name s)] else []).

Record entry := { e_service : string; e_kind : string; e_client : string; e_rpc : string; e_method : string }.
Definition mk_entry (s : svc) (k : string * string) (r : rpc) : entry :=
  {| e_service := s_name s; e_kind := fst k; e_client := snd k; e_rpc := r_name r; e_method := py_method r |}.

Definition svc_entries (transport : list string) (s : svc) : list entry :=
  flat_map (fun k => map (mk_entry s k) (sort_by r_name (s_rpcs s))) (kinds transport s).
Definition metadata_entries (transport : list string) (svcs : list svc) : list entry :=
  flat_map (svc_entries transport) (sort_by s_name svcs).
(* the client entries: one per service and client kind, with the client class, whether or not the service declares rpcs
   (transport = service_desc.clients.get_or_create(tprt); transport.library_client = client_name  is outside the method loop) *)
Definition metadata_clients (transport : list string) (svcs : list svc) : list (string * string * string) :=
  flat_map (fun s => map (fun k => (s_name s, fst k, snd k)) (kinds transport s)) (sort_by s_name svcs).
Definition client_eqb (a b : string * string * string) : bool :=
  String.eqb (fst (fst a)) (fst (fst b)) && String.eqb (snd (fst a)) (snd (fst b)) && String.eqb (snd a) (snd b).
(* services that appear in the JSON even when no client kind is selected (get_or_create on the map) *)
Definition metadata_services (svcs : list svc) : list string := map s_name (sort_by s_name svcs).

Definition library_package (old_naming : bool) (namespace : list string) (name version : string) : string :=
  sjoin "." (map valid_module namespace ++ [versioned_module old_naming name version]).

(* ---- legacy_flattened_fields: utils.partition by required, required first ---- *)
Definition legacy_flattened (fs : list field) : list field :=
  filter f_required fs ++ filter (fun f => negb (f_required f)) fs.

(* ---- METHOD_TO_PARAMS ---- *)
Definition iam_params : list (string * list string) :=
  [("get_iam_policy", ["resource"; "options"]); ("set_iam_policy", ["resource"; "policy"]);
   ("test_iam_permissions", ["resource"; "permissions"])].
Definition ci (r : rpc) : string := lower (r_name r).
Definition params_of (r : rpc) : list string := map (field_pyname (r_pp r)) (legacy_flattened (r_fields r)).
(* svcs in the order of api.services.values() *)
Definition listed_rpcs (svcs : list svc) : list rpc := unique_by r_name (sort_by ci (flat_map s_rpcs svcs)).
Definition method_to_params (add_iam : bool) (svcs : list svc) : list (string * list string) :=
  map (fun r => (snake (r_name r), params_of r)) (listed_rpcs svcs) ++ (if add_iam then iam_params else []).

(* ---- comparison helpers for the harness ---- *)
Definition entry_eqb (a b : entry) : bool :=
  String.eqb (e_service a) (e_service b) && String.eqb (e_kind a) (e_kind b) && String.eqb (e_client a) (e_client b)
  && String.eqb (e_rpc a) (e_rpc b) && String.eqb (e_method a) (e_method b).
Definition mkE (s k c r m : string) : entry := {| e_service := s; e_kind := k; e_client := c; e_rpc := r; e_method := m |}.
Definition mkF (n : string) (req : bool) : field := {| f_name := n; f_required := req |}.
Definition mkR (n : string) (internal pp : bool) (fs : list field) : rpc :=
  {| r_name := n; r_internal := internal; r_pp := pp; r_fields := fs |}.
Definition mkS (n : string) (rs : list rpc) : svc := {| s_name := n; s_rpcs := rs |}.
Definition params_eqb (a b : list (string * list string)) : bool :=
  list_eqb (pair_eqb String.eqb (list_eqb String.eqb)) a b.
