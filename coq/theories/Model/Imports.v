(* Model/Imports.v -- C01: the import statement computed for a type from its address
   (gapic/schema/metadata.py: Address.in_api_package, subpackage, convert_to_versioned_package, python_import).
   Packages are lists of dot-separated segments.  Definitions only. *)
From GV Require Import Base.Str Model.Files.

Record naming_ := { api_pkg : list string;          (* proto package of the API being generated *)
                    mod_ns : list string;           (* naming.module_namespace *)
                    vmod : string;                  (* naming.versioned_module_name *)
                    ppdeps : list (list string) }.  (* option proto-plus-deps *)
Record addr := { a_pkg : list string; a_mod : string }.

(* in_api_package: the API package itself or one of its sub-packages, by SEGMENTS *)
Definition in_api (n : naming_) (a : addr) : bool :=
  match api_pkg n with [] => true | _ => is_prefix_list (api_pkg n) (a_pkg a) end.
(* what the code did before: the dotted strings compared as text *)
Definition in_api_textual (n : naming_) (a : addr) : bool :=
  starts_with (sjoin "." (api_pkg n)) (sjoin "." (a_pkg a)).

Definition subpackage (n : naming_) (a : addr) : list string := skipn (List.length (api_pkg n)) (a_pkg a).

(* ^v\d[^/]*$ on one package segment *)
Definition is_version (s : string) : bool :=
  match s with
  | String c (String d r) => Ascii.eqb c "v"%char && is_digit d && negb (contains "/"%char r)
  | _ => false
  end.
Definition versioned_pkg (p : list string) : list string :=
  match rev p with
  | last :: prev :: rest_rev => if is_version last then (rev rest_rev ++ [(prev ++ "_" ++ last)%string])%list else p
  | _ => p
  end.
Definition is_proto_plus (n : naming_) (a : addr) : bool :=
  in_api n a || existsb (list_eqb String.eqb (a_pkg a)) (ppdeps n).

(* python_import: (package segments, module) *)
Definition import_of (n : naming_) (a : addr) : list string * string :=
  if in_api n a then ((mod_ns n ++ [vmod n] ++ subpackage n a ++ ["types"])%list, a_mod a)
  else if is_proto_plus n a then ((versioned_pkg (a_pkg a) ++ ["types"])%list, a_mod a)
  else (a_pkg a, a_mod a ++ "_pb2").

(* the file the import statement resolves to inside the generated distribution *)
Definition import_file (n : naming_) (a : addr) : string :=
  sjoin "/" (fst (import_of n a)) ++ "/" ++ snd (import_of n a) ++ ".py".
