(* Model/ResPath.v — C19: resource path helpers.
   Mirrors gapic/schema/wrappers.py: MessageType.PATH_ARG_RE, resource_path_args,
   resource_path_formatted, path_regex_str, and the emitted
     "<formatted>".format(a=a, ...)          /    re.match(r"<regex>", path).groupdict()
   Definitions only. *)
From GV Require Import Base.Str.

Inductive tok := C (c : ascii) | V (name : string).

(* [a-zA-Z0-9_\-] *)
Definition is_namechar (c : ascii) : bool :=
  is_alnum c || Ascii.eqb c "_"%char || Ascii.eqb c "-"%char.

(* PATH_ARG_RE: an opening brace, one or more of [a-zA-Z0-9_-], an optional equals-star-star, a closing
   brace; tried on the text after an opening brace.
   Returns the name and the number of characters consumed after the '{'.  The greedy name run
   never needs backtracking: a shorter name would be followed by a name character, which is
   neither '=' nor '}'. *)
Definition read_var (s : string) : option (string * nat) :=
  let name := stake_while is_namechar s in
  let rest := sdrop_while is_namechar s in
  if is_empty name then None else
  match strip_prefix "}" rest with
  | Some _ => Some (name, S (String.length name))
  | None => match strip_prefix "=**}" rest with
            | Some _ => Some (name, 4 + String.length name)
            | None => None
            end
  end.

(* leftmost, non-overlapping scan (what re.findall / re.sub / re.split do) *)
Fixpoint tokenize_aux (skip : nat) (s : string) : list tok :=
  match s with
  | EmptyString => []
  | String c s' =>
      match skip with
      | S k => tokenize_aux k s'
      | O => if Ascii.eqb c "{"%char then
               match read_var s' with
               | Some (name, n) => V name :: tokenize_aux n s'
               | None => C c :: tokenize_aux 0 s'
               end
             else C c :: tokenize_aux 0 s'
      end
  end.
Definition tokenize (pattern : string) : list tok := tokenize_aux 0 pattern.

Fixpoint args (p : list tok) : list string :=
  match p with [] => [] | C _ :: p' => args p' | V n :: p' => n :: args p' end.

(* resource_path_formatted: every variable re-written to {name} *)
Fixpoint formatted (p : list tok) : string :=
  match p with
  | [] => ""
  | C c :: p' => String c (formatted p')
  | V n :: p' => "{" ++ n ++ "}" ++ formatted p'
  end.

(* re.escape: the characters of re._special_chars_map  ()[]{}?*+-|^$\.&~# \t\n\r\v\f  *)
Definition re_special (c : ascii) : bool :=
  contains c "()[]{}?*+-|^$\.&~# " || in_range 9 13 c.
Definition re_escape_char (c : ascii) : string :=
  if re_special c then String "\"%char (s1 c) else s1 c.

Fixpoint regex_body (p : list tok) : string :=
  match p with
  | [] => ""
  | C c :: p' => re_escape_char c ++ regex_body p'
  | V n :: p' => "(?P<" ++ n ++ ">.+?)" ++ regex_body p'
  end.
Definition regex_str (pattern : string) : string :=
  if String.eqb pattern "*" then "^.*$" else "^" ++ regex_body (tokenize pattern) ++ "$".

(* ---- semantics of the emitted regex under Python's re.match ---- *)

(* '$' (no MULTILINE): at the end, or just before a final newline *)
Definition at_end (s : string) : bool :=
  match s with EmptyString => true | String a EmptyString => Ascii.eqb a nl | _ => false end.

Definition env := list (string * string).

Section Lazy.
  (* (?P<n>.+?) : try 1, 2, ... characters, none of them a newline; first success wins *)
  Variable rest_match : string -> option env.
  Fixpoint lazy_group (name : string) (acc : string) (s : string) : option env :=
    match s with
    | EmptyString => None
    | String a s' =>
        if Ascii.eqb a nl then None else
        let acc' := acc ++ s1 a in
        match rest_match s' with
        | Some e => Some ((name, acc') :: e)
        | None => lazy_group name acc' s'
        end
    end.
End Lazy.

Fixpoint match_toks (p : list tok) (s : string) : option env :=
  match p with
  | [] => if at_end s then Some [] else None
  | C c :: p' => match s with
                 | String a s' => if Ascii.eqb a c then match_toks p' s' else None
                 | EmptyString => None
                 end
  | V n :: p' => lazy_group (match_toks p') n "" s
  end.

(* parse_<x>_path(path): m.groupdict() if m else {} *)
Definition parse (pattern : string) (path : string) : env :=
  if String.eqb pattern "*" then []
  else match match_toks (tokenize pattern) path with Some e => e | None => [] end.

(* <x>_path(a, b, ...): the formatted string with the values substituted, in argument order *)
Fixpoint build_toks (p : list tok) (vals : env) : string :=
  match p with
  | [] => ""
  | C c :: p' => String c (build_toks p' vals)
  | V n :: p' => match vals with
                 | (_, v) :: vals' => v ++ build_toks p' vals'
                 | [] => build_toks p' []
                 end
  end.
Definition build (pattern : string) (vals : env) : string := build_toks (tokenize pattern) vals.

(* ---- hypotheses of the round-trip theorems ---- *)

(* values aligned with the variables; each non-empty and newline-free; a value followed by literal
   text avoids that text's first character (the delimiter); two adjacent variables are excluded;
   the last value is otherwise unconstrained (a slash is allowed inside a trailing double-star variable) *)
Fixpoint ok (p : list tok) (vals : env) : Prop :=
  match p with
  | [] => vals = []
  | C _ :: p' => ok p' vals
  | V n :: p' =>
      match vals with
      | (n', v) :: vals' =>
          n' = n /\ v <> "" /\ contains nl v = false /\
          match p' with
          | [] => True
          | C c :: _ => contains c v = false
          | V _ :: _ => False
          end /\ ok p' vals'
      | [] => False
      end
  end.

(* boolean version, used by the correspondence harness to select in-domain cases *)
Fixpoint okb (p : list tok) (vals : env) : bool :=
  match p with
  | [] => match vals with [] => true | _ => false end
  | C _ :: p' => okb p' vals
  | V n :: p' =>
      match vals with
      | (n', v) :: vals' =>
          String.eqb n' n && negb (is_empty v) && negb (contains nl v) &&
          match p' with
          | [] => true
          | C c :: _ => negb (contains c v)
          | V _ :: _ => false
          end && okb p' vals'
      | [] => false
      end
  end.

Definition env_eqb (a b : env) : bool := list_eqb (pair_eqb String.eqb String.eqb) a b.
