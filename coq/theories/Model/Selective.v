(* Model/Selective.v -- C16: selective GAPIC generation.
   Mirrors gapic/schema/api.py   API.build (third pass), Proto.add_to_address_allowlist,
                                 Proto.prune_messages_for_selective_generation, Proto.with_internal_methods,
                                 API.all_library_settings / enforce_valid_library_settings / all_methods
           gapic/schema/wrappers.py  Service/Method/OperationInfo/ExtendedOperationInfo/MessageType/Field/EnumType
                                 .add_to_address_allowlist, Service.prune_messages_for_selective_generation,
                                 Service/Method.with_internal_methods, Method.client_method_name,
                                 Service.is_internal/client_name/async_client_name, utils.make_private
           templates types/%proto.py.j2 + _message.py.j2: which declarations are rendered.
   An address (metadata.Address) is represented by its proto selector (package.parent.name): two wrapper
   objects of a descriptor set accepted by protoc have equal addresses iff they have equal selectors.
   Definitions only. *)
From GV Require Import Base.Str.
From GV Require Import Gen.SelectiveKw.
Open Scope list_scope.

Definition addr := string.
Definition mem (a : addr) (l : list addr) : bool := mem_str a l.
Definition opt_list {A} (o : option A) : list A := match o with Some x => [x] | None => [] end.

(* ---------------------------------------------------------------- schema *)
(* wrappers.Field: .message, .enum, .resource_reference (type or child_type, None when both empty) *)
Record field := mkField { f_msg : option addr; f_enum : option addr; f_ref : option string }.

(* wrappers.MessageType: ident, fields, nested_enums, nested_messages (objects, hence a tree) *)
Inductive msg := Msg (a : addr) (fs : list field) (es : list addr) (ns : list msg).
Definition m_addr (m : msg) : addr := match m with Msg a _ _ _ => a end.
Definition m_fields (m : msg) : list field := match m with Msg _ fs _ _ => fs end.
Definition m_enums (m : msg) : list addr := match m with Msg _ _ es _ => es end.
Definition m_nested (m : msg) : list msg := match m with Msg _ _ _ ns => ns end.

Record method := mkMethod {
  me_name : string;                  (* method_pb.name *)
  me_addr : addr;                    (* ident.proto = service selector . name; also the key of API.all_methods *)
  me_input : addr;
  me_output : addr;
  me_lro : option (addr * addr);     (* OperationInfo: response_type, metadata_type *)
  me_opsvc : string;                 (* option google.cloud.operation_service, empty when absent *)
  me_ext : option (addr * addr);     (* ExtendedOperationInfo: request_type, operation_type *)
  me_polling : bool                  (* is_operation_polling_method *)
}.
Record service := mkSvc { s_name : string; s_addr : addr; s_methods : list method }.

Record file := mkFile {
  fi_name : string;
  fi_target : bool;                  (* member of api.protos: package starts with the target package *)
  fi_enums : list addr;              (* top-level enums, declaration order *)
  fi_msgs : list msg;                (* top-level messages, declaration order *)
  fi_svcs : list service;            (* loaded only for target files *)
  fi_res : list (string * addr)      (* Proto.resource_messages in insertion order: file-level resource
                                        definitions (a synthetic message whose address is empty), then
                                        the top-level messages carrying google.api.resource *)
}.
Definition graph := list file.       (* api.all_protos in request order *)

(* Proto.all_messages / all_enums in the order _ProtoBuilder registers them
   (_load_message: nested enums, nested messages, then the message itself) *)
Fixpoint flat (m : msg) : list msg :=
  match m with Msg _ _ _ ns => flat_map flat ns ++ [m] end.
Fixpoint enums_of (m : msg) : list addr :=
  match m with Msg _ _ es ns => es ++ flat_map enums_of ns end.
Definition all_msgs (f : file) : list msg := flat_map flat (fi_msgs f).
Definition all_enums (f : file) : list addr := fi_enums f ++ flat_map enums_of (fi_msgs f).
Definition table (g : graph) : list msg := flat_map all_msgs g.
Definition find_msg (g : graph) (a : addr) : option msg :=
  find (fun m => String.eqb (m_addr m) a) (table g).

(* inside one proto (an OrderedDict built from a chain) the last binding of a type wins *)
Fixpoint assoc_last {A} (k : string) (l : list (string * A)) : option A :=
  match l with
  | [] => None
  | (k', v) :: l' => match assoc_last k l' with
                     | Some x => Some x
                     | None => if String.eqb k k' then Some v else None
                     end
  end.
(* API.build (third pass, omitting mode):
     a collections.ChainMap whose layers are, for every proto in turn, the entries of proto.resource_messages whose
     message has a non-empty address (m.meta.address.proto), followed by every proto.resource_messages as it is:
   the leading layers hold, file by file, the declarations by real messages (non-empty address); the plain per-file
   tables follow, so a file-level definition (address-less synthetic message) is found only when no message of any
   file carries the type.  The first layer that knows the type wins. *)
Definition real_res (f : file) : list (string * addr) := filter (fun p => negb (is_empty (snd p))) (fi_res f).
Fixpoint lookup_layers (tabs : list (list (string * addr))) (t : string) : option addr :=
  match tabs with
  | [] => None
  | tb :: r => match assoc_last t tb with Some a => Some a | None => lookup_layers r t end
  end.
Definition res_lookup (g : graph) (t : string) : option addr :=
  lookup_layers (map real_res g ++ map fi_res g) t.

(* ---------------------------------------------------------------- the address graph *)
(* Field.add_to_address_allowlist: message, enum, resource reference resolved through the table *)
Definition field_targets (g : graph) (f : field) : list addr :=
  opt_list (f_msg f) ++ opt_list (f_enum f) ++
  match f_ref f with
  | Some t => opt_list (res_lookup g t)
  | None => []
  end.
(* MessageType.add_to_address_allowlist, below the visited test: fields, nested enums, nested messages *)
Definition msg_targets (g : graph) (m : msg) : list addr :=
  flat_map (field_targets g) (m_fields m) ++ m_enums m ++ map m_addr (m_nested m).
(* enums, services, methods and unknown names have no successors (EnumType.add_to_address_allowlist only adds) *)
Definition succ (g : graph) (a : addr) : list addr :=
  match find_msg g a with Some m => msg_targets g m | None => [] end.

(* the declared types of the fields of a message: what the emitted class body names *)
Definition type_refs (m : msg) : list addr :=
  flat_map (fun f => opt_list (f_msg f) ++ opt_list (f_enum f)) (m_fields m).

Section Traversal.
  Variable next : addr -> list addr.

  (* MessageType.add_to_address_allowlist as a visited-set traversal with an explicit stack:
     "if self.ident not in address_allowlist: add; visit the targets in order".
     The inner recursion (on the stack) discards addresses already visited; the outer one (on n)
     is spent only when a new address is added, so n bounds the number of distinct addresses. *)
  Fixpoint dfs (n : nat) : list addr -> list addr -> option (list addr) :=
    fix go (todo seen : list addr) {struct todo} : option (list addr) :=
      match todo with
      | [] => Some seen
      | a :: rest =>
          if mem a seen then go rest seen
          else match n with
               | O => None
               | S n' => dfs n' (next a ++ rest) (a :: seen)
               end
      end.

  Inductive reach : addr -> addr -> Prop :=
  | reach_refl : forall a, reach a a
  | reach_step : forall a b c, reach a b -> In c (next b) -> reach a c.
End Traversal.

(* ---------------------------------------------------------------- roots of a listed method *)
Inductive err := ERecursion | EMissingService | ENoPolling | EFuel.
Inductive res (A : Type) := Ok (x : A) | Err (e : err).
Arguments Ok {A} x.
Arguments Err {A} e.

Definition find_svc (svcs : list service) (n : string) : option service :=
  find (fun s => String.eqb (s_name s) n) svcs.
Definition remove_svc (n : string) (svcs : list service) : list service :=
  filter (fun s => negb (String.eqb (s_name s) n)) svcs.
(* Service.operation_polling_method: the first polling method *)
Definition polling_of (s : service) : option method := find me_polling (s_methods s).

(* Method.add_to_address_allowlist as the list of addresses it adds or starts a message traversal
   from, in the order of the code: own ident, LRO response and metadata types, then for an extended
   operation the operation service, its polling method (recursively, and WITHOUT a visited test in the
   code), the polling request type and the operation type, finally input and output.
   [avail] holds the services of the file not yet on the polling chain: when the chain returns to a
   service, the code recurses without bound (RecursionError).  [fuel] only exists to make the recursion
   structural; with fuel >= length avail the fuel test is never the one that fails (Proofs: expand_fuel). *)
Fixpoint expand (fuel : nat) (avail all : list service) (m : method) : res (list addr) :=
  let lro := match me_lro m with Some (r, d) => [r; d] | None => [] end in
  let tail := [me_input m; me_output m] in
  match me_ext m, negb (String.eqb (me_opsvc m) "") with
  | Some (rq, op), true =>
      match find_svc all (me_opsvc m) with
      | None => Err EMissingService
      | Some s =>
          match polling_of s with
          | None => Err ENoPolling
          | Some p =>
              if negb (mem (s_name s) (map s_name avail)) then Err ERecursion
              else match fuel with
                   | O => Err ERecursion
                   | S fuel' =>
                       match expand fuel' (remove_svc (s_name s) avail) all p with
                       | Err e => Err e
                       | Ok l => Ok (me_addr m :: lro ++ s_addr s :: l ++ [rq; op] ++ tail)
                       end
                   end
          end
      end
  | _, _ => Ok (me_addr m :: lro ++ tail)
  end.

(* Service.add_to_address_allowlist for one method whose selector is listed *)
Definition method_roots (svcs : list service) (s : service) (m : method) : res (list addr) :=
  match expand (length svcs) svcs svcs m with
  | Ok l => Ok (s_addr s :: l)
  | Err e => Err e
  end.

Fixpoint seq_res {A} (l : list (res (list A))) : res (list A) :=
  match l with
  | [] => Ok []
  | Ok x :: l' => match seq_res l' with Ok y => Ok (x ++ y) | Err e => Err e end
  | Err e :: _ => Err e
  end.

Definition listed (sel : list string) (m : method) : bool := mem (me_addr m) sel.

(* Proto.add_to_address_allowlist over api.protos *)
Definition file_roots (sel : list string) (f : file) : res (list addr) :=
  seq_res (flat_map (fun s => map (method_roots (fi_svcs f) s) (filter (listed sel) (s_methods s))) (fi_svcs f)).
Definition roots (g : graph) (sel : list string) : res (list addr) :=
  seq_res (map (file_roots sel) (filter fi_target g)).

(* every address the traversal can ever meet *)
Definition universe (g : graph) (rs : list addr) : list addr :=
  rs ++ map m_addr (table g) ++ flat_map (msg_targets g) (table g).

(* the traversal from the roots of the listed methods (Proto.add_to_address_allowlist over api.protos) *)
Definition allowlist0 (g : graph) (sel : list string) : res (list addr) :=
  match roots g sel with
  | Err e => Err e
  | Ok rs => match dfs (succ g) (length (universe g rs)) rs [] with
             | Some s => Ok s
             | None => Err EFuel          (* never: Proofs.allowlist_total *)
             end
  end.

(* everything declared strictly inside a message: nested enums, nested messages and what they contain *)
Fixpoint rendered_from (m : msg) : list addr :=
  match m with Msg a _ es ns => a :: es ++ flat_map rendered_from ns end.
Definition desc (m : msg) : list addr := m_enums m ++ flat_map rendered_from (m_nested m).

(* API.build, has_allowlisted_descendant *)
Fixpoint has_desc (al : list addr) (m : msg) : bool :=
  match m with
  | Msg _ _ es ns => existsb (fun e => mem e al) es || existsb (fun n => mem (m_addr n) al || has_desc al n) ns
  end.

(* proto.messages of api.protos, in order: the top-level messages the closing loop looks at *)
Definition tops (g : graph) : list msg := flat_map fi_msgs (filter fi_target g).

(* one sweep of the "while changed" loop of API.build: a top-level message that is not allow-listed
   but has an allow-listed descendant is traversed (MessageType.add_to_address_allowlist on the
   SAME set, so later messages of the sweep see the additions); the flag is "changed" *)
Fixpoint close_pass (g : graph) (n : nat) (ts : list msg) (al : list addr) : option (list addr * bool) :=
  match ts with
  | [] => Some (al, false)
  | m :: rest =>
      if negb (mem (m_addr m) al) && has_desc al m then
        match dfs (succ g) n [m_addr m] al with
        | None => None
        | Some al1 => match close_pass g n rest al1 with
                      | None => None
                      | Some (al2, _) => Some (al2, true)
                      end
        end
      else close_pass g n rest al
  end.

(* the loop itself. Every sweep that changes something allow-lists a top-level message that was
   not, so k = 1 + number of top-level messages sweeps always suffice (Proofs.close_loop_total);
   running out of k is an error value, never a result *)
Fixpoint close_loop (g : graph) (n k : nat) (al : list addr) : option (list addr) :=
  match k with
  | O => None
  | S k' => match close_pass g n (tops g) al with
            | None => None
            | Some (al', false) => Some al'
            | Some (al', true) => close_loop g n k' al'
            end
  end.

(* the address allow-list API.build prunes with: traversal from the roots, then closed under
   outermost enclosing messages *)
Definition allowlist (g : graph) (sel : list string) : res (list addr) :=
  match roots g sel with
  | Err e => Err e
  | Ok rs =>
      let n := length (universe g rs) in
      match dfs (succ g) n rs [] with
      | None => Err EFuel                  (* never: Proofs.allowlist_total *)
      | Some al0 => match close_loop g n (S (length (tops g))) al0 with
                    | Some al => Ok al
                    | None => Err EFuel    (* never: Proofs.allowlist_total *)
                    end
      end
  end.

(* ---------------------------------------------------------------- the API after the third pass *)
Record omethod := mkOM { om : method; om_internal : bool }.
Record oservice := mkOS { os_name : string; os_addr : addr; os_methods : list omethod }.
Record ofile := mkOF {
  o_name : string;
  o_target : bool;
  o_msgs : list addr;        (* keys of Proto.all_messages *)
  o_enums : list addr;       (* keys of Proto.all_enums *)
  o_top : list msg;          (* Proto.messages: the members of all_messages without a parent *)
  o_top_enums : list addr;   (* Proto.enums *)
  o_svcs : list oservice
}.

Definition plain_svc (s : service) : oservice :=
  mkOS (s_name s) (s_addr s) (map (fun m => mkOM m false) (s_methods s)).
Definition full_ofile (f : file) : ofile :=
  mkOF (fi_name f) (fi_target f) (map m_addr (all_msgs f)) (all_enums f) (fi_msgs f) (fi_enums f)
       (map plain_svc (fi_svcs f)).

(* Service.prune_messages_for_selective_generation *)
Definition prune_svc (al : list addr) (s : service) : oservice :=
  mkOS (s_name s) (s_addr s)
       (map (fun m => mkOM m false) (filter (fun m => mem (me_addr m) al) (s_methods s))).
(* Proto.prune_messages_for_selective_generation: the replaced dataclass ... *)
Definition pruned (al : list addr) (f : file) : ofile :=
  mkOF (fi_name f) (fi_target f)
       (filter (fun a => mem a al) (map m_addr (all_msgs f)))
       (filter (fun a => mem a al) (all_enums f))
       (filter (fun m => mem (m_addr m) al) (fi_msgs f))
       (filter (fun a => mem a al) (fi_enums f))
       (map (prune_svc al) (filter (fun s => mem (s_addr s) al) (fi_svcs f))).
(* ... or None when no service, message or enum is left *)
Definition prune_file (al : list addr) (f : file) : option ofile :=
  let o := pruned al f in
  match o_svcs o, o_msgs o, o_enums o with
  | [], [], [] => None
  | _, _, _ => Some o
  end.

(* Method/Service/Proto.with_internal_methods *)
Definition internal_svc (pub : list string) (s : service) : oservice :=
  mkOS (s_name s) (s_addr s) (map (fun m => mkOM m (negb (mem (me_addr m) pub))) (s_methods s)).
Definition internal_file (pub : list string) (f : file) : ofile :=
  mkOF (fi_name f) (fi_target f) (map m_addr (all_msgs f)) (all_enums f) (fi_msgs f) (fi_enums f)
       (map (internal_svc pub) (fi_svcs f)).

(* naming of internal methods and clients *)
Definition svc_internal (s : oservice) : bool := existsb om_internal (os_methods s).
Definition client_name (s : oservice) : string :=
  ((if svc_internal s then "Base" else "") ++ os_name s ++ "Client")%string.
Definition async_client_name (s : oservice) : string :=
  ((if svc_internal s then "Base" else "") ++ os_name s ++ "AsyncClient")%string.
Definition make_private (n : string) : string := if starts_with "_" n then n else ("_" ++ n)%string.
Definition public_method_name (m : method) : string :=
  if mem_str (lower (me_name m)) kwlist then (me_name m ++ "_")%string else me_name m.
Definition client_method_name (m : omethod) : string :=
  if om_internal m then make_private (public_method_name (om m)) else public_method_name (om m).

(* ---------------------------------------------------------------- settings validation *)
Record libsetting := mkLS { ls_version : string; ls_methods : list string; ls_internal : bool }.
Inductive merr := MNotFound | MMismatch.
Inductive verr := VDup | VSel (l : list (string * merr)).

(* API.all_methods on the API before the third pass: every method of every service of api.protos *)
Definition all_methods (g : graph) : list string :=
  flat_map (fun f => flat_map (fun s => map me_addr (s_methods s)) (fi_svcs f)) (filter fi_target g).

Fixpoint method_errors (am : list string) (version : string) (ms : list string) : list (string * merr) :=
  match ms with
  | [] => []
  | m :: ms' =>
      (if negb (mem m am) then [(m, MNotFound)]
       else if negb (starts_with version m) then [(m, MMismatch)] else [])
      ++ method_errors am version ms'
  end.

(* API.enforce_valid_library_settings: the writes to all_errors in order (a later write to the same
   version replaces an earlier one; the exception is raised iff there was at least one write) *)
Fixpoint validate_aux (am seen : list string) (l : list libsetting) : list (string * verr) :=
  match l with
  | [] => []
  | s :: l' =>
      if mem (ls_version s) seen then (ls_version s, VDup) :: validate_aux am seen l'
      else match method_errors am (ls_version s) (ls_methods s) with
           | [] => validate_aux am (ls_version s :: seen) l'
           | bad => (ls_version s, VSel bad) :: validate_aux am (ls_version s :: seen) l'
           end
  end.
Definition validate (am : list string) (l : list libsetting) : list (string * verr) := validate_aux am [] l.

(* API.all_library_settings[package]: the dict comprehension keeps the last entry of a version *)
Definition setting_for (pkg : string) (l : list libsetting) : option libsetting :=
  assoc_last pkg (map (fun s => (ls_version s, s)) l).

(* ---------------------------------------------------------------- API.build, third pass *)
Inductive outcome :=
| Built (fs : list ofile)
| Rejected (e : list (string * verr))     (* ClientLibrarySettingsError *)
| Crashed (e : err).

Fixpoint keep_some {A} (l : list (option A)) : list A :=
  match l with [] => [] | Some x :: l' => x :: keep_some l' | None :: l' => keep_some l' end.

Definition deps_of (g : graph) : list ofile := map full_ofile (filter (fun f => negb (fi_target f)) g).

(* [pkg] is the target package computed by gapic.cli.generate; the model assumes it equals
   naming.proto_package (one target package), so that "package in api.all_library_settings" holds *)
Definition build (g : graph) (pkg : string) (l : list libsetting) : outcome :=
  match validate (all_methods g) l with
  | (_ :: _) as e => Rejected e
  | [] =>
      match setting_for pkg l with
      | None => Built (map full_ofile g)
      | Some s =>
          match ls_methods s with
          | [] => Built (map full_ofile g)
          | sel =>
              if ls_internal s then
                Built (deps_of g ++ map (internal_file sel) (filter fi_target g))
              else match allowlist g sel with
                   | Err e => Crashed e
                   | Ok al => Built (deps_of g ++ keep_some (map (prune_file al) (filter fi_target g)))
                   end
          end
      end
  end.

(* ---------------------------------------------------------------- what the templates render *)
(* types/_message.py.j2 recurses through message.nested_messages / nested_enums of the OBJECT,
   starting from proto.messages and proto.enums; the allow-list is not consulted again.
   (map-entry messages are rendered as the MapField of their parent; they count as rendered.) *)
Definition rendered_file (o : ofile) : list addr := o_top_enums o ++ flat_map rendered_from (o_top o).
Definition rendered (out : list ofile) : list addr := flat_map rendered_file (filter o_target out).
(* the message declarations that are rendered (as tree nodes) *)
Definition rendered_nodes (out : list ofile) : list msg :=
  flat_map (fun o => flat_map flat (o_top o)) (filter o_target out).
(* types declared by the target files of the input *)
Definition target_types (g : graph) : list addr :=
  flat_map (fun f => map m_addr (all_msgs f) ++ all_enums f) (filter fi_target g).
(* (declaration, type) pairs such that a rendered declaration names a target type that is not rendered *)
Definition dangling (g : graph) (out : list ofile) : list (addr * addr) :=
  flat_map (fun m => map (fun t => (m_addr m, t))
                         (filter (fun t => mem t (target_types g) && negb (mem t (rendered out))) (type_refs m)))
           (rendered_nodes out).

(* unique addresses: looking an address of the table up gives the node back (what protoc guarantees) *)
Definition wf_table (g : graph) : Prop := forall m, In m (table g) -> find_msg g (m_addr m) = Some m.
Fixpoint nodupb (l : list string) : bool :=
  match l with [] => true | a :: l' => negb (mem a l') && nodupb l' end.
(* decidable sufficient condition evaluated by the harness on every generated graph *)
Definition wf_tableb (g : graph) : bool := nodupb (map m_addr (table g)).

(* ---------------------------------------------------------------- helpers for the correspondence checks *)
Definition subsetb (l1 l2 : list string) : bool := forallb (fun a => mem a l2) l1.
Definition set_eqb (l1 l2 : list string) : bool := subsetb l1 l2 && subsetb l2 l1.
Definition err_code (e : err) : string :=
  match e with ERecursion => "RecursionError" | EMissingService => "KeyError" | ENoPolling => "AttributeError" | EFuel => "fuel" end.
Definition find_ofile (out : list ofile) (n : string) : option ofile := find (fun o => String.eqb (o_name o) n) out.
Definition svc_view (s : oservice) : string * list string := (os_addr s, map (fun m => me_name (om m)) (os_methods s)).
Definition merr_code (e : merr) : string := match e with MNotFound => "notfound" | MMismatch => "mismatch" end.
(* the final content of the all_errors dict for one version: "dup", or the method -> reason map *)
Definition verr_view (e : verr) : list (string * string) :=
  match e with VDup => [("", "dup")] | VSel l => map (fun p => (fst p, merr_code (snd p))) l end.
Definition pairs_subsetb (l1 l2 : list (string * string)) : bool :=
  forallb (fun p => existsb (fun q => String.eqb (fst p) (fst q) && String.eqb (snd p) (snd q)) l2) l1.
Definition pairs_set_eqb (l1 l2 : list (string * string)) : bool := pairs_subsetb l1 l2 && pairs_subsetb l2 l1.
