(* Model/Mock.v — C13: the sample request values the emitted REST tests are built from
   (gapic/utils/uri_sample.py sample_from_path_fields; wrappers.HttpRule.sample_request for string fields):
   every wildcard of a path template is replaced by the next name sample1, sample2, ...
   Templates are modelled as lists of '/'-separated segments.  Definitions only. *)
From GV Require Import Base.Str.

Inductive seg := SLit (s : string) | SStar | SDStar.

(* decimal rendering of the counter, as "sample{}".format(n) prints it *)
Definition digit (n : nat) : ascii := chr (48 + N.of_nat n).
Fixpoint dec_aux (fuel n : nat) (acc : string) : string :=
  match fuel with
  | O => acc
  | S f => let acc' := String (digit (n mod 10)) acc in
           if Nat.ltb n 10 then acc' else dec_aux f (n / 10) acc'
  end.
Definition dec (n : nat) : string := dec_aux (S n) n "".
Definition sample_name (n : nat) : string := "sample" ++ dec n.

(* instantiate counter template = (segments of the sample value, next counter) *)
Fixpoint instantiate (k : nat) (t : list seg) : list string * nat :=
  match t with
  | [] => ([], k)
  | SLit s :: t' => let '(r, k') := instantiate k t' in (s :: r, k')
  | SStar :: t' => let '(r, k') := instantiate (S k) t' in (sample_name (S k) :: r, k')
  | SDStar :: t' => let '(r, k') := instantiate (S k) t' in (sample_name (S k) :: r, k')
  end.
Definition sample_value (k : nat) (t : list seg) : string := sjoin "/" (fst (instantiate k t)).

(* google.api.http path-template matching on segments: a literal matches itself, a star one non-empty segment,
   a double star any number of segments (path_template.validate turns them into [^/]+ and .+ style regexes) *)
Definition seg_ok (s : string) : bool := negb (is_empty s) && negb (contains "/"%char s).
Fixpoint matches (t : list seg) (v : list string) : bool :=
  match t with
  | [] => match v with [] => true | _ => false end
  | SLit s :: t' => match v with x :: v' => String.eqb x s && matches t' v' | [] => false end
  | SStar :: t' => match v with x :: v' => seg_ok x && matches t' v' | [] => false end
  | SDStar :: t' =>
      (fix any (v : list string) : bool :=
         matches t' v || match v with x :: v' => seg_ok x && any v' | [] => false end) v
  end.

(* several path fields of one rule share the counter, in order *)
Fixpoint sample_fields (k : nat) (fields : list (string * list seg)) : list (string * string) :=
  match fields with
  | [] => []
  | (name, t) :: fs => let '(r, k') := instantiate k t in (name, sjoin "/" r) :: sample_fields k' fs
  end.

(* ---- HttpRule.sample_request: typed path fields ----
   a string field gets the instantiated template (the counter advances once per wildcard); any other primitive gets
   Field.mock_value_original_type: int = sum of the code points of the (possibly suffixed) attribute name, bool = True *)
Inductive pkind := PStr | PInt | PBool.
Inductive pval := VS (s : string) | VI (n : nat) | VB (b : bool).
Fixpoint name_sum (s : string) : nat :=
  match s with EmptyString => 0 | String c s' => N.to_nat (ord c) + name_sum s' end.

Fixpoint sample_typed (k : nat) (fields : list (string * string * pkind * list seg)) : list (string * pval) :=
  match fields with
  | [] => []
  | (path, attr, kind, t) :: fs =>
      match kind with
      | PStr => let '(r, k') := instantiate k t in (path, VS (sjoin "/" r)) :: sample_typed k' fs
      | PInt => (path, VI (name_sum attr)) :: sample_typed k fs
      | PBool => (path, VB true) :: sample_typed k fs
      end
  end.

(* how the value is written into the URL (str(value)) *)
Definition render (v : pval) : list string :=
  match v with
  | VS s => split_on "/"%char s
  | VI n => [dec n]
  | VB b => [if b then "True" else "False"]
  end.
