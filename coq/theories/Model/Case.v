(* Model/Case.v — shared by C11 and C15: gapic/utils/case.py: to_snake_case, gapic/utils/filename.py:
   to_valid_filename / to_valid_module_name, Python's str.capitalize on ASCII.  Definitions only.
   The regex literals this file was written against are pinned in Proofs/Case.v against Gen/CaseGen.v (T0). *)
From GV Require Import Base.Str.

(* one pass of  re.sub(<zero-width lookbehind> (<one char>) <zero-width lookahead>, "_\1", s):
   the test sees the previous character of the pass input, the character, and the rest *)
Fixpoint ins_pass (test : option ascii -> ascii -> string -> bool) (prev : option ascii) (s : string) : string :=
  match s with
  | EmptyString => EmptyString
  | String c s' =>
      if test prev c s' then String "_"%char (String c (ins_pass test (Some c) s'))
      else String c (ins_pass test (Some c) s')
  end.

Definition prev_is (f : ascii -> bool) (p : option ascii) : bool :=
  match p with Some a => f a | None => false end.
Definition next_is (f : ascii -> bool) (s : string) : bool :=
  match s with String a _ => f a | EmptyString => false end.
(* Python's "$" without MULTILINE: at the end, or just before one final newline *)
Definition at_dollar (s : string) : bool :=
  match s with EmptyString => true | String a EmptyString => Ascii.eqb a nl | _ => false end.

(* (?<=[a-z])([A-Z]) *)
Definition t1 (p : option ascii) (c : ascii) (_ : string) : bool := prev_is is_lower p && is_upper c.
(* (?<=[^_])([A-Z])(?=[a-z]) — the lookbehind needs some character, any but the underscore *)
Definition t2 (p : option ascii) (c : ascii) (r : string) : bool :=
  prev_is (fun a => negb (Ascii.eqb a "_"%char)) p && is_upper c && next_is is_lower r.
(* (?<=[a-z])(\d)(?=[A-Z]{2}) *)
Definition t3 (p : option ascii) (c : ascii) (r : string) : bool :=
  prev_is is_lower p && is_digit c &&
  match r with String a (String b _) => is_upper a && is_upper b | _ => false end.
(* (?<=[a-z])(\d)(?=[A-Z]$) *)
Definition t4 (p : option ascii) (c : ascii) (r : string) : bool :=
  prev_is is_lower p && is_digit c &&
  match r with String a r' => is_upper a && at_dollar r' | _ => false end.

Definition snake (s : string) : string :=
  lower (ins_pass t4 None (ins_pass t3 None (ins_pass t2 None (ins_pass t1 None s)))).

(* to_valid_filename: lower-case, then every maximal run of characters outside [a-z0-9.$_-] becomes one "-" *)
Definition fn_ok (c : ascii) : bool :=
  is_lower c || is_digit c || Ascii.eqb c "."%char || Ascii.eqb c "$"%char || Ascii.eqb c "_"%char || Ascii.eqb c "-"%char.
Fixpoint runs_to_dash (inrun : bool) (s : string) : string :=
  match s with
  | EmptyString => EmptyString
  | String c s' =>
      if fn_ok c then String c (runs_to_dash false s')
      else if inrun then runs_to_dash true s' else String "-"%char (runs_to_dash true s')
  end.
Definition valid_filename (s : string) : string := runs_to_dash false (lower s).
Definition valid_module (s : string) : string :=
  smap (fun c => if Ascii.eqb c "-"%char then "_"%char else c) (valid_filename s).

(* str.capitalize() on ASCII *)
Definition capitalize (s : string) : string :=
  match s with EmptyString => EmptyString | String c s' => String (to_upper c) (lower s') end.

(* the identifier class every theorem about emitted names is stated for: non-empty, [a-z0-9_] only *)
Definition word_char (c : ascii) : bool := is_lower c || is_digit c || Ascii.eqb c "_"%char.
Definition is_wordb (s : string) : bool := negb (is_empty s) && sall word_char s.

(* Naming.module_name / versioned_module_name (NewNaming: name_version; OldNaming: name.version) *)
Definition versioned_module (old_naming : bool) (name version : string) : string :=
  valid_module name ++ (if is_empty version then "" else (if old_naming then "." else "_") ++ version).
