(* Model/FixWs.v — C20: gapic/generator/formatter.py: fix_whitespace.
     code = re.sub(r"[ ]+\n", "\n", code)
     code = re.sub(r"\s+\n\s*\n\s*\n(class|def|@|#|_)", r"\n\n\n\1", code)
     code = re.sub(r"\s+\n\s*\n((    )+)(\w|_|@|#)", r"\n\n\1\3", code)
     return f"{code.rstrip()}\n"
   The three regexes are written with continuation-passing combinators whose evaluation order IS
   Python's backtracking order (greedy repetition tries the longest repetition first and gives
   characters back one at a time; alternatives are tried left to right; the first overall success
   wins).  re.sub is the leftmost, non-overlapping scan.  ASCII text only (DESIGN 4.1): \s is
   is_pyspace, \w is is_word.  Definitions only. *)
From GV Require Import Base.Str.

Section Rx.
  Variable R : Type.
  Definition K := string -> option R.

  (* p* greedy *)
  Fixpoint star (p : ascii -> bool) (k : K) (s : string) : option R :=
    match s with
    | String c s' =>
        if p c then match star p k s' with Some r => Some r | None => k s end else k s
    | EmptyString => k s
    end.
  (* p+ greedy *)
  Definition plus (p : ascii -> bool) (k : K) (s : string) : option R :=
    match s with
    | String c s' => if p c then star p k s' else None
    | EmptyString => None
    end.
  (* one literal character *)
  Definition lit (a : ascii) (k : K) (s : string) : option R :=
    match s with
    | String c s' => if Ascii.eqb c a then k s' else None
    | EmptyString => None
    end.
  (* one character of a class, captured *)
  Definition cls (p : ascii -> bool) (k : ascii -> K) (s : string) : option R :=
    match s with
    | String c s' => if p c then k c s' else None
    | EmptyString => None
    end.
  (* (w1|w2|...) captured, alternatives in order *)
  Fixpoint alts (l : list string) (k : string -> K) (s : string) : option R :=
    match l with
    | [] => None
    | w :: l' =>
        match (match strip_prefix w s with Some rest => k w rest | None => None end) with
        | Some r => Some r
        | None => alts l' k s
        end
    end.
  (* ((    )+) greedy; the continuation receives the number of four-space groups matched *)
  Fixpoint plus4 (n : nat) (k : nat -> K) (s : string) : option R :=
    match s with
    | String c1 (String c2 (String c3 (String c4 s'))) =>
        if Ascii.eqb c1 sp && Ascii.eqb c2 sp && Ascii.eqb c3 sp && Ascii.eqb c4 sp then
          match plus4 (S n) k s' with Some r => Some r | None => k (S n) s' end
        else None
    | _ => None
    end.
End Rx.
Arguments star {R}. Arguments plus {R}. Arguments lit {R}. Arguments cls {R}.
Arguments alts {R}. Arguments plus4 {R}.

Fixpoint rep (n : nat) (c : ascii) : string :=
  match n with O => EmptyString | S n' => String c (rep n' c) end.

Definition is_space (c : ascii) : bool := Ascii.eqb c sp.
Definition nl1 : string := s1 nl.
Definition nl2 : string := String nl nl1.
Definition nl3 : string := String nl nl2.

(* a match at the head of the text: (expanded replacement template, text after the match) *)
Definition mres := (string * string)%type.
Definition matcher := string -> option mres.

(* [ ]+\n   ->   \n *)
Definition m1 : matcher :=
  plus is_space (lit nl (fun rest => Some (nl1, rest))).

(* \s+\n\s*\n\s*\n(class|def|@|#|_)   ->   \n\n\n\1 *)
Definition kw2 : list string := ["class"; "def"; "@"; "#"; "_"].
Definition m2 : matcher :=
  plus is_pyspace (lit nl (star is_pyspace (lit nl (star is_pyspace (lit nl
    (alts kw2 (fun w rest => Some (nl3 ++ w, rest)))))))).

(* \s+\n\s*\n((    )+)(\w|_|@|#)   ->   \n\n\1\3 *)
Definition is_c3 (c : ascii) : bool :=
  is_word c || Ascii.eqb c "_"%char || Ascii.eqb c "@"%char || Ascii.eqb c "#"%char.
Definition m3 : matcher :=
  plus is_pyspace (lit nl (star is_pyspace (lit nl
    (plus4 0 (fun n => cls is_c3 (fun c rest => Some (nl2 ++ rep (4 * n) sp ++ s1 c, rest))))))).

(* re.sub(m, template, s): try a match at the current position; on success emit the replacement
   and resume after the match, otherwise copy one character.  [skip] counts characters of a match
   still to be passed over (all three regexes only match non-empty text). *)
Fixpoint sub_aux (m : matcher) (skip : nat) (s : string) : string :=
  match s with
  | EmptyString => EmptyString
  | String c s' =>
      match skip with
      | S k => sub_aux m k s'
      | O =>
          match m s with
          | Some (repl, rest) => repl ++ sub_aux m (String.length s' - String.length rest) s'
          | None => String c (sub_aux m 0 s')
          end
      end
  end.
Definition re_sub (m : matcher) (s : string) : string := sub_aux m 0 s.

(* str.rstrip() *)
Fixpoint rstrip_ws (s : string) : string :=
  match s with
  | EmptyString => EmptyString
  | String c s' =>
      let t := rstrip_ws s' in
      if is_empty t && is_pyspace c then EmptyString else String c t
  end.

Definition fix_whitespace (code : string) : string :=
  rstrip_ws (re_sub m3 (re_sub m2 (re_sub m1 code))) ++ nl1.

(* ---- vocabulary of the theorems ---- *)

(* the non-blank lines of a text, each right-stripped: the line under construction is [cur] *)
Definition emit (cur : string) : list string :=
  if is_empty (rstrip_ws cur) then [] else [rstrip_ws cur].
Fixpoint nb_acc (cur : string) (s : string) : list string :=
  match s with
  | EmptyString => emit cur
  | String c s' =>
      if Ascii.eqb c nl then emit cur ++ nb_acc EmptyString s'
      else nb_acc (cur ++ s1 c) s'
  end.
Definition nonblank_lines (s : string) : list string := nb_acc EmptyString s.

Definition all_ascii (s : string) : bool := sall (fun c => N.ltb (ord c) 128) s.
