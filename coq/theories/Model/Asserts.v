(* Model/Asserts.v -- C13: how the emitted tests compare each scalar field of a response with its mock value
   (test_macros.j2: the ladder on field.field_pb.type and field.repeated, three copies: sync, asyncio, REST).
   Types are FieldDescriptorProto.Type numbers: 1 double, 2 float, 3 int64, 4 uint64, 5 int32, 6 fixed64, 7 fixed32,
   8 bool, 9 string, 12 bytes, 13 uint32, 14 enum, 15 sfixed32, 16 sfixed64, 17 sint32, 18 sint64
   (10 group and 11 message never reach the ladder: the loop rejects message fields). *)
From Coq Require Import List Bool Arith.
Import ListNotations.

Inductive aform := AIsClose | AIsCloseEach | AIs | AEq.
Definition aform_eqb (a b : aform) : bool :=
  match a, b with
  | AIsClose, AIsClose | AIsCloseEach, AIsCloseEach | AIs, AIs | AEq, AEq => true
  | _, _ => false
  end.

Definition is_float_type (ty : nat) : bool := Nat.eqb ty 1 || Nat.eqb ty 2.
Definition assert_form (ty : nat) (repeated : bool) : aform :=
  if is_float_type ty then (if repeated then AIsCloseEach else AIsClose)
  else if Nat.eqb ty 8 && negb repeated then AIs
  else AEq.

Definition SCALAR_TYPES : list nat := [1; 2; 3; 4; 5; 6; 7; 8; 9; 12; 13; 14; 15; 16; 17; 18].
Definition is_number_type (ty : nat) : bool := negb (Nat.eqb ty 9 || Nat.eqb ty 12) && existsb (Nat.eqb ty) SCALAR_TYPES.

(* When does a comparison form succeed on a correct library, i.e. when the response field holds what the fake server
   returned (the mock value), given what Python guarantees about the two objects:
   - `is`: only the two bool constants are guaranteed to be identical objects; a repeated field is a fresh container;
   - `==`: exact equality; a float (type 2) field went through 32 bits and need not equal the double literal any more;
   - math.isclose(a, b): needs two numbers;
   - the indexed loop needs a sequence of numbers. *)
Definition holds (f : aform) (ty : nat) (repeated : bool) : bool :=
  match f with
  | AIs => Nat.eqb ty 8 && negb repeated
  | AEq => negb (Nat.eqb ty 2)
  | AIsClose => is_number_type ty && negb repeated
  | AIsCloseEach => is_number_type ty && repeated
  end.

(* the ladder with the bool arm not guarded by `not repeated` (a recorded regression) *)
Definition assert_form_unguarded_bool (ty : nat) (repeated : bool) : aform :=
  if is_float_type ty then (if repeated then AIsCloseEach else AIsClose)
  else if Nat.eqb ty 8 then AIs
  else AEq.
