(* Model/Http.v — C04: REST transcoding per google.api.http, as the generator and the emitted transport do it.
   Mirrors (code as it is, defects included):
     gapic/schema/wrappers.py   HttpRule.try_parse_http_rule, Method.http_options / http_opt / path_params /
                                query_params, MessageType.required_fields, Field.name, Field.type (python_type)
     gapic/utils/uri_conv.py    convert_uri_fieldnames            gapic/utils/case.py  to_camel_case
     templates .../transports/rest_base.py.j2   __REQUIRED_FIELDS_DEFAULT_VALUES, _get_http_options,
                                _get_transcoded_request, _get_request_body_json, _get_query_params_json
     templates .../_shared_macros.j2            http_options_method, rest_call_method_common, response_method
     templates .../transports/rest.py.j2        __call__ (NotImplementedError branch)
   Contracts about code outside /repo (validated by T2 on every run):
     google.api_core.path_template  _VARIABLE_RE on the google.api.http template grammar, expand, validate,
                                    get_field, delete_field, transcode
     google.api_core.rest_helpers.flatten_query_params (strict), json_format.MessageToJson (lowerCamel names,
                                    enums by name or by number), protobuf ToJsonName, dict.update
   Definitions only. *)
From GV Require Import Base.Str Gen.Kw Model.Reserved Model.Case Model.HttpValues.

(* ------------------------------------------------------------------ schema of one method *)
Record field := mkField {
  f_name : string;        (* name in the .proto *)
  f_type : N;             (* FieldDescriptorProto.Type number: 1 double .. 9 string, 11 message, 12 bytes, 14 enum .. *)
  f_repeated : bool;
  f_required : bool       (* google.api.field_behavior = REQUIRED *)
}.
(* the `pattern` oneof of google.api.HttpRule *)
Inductive pattern := PNone | PCustom | PVerb (verb uri : string).
Record rule := mkRule { r_pat : pattern; r_body : string }.
Record method := mkMethod {
  m_fields : list field;            (* fields of the request message, declaration order *)
  m_rule : rule;                    (* the google.api.http option itself (all-empty when absent) *)
  m_more : list rule;               (* its additional_bindings *)
  m_client_streaming : bool
}.

(* ------------------------------------------------------------------ URI templates
   path_template._VARIABLE_RE.finditer on a template of the google.api.http grammar: literal text and
   {field.path} / {field.path=segments} variables (no nested braces, no wildcard outside a variable). *)
Inductive utok := ULit (s : string) | UVar (name : string) (tmpl : option string).

Fixpoint cut_eq_acc (s acc : string) : string * option string :=
  match s with
  | EmptyString => (srev acc, None)
  | String a s' => if Ascii.eqb a "="%char then (srev acc, Some s') else cut_eq_acc s' (String a acc)
  end.
(* "name=template" -> (name, Some template); "name" -> (name, None) *)
Definition cut_eq (s : string) : string * option string := cut_eq_acc s EmptyString.
Definition mk_var (content : string) : utok := let '(n, t) := cut_eq content in UVar n t.
Definition flush (lit : string) (rest : list utok) : list utok :=
  if is_empty lit then rest else ULit (srev lit) :: rest.

(* [lit]: reversed literal text collected so far; [inb]: reversed text since an open brace *)
Fixpoint utoks_aux (s lit : string) (inb : option string) : list utok :=
  match s with
  | EmptyString =>
      match inb with
      | None => flush lit []
      | Some c => flush (c ++ "{" ++ lit) []          (* brace never closed: the regex finds no variable *)
      end
  | String a s' =>
      match inb with
      | None => if Ascii.eqb a "{"%char then flush lit (utoks_aux s' EmptyString (Some EmptyString))
                else utoks_aux s' (String a lit) None
      | Some c => if Ascii.eqb a "}"%char then mk_var (srev c) :: utoks_aux s' EmptyString None
                  else utoks_aux s' lit (Some (String a c))
      end
  end.
Definition utoks (uri : string) : list utok := utoks_aux uri EmptyString None.

Definition var_names (ts : list utok) : list string :=
  flat_map (fun t => match t with UVar n _ => [n] | ULit _ => [] end) ts.

(* the class of templates the model is stated for (google/api/http.proto grammar, URL-safe literals) *)
Definition lit_char_ok (c : ascii) : bool :=
  is_alnum c || existsb (Ascii.eqb c) ["/"; "-"; "_"; "."; "~"; ":"]%char.
Definition ident_ok (s : string) : bool := negb (is_empty s) && sall is_word s.
Definition tok_ok (t : utok) : bool :=
  match t with
  | ULit s => sall lit_char_ok s
  | UVar n None => forallb ident_ok (split_on "."%char n)
  | UVar n (Some t) => forallb ident_ok (split_on "."%char n) && negb (is_empty t)
                       && sall (fun c => lit_char_ok c || Ascii.eqb c "*"%char) t
  end.
Definition wf_uri (uri : string) : bool := forallb tok_ok (utoks uri).

(* uri_conv.convert_uri_fieldnames: every component of every variable name gets the reserved-word suffix *)
Definition fix_tok (t : utok) : utok :=
  match t with ULit s => ULit s | UVar n tm => UVar (fix_path n) tm end.
Definition render_tok (t : utok) : string :=
  match t with
  | ULit s => s
  | UVar n None => "{" ++ n ++ "}"
  | UVar n (Some tm) => "{" ++ n ++ "=" ++ tm ++ "}"
  end.
Definition render_uri (ts : list utok) : string := sconcat (map render_tok ts).
Definition convert_uri (uri : string) : string := render_uri (map fix_tok (utoks uri)).

(* ------------------------------------------------------------------ http_options *)
(* one entry of the emitted _get_http_options() list: 'method', 'uri', and 'body' when present *)
Record binding := mkBinding { b_method : string; b_uri : string; b_body : option string }.

Definition try_parse (r : rule) : option binding :=
  match r_pat r with
  | PVerb v u =>
      if is_empty u then None
      else Some (mkBinding v (convert_uri u)
                           (if is_empty (r_body r) then None else Some (body_attr (r_body r))))
  | PNone | PCustom => None
  end.

Fixpoint filter_map {A B} (f : A -> option B) (l : list A) : list B :=
  match l with
  | [] => []
  | a :: l' => match f a with Some b => b :: filter_map f l' | None => filter_map f l' end
  end.

Definition http_options (m : method) : list binding := filter_map try_parse (m_rule m :: m_more m).

(* rest_base.py.j2 / rest.py.j2: {% set body_spec = method.http_options[0].body %} — the FIRST binding decides
   whether a body is sent at all *)
Definition body_spec (m : method) : bool :=
  match http_options m with
  | b :: _ => match b_body b with Some s => negb (is_empty s) | None => false end
  | [] => false
  end.

(* ------------------------------------------------------------------ required-field defaults table *)
(* Method.path_params: re.findall(r"\{(\w+)(?:=.+?)?\}", http_opt["url"]) on the ORIGINAL url of the FIRST rule:
   only single-component variable names are found *)
Definition path_params (uri : string) : list string :=
  filter (fun n => negb (is_empty n) && sall is_word n) (var_names (utoks uri)).

(* Method.query_params: keys of input.fields (Field.name, i.e. suffixed) minus path params and the body name; the
   rule writes both with the proto names, so they get the reserved-word suffix before the subtraction
   (proto-plus request types; since c409a6e); empty when the body is the whole request *)
Definition query_params (m : method) : list string :=
  match r_pat (m_rule m) with
  | PVerb _ u =>
      let body := r_body (m_rule m) in
      if String.eqb body "*" then []
      else let params := map field_attr (path_params u ++ (if is_empty body then [] else [body]))%list in
           filter (fun k => negb (mem_str k params)) (map (fun f => field_attr (f_name f)) (m_fields m))
  | PNone | PCustom => []
  end.

(* utils.to_camel_case: re.split(r"[_-]", to_snake_case(s)); first item lower-cased, the others capitalised *)
Fixpoint split_by_acc (f : ascii -> bool) (s acc : string) : list string :=
  match s with
  | EmptyString => [srev acc]
  | String a s' => if f a then srev acc :: split_by_acc f s' EmptyString
                   else split_by_acc f s' (String a acc)
  end.
Definition split_by (f : ascii -> bool) (s : string) : list string := split_by_acc f s EmptyString.
Definition camel_case (s : string) : string :=
  match split_by (fun c => Ascii.eqb c "_"%char || Ascii.eqb c "-"%char) (snake s) with
  | [] => ""
  | x :: rest => lower x ++ sconcat (map capitalize rest)
  end.

(* the literal the template writes for one required field *)
Inductive dflt := DStr (s : string) | DEmpty | DInt | DFloat | DBool | DBytes.
Definition n_in (n : N) (l : list N) : bool := existsb (N.eqb n) l.
Definition dflt_of (t : N) : dflt :=
  if N.eqb t 9 then DStr ""                          (* "{{ default_value }}" : proto3 has none *)
  else if n_in t [11; 14]%N then DEmpty              (* message AND enum: {} *)
  else if n_in t [1; 2]%N then DFloat                (* float(0) *)
  else if N.eqb t 8 then DBool                       (* bool(0) *)
  else if N.eqb t 12 then DBytes                     (* bytes(0) = b'' *)
  else DInt.                                         (* int(0) *)

Definition required_defaults (m : method) : list (string * dflt) :=
  map (fun f => (camel_case (field_attr (f_name f)), dflt_of (f_type f)))
      (filter (fun f => f_required f && mem_str (field_attr (f_name f)) (query_params m)) (m_fields m)).

(* the dict is emitted only when the request message has required fields at all *)
Definition defaults_table (m : method) : option (list (string * dflt)) :=
  if existsb f_required (m_fields m) then Some (required_defaults m) else None.

(* ------------------------------------------------------------------ contract: path_template *)
(* the regular expression validate() builds from a template: literal characters (unescaped: "." is a wildcard),
   ([^/]+) for a variable without template or a "*", (.+) for "**" *)
Inductive rtok := RChar (c : ascii) | RSeg | RMulti.

Fixpoint tmpl_rtoks (t : string) : list rtok :=
  match t with
  | EmptyString => []
  | String a t' =>
      if Ascii.eqb a "*"%char then
        match t' with
        | String b t'' => if Ascii.eqb b "*"%char then RMulti :: tmpl_rtoks t'' else RSeg :: tmpl_rtoks t'
        | EmptyString => [RSeg]
        end
      else RChar a :: tmpl_rtoks t'
  end.
Fixpoint chars (s : string) : list ascii :=
  match s with EmptyString => [] | String a s' => a :: chars s' end.
Definition tok_rtoks (t : utok) : list rtok :=
  match t with
  | ULit s => map RChar (chars s)
  | UVar _ None => [RSeg]
  | UVar _ (Some tm) => tmpl_rtoks tm
  end.
Definition uri_rtoks (ts : list utok) : list rtok := flat_map tok_rtoks ts.

Definition lit_match (c a : ascii) : bool :=
  if Ascii.eqb c "."%char then negb (Ascii.eqb a nl) else Ascii.eqb c a.
(* Python's "$": at the end, or before one final newline *)
Definition at_end (s : string) : bool :=
  match s with EmptyString => true | String a EmptyString => Ascii.eqb a nl | _ => false end.

(* the matcher in continuation style: [k] judges what is left after the tokens *)
Fixpoint rmatchk (ts : list rtok) (k : string -> bool) (s : string) : bool :=
  match ts with
  | [] => k s
  | RChar c :: ts' => match s with String a s' => lit_match c a && rmatchk ts' k s' | EmptyString => false end
  | RSeg :: ts' =>
      (fix go (s : string) : bool :=
         match s with
         | EmptyString => false
         | String a s' => negb (Ascii.eqb a "/"%char) && (rmatchk ts' k s' || go s')
         end) s
  | RMulti :: ts' =>
      (fix go (s : string) : bool :=
         match s with
         | EmptyString => false
         | String a s' => negb (Ascii.eqb a nl) && (rmatchk ts' k s' || go s')
         end) s
  end.
(* re.match(pattern + "$", s) is not None *)
Definition rmatch (ts : list rtok) (s : string) : bool := rmatchk ts at_end s.
(* the whole string, nothing left (what "the value matches the sub-template" means in google.api.http) *)
Definition rmatch_exact (ts : list rtok) (s : string) : bool := rmatchk ts is_empty s.

(* attribute lookups on the pb message: the names in the emitted options are the SUFFIXED attribute names, the
   leaves carry the original proto names *)
Fixpoint var_exact (vs : list string) (p : path) : bool :=
  match vs, p with
  | [], [] => true
  | v :: vs', F n :: p' => String.eqb v (field_attr n) && var_exact vs' p'
  | _, _ => false
  end.
Fixpoint var_prefix (vs : list string) (p : path) : bool :=
  match vs, p with
  | [], _ => true
  | v :: vs', F n :: p' => String.eqb v (field_attr n) && var_prefix vs' p'
  | _, _ => false
  end.
Definition dotted (name : string) : list string := split_on "."%char name.

(* get_field(message, "a.b"): the value of the leaf, None when unset (unset and empty are both falsy) *)
Definition lookup (r : req) (name : string) : option string :=
  match find (fun l => var_exact (dotted name) (lpath l)) r with
  | Some l => Some (path_text (lval l))
  | None => None
  end.
Definition truthy (o : option string) : bool :=
  match o with Some s => negb (is_empty s) | None => false end.
(* expand(template, **path_args): str(value) for every variable (a falsy value makes the binding fail anyway) *)
Definition expand (ts : list utok) (r : req) : string :=
  sconcat (map (fun t => match t with
                         | ULit s => s
                         | UVar n _ => match lookup r n with Some s => s | None => "" end
                         end) ts).

Inductive bodykind := BNone | BAll | BField (attr : string).
Definition body_of (b : binding) : bodykind :=
  match b_body b with
  | None => BNone
  | Some s => if is_empty s then BNone else if String.eqb s "*" then BAll else BField s
  end.

(* a binding applies: the expanded uri validates against the whole template, every path variable is truthy,
   and a named body is an attribute of the message *)
Definition body_attr_ok (attrs : list string) (b : binding) : bool :=
  match body_of b with BField f => mem_str f attrs | _ => true end.
Definition applies (attrs : list string) (b : binding) (r : req) : bool :=
  let ts := utoks (b_uri b) in
  rmatch (uri_rtoks ts) (expand ts r)
  && forallb (fun n => truthy (lookup r n)) (var_names ts)
  && body_attr_ok attrs b.

(* delete_field for every path variable: ClearField of the named (possibly nested) field *)
Definition is_var_leaf (vars : list string) (l : leaf) : bool :=
  existsb (fun v => var_prefix (dotted v) (lpath l)) vars.
Definition head_is (attr : string) (l : leaf) : bool :=
  match head l with Some n => String.eqb attr (field_attr n) | None => false end.

Record transcoded := mkT {
  t_index : nat;                 (* which binding was taken *)
  t_method : string;
  t_uri : string;
  t_path : req;                  (* leaves consumed by path variables *)
  t_body : option req;           (* 'body' entry of the result, when the binding has one *)
  t_query : req                  (* 'query_params' *)
}.

Definition transcode_with (i : nat) (b : binding) (r : req) : transcoded :=
  let ts := utoks (b_uri b) in
  let vars := var_names ts in
  let lo := filter (fun l => negb (is_var_leaf vars l)) r in
  match body_of b with
  | BAll => mkT i (b_method b) (expand ts r) (filter (is_var_leaf vars) r) (Some lo) []
  | BField f => mkT i (b_method b) (expand ts r) (filter (is_var_leaf vars) r)
                    (Some (filter (head_is f) lo)) (filter (fun l => negb (head_is f l)) lo)
  | BNone => mkT i (b_method b) (expand ts r) (filter (is_var_leaf vars) r) None lo
  end.

Fixpoint transcode_from (i : nat) (attrs : list string) (opts : list binding) (r : req) : option transcoded :=
  match opts with
  | [] => None                                  (* ValueError: no binding matches *)
  | b :: opts' => if applies attrs b r then Some (transcode_with i b r)
                  else transcode_from (S i) attrs opts' r
  end.
Definition transcode := transcode_from 0.

(* ------------------------------------------------------------------ the emitted call path *)
Definition json_key (c : comp) : string :=
  match c with F n => to_json_name (field_attr n) | K k => k end.
(* the key the property wants: derived from the name in the .proto *)
Definition orig_key (c : comp) : string :=
  match c with F n => to_json_name n | K k => k end.

(* flatten_query_params(strict=True) of the JSON of a message: dotted lowerCamel key path, text value *)
Definition query_pairs (numeric : bool) (ls : req) : list (string * string) :=
  map (fun l => (sjoin "." (map json_key (lpath l)), json_text numeric (lval l))) ls.
(* the body JSON, flattened by the harness with the unit separator (code 31) between keys; [drop] = 1 when
   the body is one field (the JSON is that sub-message's own) *)
Definition usep : string := s1 (chr 31).
Definition body_pairs (numeric : bool) (drop : nat) (ls : req) : list (string * string) :=
  map (fun l => (sjoin usep (map json_key (skipn drop (lpath l))), json_text numeric (lval l))) ls.

Definition top_keys (ls : req) : list string :=
  flat_map (fun l => match lpath l with c :: _ => [json_key c] | [] => [] end) ls.
(* str() of the default literal as flatten_query_params(strict=True) renders it; {} flattens to nothing *)
Definition dflt_pairs (k : string) (d : dflt) : list (string * string) :=
  match d with
  | DStr s => [(k, s)]
  | DEmpty => []
  | DInt => [(k, "0")]
  | DFloat => [(k, "0.0")]
  | DBool => [(k, "false")]
  | DBytes => [(k, "b''")]
  end.
Definition unset_required (tbl : list (string * dflt)) (present : list string) : list (string * string) :=
  flat_map (fun kd => if mem_str (fst kd) present then [] else dflt_pairs (fst kd) (snd kd)) tbl.
Definition alt_pair : string * string := ("$alt", "json;enum-encoding=int").

Definition render_query (numeric : bool) (tbl : list (string * dflt)) (q : req) : list (string * string) :=
  (query_pairs numeric q ++ unset_required tbl (top_keys q) ++ (if numeric then [alt_pair] else []))%list.

Inductive err := NotImplemented | NoBinding | BodyKeyError | QueryRepeatedMessage.
Inductive outcome :=
  | Sent (verb uri : string) (query : list (string * string)) (body : option (list (string * string)))
  | Fail (e : err).

Definition attrs_of (m : method) : list string := map (fun f => field_attr (f_name f)) (m_fields m).
Definition drop_of (b : bodykind) : nat := match b with BField _ => 1 | _ => 0 end.

(* client.method(request) over the REST transport; [numeric] = the rest-numeric-enums option *)
Definition run (numeric : bool) (m : method) (r : req) : outcome :=
  let opts := http_options m in
  match opts with
  | [] => Fail NotImplemented
  | _ :: _ =>
    if m_client_streaming m then Fail NotImplemented else
    match transcode (attrs_of m) opts r with
    | None => Fail NoBinding
    | Some t =>
        let tbl := match defaults_table m with Some tb => tb | None => [] end in
        match body_spec m, t_body t with
        | true, None => Fail BodyKeyError               (* transcoded_request['body'] *)
        | sb, tb =>
            if existsb lrep (t_query t) then Fail QueryRepeatedMessage
            else
              let drop := match nth_error opts (t_index t) with Some b => drop_of (body_of b) | None => 0 end in
              Sent (t_method t) (t_uri t) (render_query numeric tbl (t_query t))
                   (match sb, tb with
                    | true, Some bl => Some (body_pairs numeric drop bl)
                    | _, _ => None
                    end)
        end
    end
  end.

(* _shared_macros.j2 response_method: the keyword arguments of the emitted getattr(session, method)(url, ...) call.
   [run] above is the request side of unary AND server-streaming methods alike: the streaming flag only adds
   stream=True on the synchronous transport (and changes how the reply is consumed); whether data=body is passed
   depends on the first binding's body alone. *)
Definition response_kwargs (body : bool) (is_async streaming : bool) : list string :=
  (["timeout"; "headers"; "params"] ++ (if body then ["data"] else [])
   ++ (if negb is_async && streaming then ["stream"] else []))%list.

(* ------------------------------------------------------------------ the specification side (google.api.http) *)
(* a path variable matches ITS OWN sub-template *)
Definition var_matches (r : req) (t : utok) : bool :=
  match t with
  | ULit _ => true
  | UVar n tm => match lookup r n with
                 | Some v => negb (is_empty v) && rmatch_exact (tok_rtoks (UVar n tm)) v
                 | None => false
                 end
  end.
Definition spec_applies (b : binding) (r : req) : bool := forallb (var_matches r) (utoks (b_uri b)).

(* a field counts as bound by the FIRST rule when its attribute name is the attribute name of a path variable of
   it or of its body, or the body is the whole request *)
Definition unbound_first (m : method) (f : field) : bool :=
  match r_pat (m_rule m) with
  | PVerb _ u =>
      let names := map field_attr (path_params u ++ [r_body (m_rule m)])%list in
      negb (String.eqb (r_body (m_rule m)) "*") && negb (mem_str (field_attr (f_name f)) names)
  | PNone | PCustom => false
  end.
Definition scalar_type (t : N) : bool := negb (n_in t [10; 11; 14]%N).
(* the lowerCamel key of the defaults table and protobuf's JSON name agree on the method's field names *)
Definition names_agree (m : method) : bool :=
  forallb (fun f => String.eqb (camel_case (field_attr (f_name f))) (to_json_name (field_attr (f_name f)))) (m_fields m).
(* a query key stands for (a part of) the top-level field whose JSON name is k *)
Definition key_under (k key : string) : bool := String.eqb key k || starts_with (k ++ ".") key.

(* ------------------------------------------------------------------ the URI half of the wire-name statement (definitions; proofs in Proofs/HttpUri.v) *)
(* what the printer may print so that the tokenizer reads it back: literals are non-empty, brace-free and never
   adjacent; names contain neither "=" nor a closing brace, templates no closing brace *)
Definition var_printable (n : string) (tm : option string) : bool :=
  negb (contains "="%char n) && negb (contains "}"%char n)
  && match tm with Some t => negb (contains "}"%char t) | None => true end.
Fixpoint printable (ts : list utok) : bool :=
  match ts with
  | [] => true
  | ULit s :: ts' => negb (is_empty s) && negb (contains "{"%char s)
                     && match ts' with ULit _ :: _ => false | _ => true end && printable ts'
  | UVar n tm :: ts' => var_printable n tm && printable ts'
  end.
Definition starts_lit (ts : list utok) : bool := match ts with ULit _ :: _ => true | _ => false end.

(* the value of the leaf whose attribute path is the component-wise suffixed ORIGINAL dotted name *)
Definition lookup_by (r : req) (comps : list string) : option string :=
  match find (fun l => var_exact (map field_attr comps) (lpath l)) r with
  | Some l => Some (path_text (lval l))
  | None => None
  end.
(* the ORIGINAL template with every variable replaced by that value *)
Definition expand_orig (ts : list utok) (r : req) : string :=
  sconcat (map (fun t => match t with
                         | ULit s => s
                         | UVar n _ => match lookup_by r (dotted n) with Some s => s | None => "" end
                         end) ts).

(* ... and when no name is a reserved word followed by an underscore (the only way two names share an attribute),
   "found under the suffixed attribute path" is "found under the original proto path" *)
Definition suffix_clash (n : string) : bool := existsb (fun w => String.eqb n (w ++ "_")) RESERVED_NAMES.
Definition path_clash_free (p : path) : bool :=
  forallb (fun c => match c with F n => negb (suffix_clash n) | K _ => true end) p.

(* lookup by the ORIGINAL proto path *)
Definition lookup_proto (r : req) (name : string) : option string :=
  match find (fun l => path_eqb (lpath l) (var_path name)) r with
  | Some l => Some (path_text (lval l))
  | None => None
  end.
Definition expand_proto (ts : list utok) (r : req) : string :=
  sconcat (map (fun t => match t with
                         | ULit s => s
                         | UVar n _ => match lookup_proto r n with Some s => s | None => "" end
                         end) ts).
Definition names_clash_free (ts : list utok) : bool :=
  forallb (fun t => match t with ULit _ => true | UVar n _ => forallb (fun c => negb (suffix_clash c)) (dotted n) end) ts.
Definition req_clash_free (r : req) : bool := forallb (fun l => path_clash_free (lpath l)) r.

(* ------------------------------------------------------------------ comparison helpers for the correspondence checks *)
Definition binding_eqb (a b : binding) : bool :=
  String.eqb (b_method a) (b_method b) && String.eqb (b_uri a) (b_uri b)
  && option_eqb String.eqb (b_body a) (b_body b).
Definition dflt_eqb (a b : dflt) : bool :=
  match a, b with
  | DStr x, DStr y => String.eqb x y
  | DEmpty, DEmpty | DInt, DInt | DFloat, DFloat | DBool, DBool | DBytes, DBytes => true
  | _, _ => false
  end.
Definition table_eqb (a b : option (list (string * dflt))) : bool :=
  option_eqb (list_eqb (pair_eqb String.eqb dflt_eqb)) a b.
Definition err_eqb (a b : err) : bool :=
  match a, b with
  | NotImplemented, NotImplemented | NoBinding, NoBinding | BodyKeyError, BodyKeyError
  | QueryRepeatedMessage, QueryRepeatedMessage => true
  | _, _ => false
  end.
Definition pairs_eqb (a b : list (string * string)) : bool := perm_eqb str_pair_eqb a b.
(* verb and uri exactly, query and body as multisets of (key path, text) *)
Definition outcome_eqb (a b : outcome) : bool :=
  match a, b with
  | Sent v1 u1 q1 b1, Sent v2 u2 q2 b2 =>
      String.eqb v1 v2 && String.eqb u1 u2 && pairs_eqb q1 q2 && option_eqb pairs_eqb b1 b2
  | Fail e1, Fail e2 => err_eqb e1 e2
  | _, _ => false
  end.

(* what path_template.transcode returns, in observable form: method, uri, body and query as (key path, text)
   multisets with enums by name; None = ValueError *)
Definition transcode_obs (attrs : list string) (opts : list binding) (r : req)
  : option (string * string * option (list (string * string)) * list (string * string)) :=
  match transcode attrs opts r with
  | None => None
  | Some t =>
      let drop := match nth_error opts (t_index t) with Some b => drop_of (body_of b) | None => 0 end in
      Some (t_method t, t_uri t,
            match t_body t with Some bl => Some (body_pairs false drop bl) | None => None end,
            body_pairs false 0 (t_query t))
  end.
Definition tobs_eqb (a b : option (string * string * option (list (string * string)) * list (string * string))) : bool :=
  match a, b with
  | None, None => true
  | Some (m1, u1, b1, q1), Some (m2, u2, b2, q2) =>
      String.eqb m1 m2 && String.eqb u1 u2 && option_eqb pairs_eqb b1 b2 && pairs_eqb q1 q2
  | _, _ => false
  end.
