(* Model/Wrap.v — C20: gapic/utils/lines.py: wrap (line by line as written), on top of a model of
   CPython's textwrap.TextWrapper as it is used there:
     break_long_words=False, break_on_hyphens=False, and the defaults expand_tabs=True (tabsize 8),
     replace_whitespace=True, drop_whitespace=True, fix_sentence_endings=False, max_lines=None.
   Also gapic/utils/rst.py: rst (plain path and quote guard).  ASCII text (DESIGN 4.1).
   Definitions only. *)
From GV Require Import Base.Str Model.FixWs.
Local Open Scope nat_scope.

Inductive res :=
| Ok (s : string)
| IndexErr          (* initial[0] on an empty list: IndexError *)
| ValueErr          (* textwrap: invalid width (must be > 0) *)
| NeedsPandoc       (* rst: the text is handed to pypandoc, which is not modelled *)
| OutOfFuel.        (* never returned: see Proofs/Wrap.v, wrap_chunks_fuel *)

(* ---------------------------------------------------------------- str helpers *)
Fixpoint rstrip_p (p : ascii -> bool) (s : string) : string :=
  match s with
  | EmptyString => EmptyString
  | String c s' => let t := rstrip_p p s' in if is_empty t && p c then EmptyString else String c t
  end.
Definition strip (s : string) : string := rstrip_ws (sdrop_while is_pyspace s).   (* str.strip() *)
Definition rstrip_nl (s : string) : string := rstrip_p (fun c => Ascii.eqb c nl) s. (* .rstrip("\n") *)

Fixpoint ends_with_c (a : ascii) (s : string) : bool :=
  match s with
  | EmptyString => false
  | String c EmptyString => Ascii.eqb c a
  | String _ s' => ends_with_c a s'
  end.

(* text.replace("\n ", "\n") *)
Fixpoint repl_nlsp (s : string) : string :=
  match s with
  | EmptyString => EmptyString
  | String c s' =>
      if Ascii.eqb c nl then
        match s' with
        | String d s'' => if Ascii.eqb d sp then String nl (repl_nlsp s'') else String c (repl_nlsp s')
        | EmptyString => String c EmptyString
        end
      else String c (repl_nlsp s')
  end.

(* text.replace("\n", " ", 1) *)
Fixpoint repl_first_nl (s : string) : string :=
  match s with
  | EmptyString => EmptyString
  | String c s' => if Ascii.eqb c nl then String sp s' else String c (repl_first_nl s')
  end.

(* re.sub(r":\n([^\n])", r":\n\n\1", text) *)
Fixpoint colon_sub (s : string) : string :=
  match s with
  | EmptyString => EmptyString
  | String a t =>
      if Ascii.eqb a ":"%char then
        match t with
        | String b (String c s') =>
            if Ascii.eqb b nl && negb (Ascii.eqb c nl)
            then String a (String nl (String nl (String c (colon_sub s'))))
            else String a (colon_sub t)
        | _ => String a (colon_sub t)
        end
      else String a (colon_sub t)
  end.

(* ---------------------------------------------------------------- list items *)
(* re.match(r"^\d+\. ", s) *)
Definition numbered (s : string) : bool :=
  negb (is_empty (stake_while is_digit s)) && starts_with ". " (sdrop_while is_digit s).

Definition is_list_item (s : string) : bool :=
  (3 <=? String.length s) && (starts_with "- " s || starts_with "+ " s || numbered s).

Definition sub_indent_level (s : string) : nat :=
  if (2 <=? String.length s) && (starts_with "- " s || starts_with "+ " s) then 2
  else if (4 <=? String.length s) && numbered s then 4
  else 0.

(* ---------------------------------------------------------------- textwrap *)
(* str.expandtabs(8): the column restarts after \n and \r *)
Fixpoint expandtabs (col : nat) (s : string) : string :=
  match s with
  | EmptyString => EmptyString
  | String c s' =>
      if Ascii.eqb c tab then let n := 8 - col mod 8 in rep n sp ++ expandtabs (col + n) s'
      else if Ascii.eqb c nl || Ascii.eqb c (chr 13) then String c (expandtabs 0 s')
      else String c (expandtabs (S col) s')
  end.

(* _munge_whitespace *)
Definition munge (s : string) : string :=
  smap (fun c => if is_twspace c then sp else c) (expandtabs 0 s).

(* wordsep_simple_re.split + removal of empty strings: maximal runs of whitespace / of non-whitespace *)
Fixpoint chunks_acc (cur : string) (cur_ws : bool) (s : string) : list string :=
  match s with
  | EmptyString => if is_empty cur then [] else [cur]
  | String c s' =>
      let b := is_twspace c in
      if is_empty cur then chunks_acc (s1 c) b s'
      else if Bool.eqb b cur_ws then chunks_acc (cur ++ s1 c) b s'
      else cur :: chunks_acc (s1 c) b s'
  end.
Definition split_chunks (s : string) : list string := chunks_acc EmptyString false s.

(* chunk.strip() == '' *)
Definition is_blank (c : string) : bool := sall is_pyspace c.
Definition is_nil {A} (l : list A) : bool := match l with [] => true | _ => false end.

(* the inner while loop of _wrap_chunks: chunks that still fit on the line *)
Fixpoint take_fit (width cur_len : nat) (cur chunks : list string) : list string * list string :=
  match chunks with
  | c :: rest =>
      if cur_len + String.length c <=? width
      then take_fit width (cur_len + String.length c) (app cur [c]) rest
      else (cur, chunks)
  | [] => (cur, [])
  end.

Definition drop_last_blank (cur : list string) : list string :=
  match rev cur with
  | c :: r => if is_blank c then rev r else cur
  | [] => cur
  end.

(* one iteration of the outer loop: (the line if one is produced, the remaining chunks) *)
Definition wrap_step (W : nat) (indent : string) (first_line : bool) (chunks : list string)
  : option string * list string :=
  let width := W - String.length indent in
  let chunks1 := match chunks with
                 | c :: rest => if is_blank c && negb first_line then rest else chunks
                 | [] => []
                 end in
  let '(cur, chunks2) := take_fit width 0 [] chunks1 in
  let '(cur2, chunks3) :=
    match chunks2 with
    | c :: rest => if (width <? String.length c) && is_nil cur then ([c], rest) else (cur, chunks2)
    | [] => (cur, [])
    end in
  let cur3 := drop_last_blank cur2 in
  (if is_nil cur3 then None else Some (indent ++ sconcat cur3), chunks3).

(* _wrap_chunks; every iteration removes at least one chunk, so [fuel] = number of chunks suffices *)
Fixpoint wrap_chunks (fuel : nat) (W : nat) (ii si : string) (lines : list string) (chunks : list string)
  : option (list string) :=
  match chunks with
  | [] => Some lines
  | _ =>
      match fuel with
      | O => None
      | S fuel' =>
          let indent := if is_nil lines then ii else si in
          let '(line, chunks') := wrap_step W indent (is_nil lines) chunks in
          wrap_chunks fuel' W ii si (match line with Some l => app lines [l] | None => lines end) chunks'
      end
  end.

(* textwrap.wrap(text, width=W, initial_indent=ii, subsequent_indent=si, break_long_words=False, break_on_hyphens=False) *)
Definition tw_wrap (W : nat) (ii si : string) (text : string) : option (option (list string)) :=
  if W =? 0 then None   (* ValueError: invalid width *)
  else let ch := split_chunks (munge text) in Some (wrap_chunks (List.length ch) W ii si [] ch).

(* ---------------------------------------------------------------- gapic.utils.lines.wrap *)
Fixpoint tokenize (width : nat) (lines : list string) (token : string) (acc : list string) : list string :=
  match lines with
  | [] => if is_empty token then acc else app acc [token]
  | line :: rest =>
      let flush := (is_list_item (strip line) || is_empty line) && negb (is_empty token) in
      let acc1 := if flush then app acc [token] else acc in
      let token1 := if flush then EmptyString else token in
      let token2 := token1 ++ line ++ nl1 in
      if (4 * String.length line <? 3 * width) || ends_with_c ":"%char line
      then tokenize width rest EmptyString (app acc1 [token2])
      else tokenize width rest token2 acc1
  end.

(* "\n".join(textwrap.fill(token, ...) for token in tokens), with the first failure propagated *)
Fixpoint fill_tokens (width indent : nat) (tokens : list string) : option (option (list string)) :=
  match tokens with
  | [] => Some (Some [])
  | t :: rest =>
      match tw_wrap width (rep indent sp) (rep indent sp ++ rep (sub_indent_level (strip t)) sp) t with
      | None => None
      | Some None => Some None
      | Some (Some ls) =>
          match fill_tokens width indent rest with
          | Some (Some more) => Some (Some (sjoin nl1 ls :: more))
          | other => other
          end
      end
  end.

(* the part of wrap up to "Save the new first line": (first or an error, text) *)
Definition first0_of (text1 : string) : string :=
  let line0 := match split_on nl text1 with l :: _ => l | [] => EmptyString end in
  line0 ++ nl1 ++ (if ends_with_c ":"%char line0 then nl1 else EmptyString).

Definition wrap_head (text1 : string) (width offset : nat) : res * string :=
  let first0 := first0_of text1 in
  if width - offset <? String.length first0 then
    match tw_wrap (width - offset) EmptyString EmptyString first0 with
    | None => (ValueErr, text1)
    | Some None => (OutOfFuel, text1)
    | Some (Some initial) =>
        let text2 :=
          if contains nl text1 then
            let remaining := sconcat (tl (split_on nl text1)) in
            if is_list_item (strip remaining) then text1 else repl_first_nl text1
          else text1 in
        match initial with
        | l0 :: _ => (Ok (l0 ++ nl1), text2)
        | [] => (IndexErr, text2)
        end
    end
  else (Ok first0, text1).

(* the rest of wrap: colon rule, the slice text[len(first):], tokenisation, fill, join *)
Definition wrap_tail (first text2 : string) (width indent : nat) : res :=
  let text3 := sdrop (String.length first) (colon_sub text2) in
  if is_empty text3 then Ok (strip first) else
  let new_line := match text3 with String c _ => if Ascii.eqb c nl then nl1 else EmptyString | _ => EmptyString end in
  let text4 := new_line ++ strip text3 in
  let tokens := tokenize width (split_on nl text4) EmptyString [] in
  match fill_tokens width indent tokens with
  | None => ValueErr
  | Some None => OutOfFuel
  | Some (Some parts) => Ok (rstrip_nl (first ++ sjoin nl1 parts))
  end.

(* str.lstrip(" \t\v\f\r\x1c\x1d\x1e\x1f"): every ASCII whitespace character except the newline *)
Definition is_lblank (c : ascii) : bool := is_pyspace c && negb (Ascii.eqb c nl).

(* text.expandtabs().lstrip(...) : the prologue added by the fix "keep wrap()'s first-line slice aligned" *)
Definition wrap_prologue (text : string) : string := sdrop_while is_lblank (expandtabs 0 text).

Definition wrap (text : string) (width offset indent : nat) : res :=
  if is_empty text then Ok EmptyString else
  let text0 := wrap_prologue text in
  if is_empty text0 then Ok EmptyString else
  match wrap_head (repl_nlsp text0) width offset with
  | (Ok first, text2) => wrap_tail first text2 width indent
  | (e, _) => e
  end.

(* Metadata.doc: the best comment *)
Definition meta_doc (leading trailing : string) (detached : list string) : string :=
  if negb (is_empty leading) then strip leading
  else if negb (is_empty trailing) then strip trailing
  else sjoin (nl1 ++ nl1) detached.

(* ---------------------------------------------------------------- gapic.utils.rst.rst *)
(* re.search(r"[|*`_[\]]", text) *)
Definition needs_pandoc (text : string) : bool :=
  sany (fun c => contains c "|*`_[]") text.

Definition dq : ascii := """"%char.
Definition bs : ascii := "\"%char.
(* answer.replace(TRIPLE, ESCAPED): leftmost, non-overlapping; each of the three quotes gets a backslash *)
Definition esc3 : string := String bs (String dq (String bs (String dq (String bs (String dq EmptyString))))).
Fixpoint repl3 (s : string) : string :=
  match s with
  | EmptyString => EmptyString
  | String a t =>
      match t with
      | String b (String c s') =>
          if Ascii.eqb a dq && Ascii.eqb b dq && Ascii.eqb c dq then esc3 ++ repl3 s' else String a (repl3 t)
      | _ => String a (repl3 t)
      end
  end.

(* the end of rst (both paths): escape the terminator, pad a final backslash, put a period after a final quote *)
Definition rst_tail (answer : string) : string :=
  let a1 := repl3 answer in
  let a2 := if ends_with_c bs a1 then a1 ++ " " else a1 in
  if ends_with_c dq a2 then a2 ++ "." else a2.

Definition rst (text : string) (width indent : nat) (nl_opt : option bool) : res :=
  if needs_pandoc text then NeedsPandoc else
  match wrap text (width - indent) (indent + 3) indent with
  | Ok answer =>
      let add_nl := match nl_opt with Some b => b | None => contains nl answer end in
      Ok (rst_tail (if add_nl then answer ++ nl1 ++ rep indent sp else answer))
  | e => e
  end.

(* ---------------------------------------------------------------- vocabulary of the theorems *)
(* str.split(): the words of a text *)
Definition flush (cur : string) : list string := if is_empty cur then [] else [cur].
Fixpoint pw_acc (cur : string) (s : string) : list string :=
  match s with
  | EmptyString => flush cur
  | String c s' => if is_pyspace c then app (flush cur) (pw_acc EmptyString s') else pw_acc (cur ++ s1 c) s'
  end.
Definition pywords (s : string) : list string := pw_acc EmptyString s.

(* How CPython's tokenizer reads the body of a raw triple-quoted literal r"""...""": a backslash takes the next character
   with it, three consecutive unescaped double quotes end the literal.  State: (the previous character is a pending
   backslash, number of consecutive unescaped quotes just read); None = the literal ended inside the text. *)
Fixpoint dq_scan (esc : bool) (run : nat) (s : string) : option (bool * nat) :=
  match s with
  | EmptyString => Some (esc, run)
  | String c s' =>
      if esc then dq_scan false 0 s'
      else if Ascii.eqb c bs then dq_scan true 0 s'
      else if Ascii.eqb c dq then (if 2 <=? run then None else dq_scan false (S run) s')
      else dq_scan false 0 s'
  end.
(* the text can be followed by the closing quotes: the literal does not end inside it, and at its end no backslash is
   pending and no quote would join the closing ones *)
Definition docstring_safe (s : string) : Prop := dq_scan false 0 s = Some (false, 0).
