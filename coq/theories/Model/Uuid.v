(* Model/Uuid.v — C18: auto-populated request ids (AIP-4235).  Definitions only.

   (i)  gapic/schema/api.py: API.enforce_valid_method_settings as a decision function over
        (method table, method-settings list), with the error report it builds; API.all_method_settings.
   (ii) services/%service/_shared_macros.j2: auto_populate_uuid4_fields — the block emitted into every method of
        client.py and async_client.py — and its execution on a request valuation, uuid.uuid4() being an explicit
        stream of fresh values. *)
From GV Require Import Base.Str.

(* ------------------------------------------------------------------ (i) validation *)

(* what the validation and the template look at on one top-level field of the request message *)
Record rfield := mkRField {
  rf_name : string;
  rf_string : bool;      (* field.type == PrimitiveType.build(str): the scalar type (the label is rf_repeated) *)
  rf_required : bool;    (* google.api.field_behavior contains REQUIRED *)
  rf_uuid4 : bool;       (* google.api.field_info.format == UUID4 *)
  rf_optional : bool;    (* proto3_optional *)
  rf_repeated : bool }.

(* one entry of API.all_methods; m_input = None when the request message is not one of the API's own messages
   (self.messages[...] raises KeyError) *)
Record mdesc := mkMethod { m_selector : string; m_cstream : bool; m_sstream : bool; m_input : option (list rfield) }.

(* google.api.MethodSettings: selector, auto_populated_fields *)
Record setting := mkSetting { s_selector : string; s_fields : list string }.

Inductive ferr := FNotFound | FNotString | FRequired | FNotUuid4.
Inductive serr := SDuplicate | SMethodNotFound | SNotUnary | SFields (errs : list (string * ferr)).
Inductive outcome := Accepted | Rejected (errs : list (string * serr)) | Crashed.

Definition find_field (name : string) (fs : list rfield) : option rfield :=
  find (fun f => String.eqb (rf_name f) name) fs.
Definition find_method (sel : string) (ms : list mdesc) : option mdesc :=
  find (fun m => String.eqb (m_selector m) sel) ms.

(* the inner loop over auto_populated_fields: three independent ifs after the membership test;
   the first one is  field.type != str or field.repeated *)
Definition field_errors (fs : list rfield) (name : string) : list (string * ferr) :=
  match find_field name fs with
  | None => [(name, FNotFound)]
  | Some f =>
    ((if rf_string f && negb (rf_repeated f) then [] else [(name, FNotString)]) ++
     (if rf_required f then [(name, FRequired)] else []) ++
     (if rf_uuid4 f then [] else [(name, FNotUuid4)]))%list
  end.

(* all_errors[selector] = ...  (a dict: a later assignment for the same key replaces the earlier one) *)
Fixpoint upsert {A} (k : string) (v : A) (l : list (string * A)) : list (string * A) :=
  match l with
  | [] => [(k, v)]
  | (k', v') :: l' => if String.eqb k k' then (k, v) :: l' else (k', v') :: upsert k v l'
  end.

Inductive step_result := StepOk | StepErr (e : serr) | StepCrash.

Definition check_one (methods : list mdesc) (seen : list string) (s : setting) : step_result :=
  if mem_str (s_selector s) seen then StepErr SDuplicate else
  match find_method (s_selector s) methods with
  | None => StepErr SMethodNotFound
  | Some m =>
    match s_fields s with
    | [] => StepOk
    | _ :: _ =>
      if m_cstream m || m_sstream m then StepErr SNotUnary else
      match m_input m with
      | None => StepCrash
      | Some fs =>
        match flat_map (field_errors fs) (s_fields s) with
        | [] => StepOk
        | es => StepErr (SFields es)
        end
      end
    end
  end.

Fixpoint enforce_aux (methods : list mdesc) (seen : list string) (errs : list (string * serr))
         (settings : list setting) : option (list (string * serr)) :=
  match settings with
  | [] => Some errs
  | s :: rest =>
    match check_one methods seen s with
    | StepCrash => None
    | StepOk => enforce_aux methods (s_selector s :: seen) errs rest
    | StepErr e => enforce_aux methods (s_selector s :: seen) (upsert (s_selector s) e errs) rest
    end
  end.
(* (adding an already-seen selector to [seen] again is harmless: it is a set in the code) *)

Definition enforce (methods : list mdesc) (settings : list setting) : outcome :=
  match enforce_aux methods [] [] settings with
  | None => Crashed
  | Some [] => Accepted
  | Some errs => Rejected errs
  end.

(* Selective GAPIC generation (publishing.library_settings[version = proto package].python_settings.common.
   selective_gapic_generation): the validation runs on the API object the templates see, i.e. AFTER API.build has
   applied the allow-list.  With a non-empty allow-list and generate_omitted_as_internal = false the omitted methods
   are pruned, so API.all_methods holds the allow-listed methods only and a settings entry naming an omitted (but
   existing) method is reported as "Method was not found."; with generate_omitted_as_internal = true, or an empty
   allow-list, every method of the proto stays in the table. *)
Definition visible_methods (allow : list string) (internal : bool) (methods : list mdesc) : list mdesc :=
  match allow with
  | [] => methods
  | _ :: _ => if internal then methods else filter (fun m => mem_str (m_selector m) allow) methods
  end.

(* Package layout.  Validation is lazy: it runs when a per-service template evaluates api.all_method_settings, and each
   service is rendered with the API *view* of the proto sub-package that owns it (API.subpackages; the top-level view
   for services declared directly in the generated package).  A view's own API.all_methods holds only the methods of
   its sub-package subtree, but enforce_valid_method_settings looks selectors and request messages up in the
   top-level view (whole_api = dataclasses.replace(self, subpackage_view=())), so EVERY view validates against the
   methods of the whole API.  Generation succeeds when every evaluated view accepts. *)
Record lmethod := mkLMethod { lm_sub : list string; lm_desc : mdesc }.

Fixpoint is_prefix (p l : list string) : bool :=
  match p, l with
  | [], _ => true
  | a :: p', b :: l' => String.eqb a b && is_prefix p' l'
  | _ :: _, [] => false
  end.

Definition full_table (ms : list lmethod) : list mdesc := map lm_desc ms.
(* the table a view validates against: the whole API, whatever the view *)
Definition view_table (view : list string) (ms : list lmethod) : list mdesc := full_table ms.
(* (for reference) the methods a view holds itself: its own subtree *)
Definition own_methods (view : list string) (ms : list lmethod) : list mdesc :=
  map lm_desc (filter (fun m => is_prefix view (lm_sub m)) ms).

(* the views that get evaluated: one per sub-package path owning a service (duplicates are harmless) *)
Definition evaluated_views (ms : list lmethod) : list (list string) := map lm_sub ms.

Definition is_accepted (o : outcome) : bool := match o with Accepted => true | _ => false end.
Definition view_outcomes (ms : list lmethod) (settings : list setting) : list outcome :=
  map (fun v => enforce (view_table v ms) settings) (evaluated_views ms).
Definition generation_accepts (ms : list lmethod) (settings : list setting) : bool :=
  forallb is_accepted (view_outcomes ms settings).

(* ---- the property's own sentence about validation ----
   "generation fails unless the method exists, is unary and the field is a top-level, non-required string
    annotated with format UUID4, and duplicate selectors are rejected" *)
Definition spec_valid_field (fs : list rfield) (name : string) : Prop :=
  exists f, In f fs /\ rf_name f = name /\ rf_string f = true /\ rf_repeated f = false /\
            rf_required f = false /\ rf_uuid4 f = true.

Definition valid_setting (vf : list rfield -> string -> Prop) (methods : list mdesc) (s : setting) : Prop :=
  exists m, In m methods /\ m_selector m = s_selector s /\
    (s_fields s <> [] ->
       m_cstream m = false /\ m_sstream m = false /\
       exists fs, m_input m = Some fs /\ Forall (vf fs) (s_fields s)).

Definition valid_settings (vf : list rfield -> string -> Prop) (methods : list mdesc) (settings : list setting) : Prop :=
  NoDup (map s_selector settings) /\ Forall (valid_setting vf methods) settings.

Definition spec_valid := valid_settings spec_valid_field.

(* protoc guarantees *)
Definition fields_uniq (fs : list rfield) : Prop := NoDup (map rf_name fs).
Definition methods_wf (methods : list mdesc) : Prop :=
  NoDup (map m_selector methods) /\
  forall m fs, In m methods -> m_input m = Some fs -> fields_uniq fs.

(* one violation in one entry *)
Definition violates (methods : list mdesc) (s : setting) : Prop :=
  (forall m, In m methods -> m_selector m <> s_selector s) \/
  exists m, In m methods /\ m_selector m = s_selector s /\ s_fields s <> [] /\
    (m_cstream m = true \/ m_sstream m = true \/
     exists fs name, m_input m = Some fs /\ In name (s_fields s) /\ ~ spec_valid_field fs name).

(* API.all_method_settings.get(selector): dict comprehension over the settings list, last one wins *)
Fixpoint setting_for (sel : string) (settings : list setting) : option setting :=
  match settings with
  | [] => None
  | s :: rest =>
    match setting_for sel rest with
    | Some s' => Some s'
    | None => if String.eqb (s_selector s) sel then Some s else None
    end
  end.

(* ------------------------------------------------------------------ (ii) the emitted population block *)

(* "if 'f' not in request:"  /  "if not request.f:"   followed by  "request.f = str(uuid.uuid4())" *)
Inductive guard := GNotIn (f : string) | GNotTruthy (f : string).
Record block := mkBlock { b_guard : guard; b_field : string }.

Definition emit_block (fs : list rfield) (name : string) : option block :=
  match find_field name fs with
  | None => None          (* method.input.fields[name] would raise; unreachable after acceptance *)
  | Some f => Some (mkBlock (if rf_optional f then GNotIn name else GNotTruthy name) name)
  end.

Fixpoint emit_fields (fs : list rfield) (names : list string) : option (list block) :=
  match names with
  | [] => Some []
  | n :: names' =>
    match emit_block fs n, emit_fields fs names' with
    | Some b, Some bs => Some (b :: bs)
    | _, _ => None
    end
  end.

(* the blocks of one client method; the macro is included, identically, in client.py (which also serves the REST
   transport) and in async_client.py: [is_async] is there only to say so *)
Definition client_blocks (is_async : bool) (m : mdesc) (settings : list setting) : option (list block) :=
  match setting_for (m_selector m) settings with
  | None => Some []
  | Some s =>
    match s_fields s with
    | [] => Some []
    | _ :: _ => match m_input m with None => None | Some fs => emit_fields fs (s_fields s) end
    end
  end.

(* the canonical source lines the harness extracts with ast.unparse *)
Definition block_lines (b : block) : list string :=
  [ match b_guard b with
    | GNotIn f => "if '" ++ f ++ "' not in request:"
    | GNotTruthy f => "if not request." ++ f ++ ":"
    end;
    "    request." ++ b_field b ++ " = str(uuid.uuid4())" ].
Definition blocks_lines (bs : list block) : list string := flat_map block_lines bs.

(* ---- execution on a request valuation ---- *)
(* a string-typed request field: a singular value, or (repeated label) a list of strings; a field that is
   absent from the valuation is unset *)
Inductive fval := VStr (s : string) | VList (l : list string).
Definition valuation := list (string * fval).

Definition truthy (v : option fval) : bool :=
  match v with
  | None => false
  | Some (VStr s) => negb (is_empty s)
  | Some (VList l) => match l with [] => false | _ => true end
  end.
Definition present (v : option fval) : bool := match v with None => false | Some _ => true end.

Definition guard_holds (g : guard) (st : valuation) : bool :=
  match g with
  | GNotIn f => negb (present (assoc f st))
  | GNotTruthy f => negb (truthy (assoc f st))
  end.

Fixpoint chars (s : string) : list string :=
  match s with EmptyString => [] | String c s' => s1 c :: chars s' end.

(* request.f = "<uuid>" : on a repeated field proto-plus stores the characters of the string *)
Definition assign (fs : list rfield) (name u : string) (st : valuation) : valuation :=
  match find_field name fs with
  | Some f => upsert name (if rf_repeated f then VList (chars u) else VStr u) st
  | None => upsert name (VStr u) st
  end.

(* [us]: the values uuid.uuid4() will return, in order.  None: the stream ran out (never under the theorems). *)
Fixpoint exec (fs : list rfield) (bs : list block) (us : list string) (st : valuation) : option (valuation * list string) :=
  match bs with
  | [] => Some (st, us)
  | b :: bs' =>
    if guard_holds (b_guard b) st then
      match us with
      | [] => None
      | u :: us' => exec fs bs' us' (assign fs (b_field b) u st)
      end
    else exec fs bs' us st
  end.

(* what the caller must have done for the library to generate a value *)
Definition left_unset_or_empty (f : rfield) (st : valuation) : bool :=
  if rf_optional f then negb (present (assoc (rf_name f) st)) else negb (truthy (assoc (rf_name f) st)).

(* what reaches the wire for a singular string field: without presence, "" is not sent *)
Definition wire (f : rfield) (v : option fval) : option fval :=
  if rf_optional f then v else match v with Some (VStr s) => if is_empty s then None else v | _ => v end.

(* ------------------------------------------------------------------ comparison helpers for the harness *)
Definition ferr_eqb (a b : ferr) : bool :=
  match a, b with FNotFound, FNotFound | FNotString, FNotString | FRequired, FRequired | FNotUuid4, FNotUuid4 => true | _, _ => false end.
Definition serr_eqb (a b : serr) : bool :=
  match a, b with
  | SDuplicate, SDuplicate | SMethodNotFound, SMethodNotFound | SNotUnary, SNotUnary => true
  | SFields x, SFields y => list_eqb (pair_eqb String.eqb ferr_eqb) x y
  | _, _ => false
  end.
(* the report is a dict: compare as maps (same size, every key agrees) *)
Definition report_eqb (a b : list (string * serr)) : bool :=
  Nat.eqb (length a) (length b) &&
  forallb (fun kv => option_eqb serr_eqb (assoc (fst kv) b) (Some (snd kv))) a.
Definition outcome_eqb (a b : outcome) : bool :=
  match a, b with
  | Accepted, Accepted | Crashed, Crashed => true
  | Rejected x, Rejected y => report_eqb x y
  | _, _ => false
  end.
(* the generator's outcome under a layout: accepted when every evaluated view accepts, otherwise the report of one
   of the rejecting views (whichever template is rendered first) *)
Definition layout_outcome_matches (ms : list lmethod) (settings : list setting) (impl : outcome) : bool :=
  if generation_accepts ms settings then outcome_eqb Accepted impl
  else existsb (fun o => negb (is_accepted o) && outcome_eqb o impl) (view_outcomes ms settings).

Definition fval_eqb (a b : fval) : bool :=
  match a, b with VStr x, VStr y => String.eqb x y | VList x, VList y => list_eqb String.eqb x y | _, _ => false end.
Definition lines_opt_eqb (a : option (list string)) (b : list string) : bool :=
  match a with Some l => list_eqb String.eqb l b | None => false end.

(* one observed call: the valuation the caller passed, the uuid the library drew (as seen on the wire, if any),
   and the value of field [name] on the wire *)
Definition call_matches (fs : list rfield) (bs : list block) (st : valuation) (us : list string)
           (name : string) (sent : option fval) : bool :=
  match exec fs bs us st, find_field name fs with
  | Some (st', _), Some f => option_eqb fval_eqb (wire f (assoc name st')) sent
  | _, _ => false
  end.
