(* Model/Samples.v — C14: generated samples.
   Mirrors gapic/samplegen/samplegen.py: generate_sample_specs (region tags), _sync_or_async_from_transport, _supports_grpc,
   generate_request_object, _fill_sample_metadata (names, parameters, result type);
   gapic/samplegen_utils/snippet_index.py: Snippet._parse_snippet_segments, Snippet.full_snippet;
   gapic/samplegen_utils/types.py: CallingForm.method_default;
   wrappers.py: Service.shortname, MessageType.oneof_fields / required_fields, Field.primitive_mock / mock_value_original_type
   (primitives); the docstring embedding of _client_macros.j2 / async_client.py.j2 (jinja2 indent(width=12, first=True));
   the parameter list of the client method templates.
   Definitions only.  The literals are pinned against Gen/SamplesGen.v (T0) in Proofs/Samples.v. *)
From GV Require Import Base.Str Gen.Kw Model.Case.

(* ================================================================ A. sample specs and region tags *)
Record rpc := { rp_name : string; rp_internal : bool }.
Record svc := { sv_name : string; sv_host : string; sv_rpcs : list rpc }.
Definition mkRpc (n : string) (i : bool) : rpc := {| rp_name := n; rp_internal := i |}.
Definition mkSvc (n h : string) (rs : list rpc) : svc := {| sv_name := n; sv_host := h; sv_rpcs := rs |}.

(* Service.shortname: host.split(".")[0] *)
Definition not_dot (c : ascii) : bool := negb (Ascii.eqb c "."%char).
Definition shortname (host : string) : string := stake_while not_dot host.

(* the client kinds gapic_metadata records for a service, and which of them get a spec:
   "If a service supports gRPC transport, we do not generate spec for REST even if it also supports REST transport" *)
Definition client_kinds (transport : list string) : list string :=
  app (if mem_str "grpc" transport then ["grpc"; "grpc-async"] else []) (if mem_str "rest" transport then ["rest"] else []).
Definition spec_kinds (transport : list string) : list string :=
  let ks := client_kinds transport in
  filter (fun k => negb (mem_str "grpc" ks && String.eqb k "rest")) ks.
(* _sync_or_async_from_transport *)
Definition sync_or_async (k : string) : string :=
  if String.eqb k "grpc" || String.eqb k "rest" then "sync" else "async".

Definition region_tag (version : string) (s : svc) (r : rpc) (k : string) : string :=
  shortname (sv_host s) ++ "_" ++ version ++ "_generated_" ++ sv_name s ++ "_" ++ rp_name r ++ "_" ++ sync_or_async k
  ++ (if rp_internal r then "_internal" else "").

Record spec := { sp_service : string; sp_rpc : string; sp_transport : string; sp_tag : string }.
Definition mk_spec (version : string) (s : svc) (k : string) (r : rpc) : spec :=
  {| sp_service := sv_name s; sp_rpc := rp_name r; sp_transport := k; sp_tag := region_tag version s r k |}.
Definition svc_specs (version : string) (transport : list string) (s : svc) : list spec :=
  flat_map (fun k => map (mk_spec version s k) (sv_rpcs s)) (spec_kinds transport).
Definition generate_sample_specs (version : string) (transport : list string) (svcs : list svc) : list spec :=
  flat_map (svc_specs version transport) svcs.

(* the components of a tag, for the statement of its format *)
Definition tag_parts (version : string) (s : svc) (r : rpc) (k : string) : list string :=
  app [shortname (sv_host s); version; "generated"; sv_name s; rp_name r; sync_or_async k] (if rp_internal r then ["internal"] else []).

Definition no_us (s : string) : bool := negb (contains "_"%char s).
(* names free of the underscore ambiguity (DESIGN section 9 no. 16) *)
Definition tag_unambiguous (version : string) (svcs : list svc) : bool :=
  no_us version &&
  forallb (fun s => no_us (shortname (sv_host s)) && no_us (sv_name s) && forallb (fun r => no_us (rp_name r)) (sv_rpcs s)) svcs.

(* ================================================================ B. _parse_snippet_segments on a list of lines *)
Inductive lkind := KStart | KEnd | KClient | KReqInit | KReqExec | KResp | KOther.
(* ^\s+<literal> under re.match: one or more whitespace characters, then the literal *)
Definition ws_then (lit line : string) : bool :=
  match line with
  | String c _ => is_pyspace c && starts_with lit (sdrop_while is_pyspace line)
  | EmptyString => false
  end.
(* the if / elif chain of the loop *)
Definition classify (line : string) : lkind :=
  if starts_with "# [START" line then KStart
  else if starts_with "# [END" line then KEnd
  else if ws_then "# Create a client" line then KClient
  else if ws_then "# Initialize request argument(s)" line then KReqInit
  else if ws_then "# Make the request" line then KReqExec
  else if ws_then "# Handle the response" line then KResp
  else KOther.

(* start / end of the six segments; 0 = never assigned (protobuf default) *)
Record segs := { full_s : nat; full_e : nat; ci_s : nat; ci_e : nat; ri_s : nat; ri_e : nat;
                 re_s : nat; re_e : nat; rh_s : nat; rh_e : nat }.
Definition segs0 (n : nat) : segs :=
  {| full_s := 0; full_e := 0; ci_s := 0; ci_e := 0; ri_s := 0; ri_e := 0; re_s := 0; re_e := 0; rh_s := 0; rh_e := n |}.
Definition seg_step (k : lkind) (i : nat) (a : segs) : segs :=
  match k with
  | KStart => {| full_s := i + 1; full_e := full_e a; ci_s := ci_s a; ci_e := ci_e a; ri_s := ri_s a; ri_e := ri_e a;
                 re_s := re_s a; re_e := re_e a; rh_s := rh_s a; rh_e := rh_e a |}
  | KEnd => {| full_s := full_s a; full_e := i - 1; ci_s := ci_s a; ci_e := ci_e a; ri_s := ri_s a; ri_e := ri_e a;
               re_s := re_s a; re_e := re_e a; rh_s := rh_s a; rh_e := rh_e a |}
  | KClient => {| full_s := full_s a; full_e := full_e a; ci_s := i; ci_e := ci_e a; ri_s := ri_s a; ri_e := ri_e a;
                  re_s := re_s a; re_e := re_e a; rh_s := rh_s a; rh_e := rh_e a |}
  | KReqInit => {| full_s := full_s a; full_e := full_e a; ci_s := ci_s a; ci_e := i - 1; ri_s := i; ri_e := ri_e a;
                   re_s := re_s a; re_e := re_e a; rh_s := rh_s a; rh_e := rh_e a |}
  | KReqExec => {| full_s := full_s a; full_e := full_e a; ci_s := ci_s a; ci_e := ci_e a; ri_s := ri_s a; ri_e := i - 1;
                   re_s := i; re_e := re_e a; rh_s := rh_s a; rh_e := rh_e a |}
  | KResp => {| full_s := full_s a; full_e := full_e a; ci_s := ci_s a; ci_e := ci_e a; ri_s := ri_s a; ri_e := ri_e a;
                re_s := re_s a; re_e := i - 1; rh_s := i; rh_e := rh_e a |}
  | KOther => a
  end.
(* for i, line in enumerate(lines, start=1) *)
Fixpoint seg_loop (i : nat) (lines : list string) (a : segs) : segs :=
  match lines with
  | [] => a
  | l :: t => seg_loop (S i) t (seg_step (classify l) i a)
  end.
(* after the loop (since /repo 9d7a09d): a sample without a response marker closes REQUEST_EXECUTION at the end of the
   snippet and has no RESPONSE_HANDLING range *)
Definition seg_finish (a : segs) : segs :=
  let re_e' := if negb (Nat.eqb (re_s a) 0) && Nat.eqb (re_e a) 0 then full_e a else re_e a in
  let rh_e' := if Nat.eqb (rh_s a) 0 then 0 else rh_e a in
  {| full_s := full_s a; full_e := full_e a; ci_s := ci_s a; ci_e := ci_e a; ri_s := ri_s a; ri_e := ri_e a;
     re_s := re_s a; re_e := re_e'; rh_s := rh_s a; rh_e := rh_e' |}.
Definition parse_segments (lines : list string) : segs := seg_finish (seg_loop 1 lines (segs0 (length lines))).

(* Snippet.full_snippet: "".join(sample_lines[start - 1 : end]) — a start of 0 gives the slice [-1:end], which is
   empty because end is smaller than the number of lines *)
Definition slice_lines (start stop : nat) (lines : list string) : list string :=
  match start with
  | O => []
  | S s => firstn (stop - s) (skipn s lines)
  end.
Definition full_snippet_lines (lines : list string) : list string :=
  let g := parse_segments lines in slice_lines (full_s g) (full_e g) lines.

(* ================================================================ C. docstring embedding: jinja2 indent(width=12, first=True)
   on a text given as its lines (each without its newline): the first line is always indented, the others when non-empty *)
Definition ind12 : string := "            ".
Definition indent_lines (ls : list string) : list string :=
  match ls with
  | [] => []
  | l :: t => (ind12 ++ l) :: map (fun x => if is_empty x then x else ind12 ++ x) t
  end.
Definition dedent_line (l : string) : string := match strip_prefix ind12 l with Some r => r | None => l end.
Definition dedent_lines (ls : list string) : list string := map dedent_line ls.

(* ================================================================ D. generate_request_object *)
Inductive ptype := PBool | PStr | PBytes | PInt | PFloat.
Inductive ftype := TPrim (p : ptype) | TEnum (values : list string) | TMsg (name : string).
Record field := { f_name : string; f_type : ftype; f_repeated : bool; f_required : bool;
                  f_oneof : option string (* containing oneof, synthetic ones included *); f_p3opt : bool }.
Definition mkF (n : string) (t : ftype) (rep req : bool) (o : option string) (p3 : bool) : field :=
  {| f_name := n; f_type := t; f_repeated := rep; f_required := req; f_oneof := o; f_p3opt := p3 |}.
Definition schema := list (string * list field).

Inductive value := VBool | VStr (s : string) | VBytes (s : string) | VInt (n : N) | VFloat | VEnum (name : string)
                 | VList (l : list value).
Fixpoint ord_sum (s : string) : N := match s with EmptyString => 0%N | String c s' => (ord c + ord_sum s')%N end.
(* Field.primitive_mock(suffix); suffix 0 = none *)
Definition suffix_str (k : N) : string := if N.eqb k 0 then "" else if N.eqb k 1 then "1" else "2".
Definition primitive_mock (name : string) (p : ptype) (k : N) : value :=
  match p with
  | PBool => VBool
  | PStr => if String.eqb name "type_url" then VStr "type.googleapis.com/google.protobuf.Empty" else VStr (name ++ "_value" ++ suffix_str k)
  | PBytes => VBytes (name ++ "_blob" ++ suffix_str k)
  | PInt => VInt (ord_sum name + k)
  | PFloat => VFloat
  end.
(* mock_value_original_type of a primitive field *)
Definition prim_value (f : field) (p : ptype) : value :=
  if f_repeated f then VList [primitive_mock (f_name f) p 1; primitive_mock (f_name f) p 2] else primitive_mock (f_name f) p 0.
Fixpoint last_opt {A} (l : list A) : option A := match l with [] => None | [x] => Some x | _ :: t => last_opt t end.

(* MessageType.oneof_fields(): real oneofs only, grouped in order of first appearance; the first member of each *)
Definition real_oneof (f : field) : option string := if f_p3opt f then None else f_oneof f.
Fixpoint first_of_groups (seen : list string) (fs : list field) : list field :=
  match fs with
  | [] => []
  | f :: t => match real_oneof f with
              | Some o => if mem_str o seen then first_of_groups seen t else f :: first_of_groups (o :: seen) t
              | None => first_of_groups seen t
              end
  end.
(* [field for field in message.required_fields if not field.oneof or field.proto3_optional]  (since /repo 42d2b00) *)
Definition required_plain (f : field) : bool :=
  f_required f && (match f_oneof f with None => true | Some _ => false end || f_p3opt f).
Definition selected (fs : list field) : list field := app (first_of_groups [] fs) (filter required_plain fs).

(* ".".join([prefix, name]).lstrip(".") *)
Definition qual (prefix name : string) : string := sdrop_while (fun c => Ascii.eqb c "."%char) (prefix ++ "." ++ name).

(* [encl]: the messages the call is nested in (the code appends, the model prepends: only membership is tested).
   A message field whose type is the message itself or one of the enclosing ones is skipped (since /repo 40893b0).
   None: fuel exhausted, an unknown message, or an enum without values. *)
Fixpoint gro (fuel : nat) (sc : schema) (m prefix : string) (encl : list string) : option (list (string * value)) :=
  match fuel with
  | O => None
  | S k =>
      match assoc m sc with
      | None => None
      | Some fs =>
          fold_left (fun acc f =>
            match acc with
            | None => None
            | Some l =>
                let fname := qual prefix (f_name f) in
                match f_type f with
                | TPrim p => Some (app l [(fname, prim_value f p)])
                | TEnum vs => match last_opt vs with
                              | Some v => Some (app l [(fname, if f_repeated f then VList [VEnum v] else VEnum v)])
                              | None => None
                              end
                | TMsg m' => if mem_str m' (m :: encl) then Some l
                             else match gro k sc m' fname (m :: encl) with Some l' => Some (app l l') | None => None end
                end
            end) (selected fs) (Some [])
      end
  end.

(* ================================================================ E. CallingForm.method_default *)
Inductive cform := Request | RequestPagedAll | LongRunningRequestPromise | RequestStreamingClient | RequestStreamingServer
                 | RequestStreamingBidi.
Definition method_default (lro paged cs ss : bool) : cform :=
  if lro then LongRunningRequestPromise
  else if paged then RequestPagedAll
  else if cs then (if ss then RequestStreamingBidi else RequestStreamingClient)
  else if ss then RequestStreamingServer
  else Request.
(* render_method_call: the call is awaited in the asyncio sample unless the form is LRO-promise
   (since /repo c4938a6 the paged call is awaited too) *)
Definition call_awaited (async : bool) (f : cform) : bool :=
  async && match f with LongRunningRequestPromise => false | _ => true end.
(* render_calling_form: is there a "# Handle the response" line (and with it an end of REQUEST_EXECUTION) *)
Definition has_response_marker (f : cform) (void : bool) : bool :=
  match f with
  | Request | RequestStreamingClient => negb void
  | _ => true
  end.

(* ================================================================ F. metadata entry vs client surface *)
Record meth := { md_name : string; md_internal : bool; md_void : bool; md_cs : bool; md_ss : bool;
                 md_flat : list string (* Field.name of the flattened fields, in order *) }.
Definition mkM (n : string) (i v cs ss : bool) (fl : list string) : meth :=
  {| md_name := n; md_internal := i; md_void := v; md_cs := cs; md_ss := ss; md_flat := fl |}.
Definition make_private (n : string) : string := if starts_with "_" n then n else "_" ++ n.
(* Method.client_method_name *)
Definition client_method_name (m : meth) : string :=
  let n := if mem_str (lower (md_name m)) KWLIST then md_name m ++ "_" else md_name m in
  if md_internal m then make_private n else n.
(* Service.client_name / async_client_name *)
Definition client_class (svc_name : string) (internal async : bool) : string :=
  (if internal then "Base" else "") ++ svc_name ++ (if async then "AsyncClient" else "Client").

(* _fill_sample_metadata *)
Definition meta_client (svc_name : string) (internal : bool) (transport : string) : string :=
  client_class svc_name internal (String.eqb transport "grpc-async").
Definition meta_method (m : meth) : string := snake (client_method_name m).
Definition meta_params (m : meth) : list string :=
  app (if md_cs m then ["requests"] else "request" :: md_flat m) ["retry"; "timeout"; "metadata"].
Definition meta_has_result (m : meth) : bool := negb (md_void m).
Definition meta_async (transport : string) : bool := String.eqb transport "grpc-async".

(* the client templates: class name, def name, parameter list (after self) *)
Definition tmpl_class (svc_name : string) (internal async : bool) : string := client_class svc_name internal async.
Definition tmpl_method (m : meth) : string := snake (client_method_name m).
Definition tmpl_params (m : meth) : list string :=
  match md_cs m with
  | false => app ["request"] (app (md_flat m) ["retry"; "timeout"; "metadata"])
  | true => ["requests"; "retry"; "timeout"; "metadata"]
  end.
(* the sample function and file *)
Definition sample_function (rpc_name : string) : string := "sample_" ++ snake rpc_name.
Definition sample_file (id : string) : string := snake id ++ ".py".

(* ================================================================ G. SnippetIndex.add_snippet / get_snippet
   add_snippet files a snippet in the "async" slot of its (service, rpc) when the metadata's async flag is set (the flag
   _fill_sample_metadata derives from the transport), in the "sync" slot otherwise; a later snippet replaces an earlier one
   in the same slot.  get_snippet(service, rpc, sync) reads the slot; the client templates ask with sync=True, the asyncio
   client templates with sync=False. *)
Definition slot_async (sp : spec) : bool := meta_async (sp_transport sp).
Definition index_get (added : list spec) (svc rpc : string) (sync : bool) : option spec :=
  last_opt (filter (fun sp => (String.eqb (sp_service sp) svc && String.eqb (sp_rpc sp) rpc) && Bool.eqb (slot_async sp) (negb sync)) added).

(* ================================================================ comparison helpers for the harness *)
Definition segs_list (g : segs) : list nat :=
  [full_s g; full_e g; ci_s g; ci_e g; ri_s g; ri_e g; re_s g; re_e g; rh_s g; rh_e g].
Definition spec_key (s : spec) : string := sp_service s ++ "/" ++ sp_rpc s ++ "/" ++ sp_transport s ++ "/" ++ sp_tag s.
Fixpoint ins_str (x : string) (l : list string) : list string :=
  match l with [] => [x] | y :: t => if String.leb x y then x :: l else y :: ins_str x t end.
Definition sort_str (l : list string) : list string := fold_right ins_str [] l.
Fixpoint value_eqb (a b : value) : bool :=
  match a, b with
  | VBool, VBool => true
  | VStr x, VStr y => String.eqb x y
  | VBytes x, VBytes y => String.eqb x y
  | VInt x, VInt y => N.eqb x y
  | VFloat, VFloat => true
  | VEnum x, VEnum y => String.eqb x y
  | VList x, VList y => (fix go (l1 l2 : list value) : bool :=
                           match l1, l2 with
                           | [], [] => true
                           | u :: l1', v :: l2' => value_eqb u v && go l1' l2'
                           | _, _ => false
                           end) x y
  | _, _ => false
  end.
(* the implementation hands enum values over as their names (plain strings): compare modulo that *)
Fixpoint canon (v : value) : value :=
  match v with
  | VEnum n => VStr n
  | VList l => VList ((fix go (l : list value) : list value := match l with [] => [] | x :: t => canon x :: go t end) l)
  | x => x
  end.
Definition canon_entries (o : option (list (string * value))) : option (list (string * value)) :=
  match o with Some l => Some (map (fun e => (fst e, canon (snd e))) l) | None => None end.
Definition entries_eqb (a b : option (list (string * value))) : bool :=
  option_eqb (list_eqb (pair_eqb String.eqb value_eqb)) a b.
Definition cform_eqb (a b : cform) : bool :=
  match a, b with
  | Request, Request | RequestPagedAll, RequestPagedAll | LongRunningRequestPromise, LongRunningRequestPromise
  | RequestStreamingClient, RequestStreamingClient | RequestStreamingServer, RequestStreamingServer
  | RequestStreamingBidi, RequestStreamingBidi => true
  | _, _ => false
  end.
