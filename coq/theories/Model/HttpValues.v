(* Model/HttpValues.v — C04: the abstract request valuation the REST transcoding model works on.
   A request is a finite list of LEAVES (set scalar positions of the message, in field order): each leaf is a
   path from the root (field names as written in the .proto, map keys) and a value.  Repeated scalar fields give
   several leaves with the same path; presence of empty sub-messages is not represented (google.api.http cannot
   carry it in a query string and the harness normalises it away on both sides).  Definitions only. *)
From GV Require Import Base.Str.

(* one step of a path: a field (ORIGINAL proto name) or a map key (never renamed, never camel-cased) *)
Inductive comp := F (name : string) | K (key : string).
Definition path := list comp.

(* a scalar in the canonical text of its JSON rendering (true/false, decimal numbers, base64 for bytes,
   the text itself for strings), or an enum value carrying both its name and its decimal number *)
Inductive value := VS (text : string) | VE (name num : string).

Record leaf := mkLeaf {
  lpath : path;
  lval : value;
  lrep : bool          (* the leaf lies inside an element of a REPEATED MESSAGE field *)
}.
Definition req := list leaf.

Definition comp_eqb (a b : comp) : bool :=
  match a, b with
  | F x, F y => String.eqb x y
  | K x, K y => String.eqb x y
  | _, _ => false
  end.
Definition path_eqb (p q : path) : bool := list_eqb comp_eqb p q.
Definition value_eqb (a b : value) : bool :=
  match a, b with
  | VS x, VS y => String.eqb x y
  | VE n1 k1, VE n2 k2 => String.eqb n1 n2 && String.eqb k1 k2
  | _, _ => false
  end.
Definition leaf_eqb (a b : leaf) : bool :=
  path_eqb (lpath a) (lpath b) && value_eqb (lval a) (lval b) && Bool.eqb (lrep a) (lrep b).

(* p is a prefix of q *)
Fixpoint prefixb (p q : path) : bool :=
  match p, q with
  | [], _ => true
  | a :: p', b :: q' => comp_eqb a b && prefixb p' q'
  | _ :: _, [] => false
  end.

(* a dotted field path of an http rule ("book.name") as a path of field steps *)
Definition var_path (name : string) : path := map F (split_on "."%char name).

(* the top-level field a leaf belongs to *)
Definition head (l : leaf) : option string :=
  match lpath l with F n :: _ => Some n | _ => None end.

(* what str() of the attribute gives for a path variable: the text for scalars, the NUMBER for enums *)
Definition path_text (v : value) : string := match v with VS s => s | VE _ num => num end.
(* what MessageToJson gives: enums by name, or by number with use_integers_for_enums *)
Definition json_text (numeric : bool) (v : value) : string :=
  match v with VS s => s | VE name num => if numeric then num else name end.

(* multiset equality of small lists, for comparing unordered observations *)
Fixpoint remove1 {A} (eqb : A -> A -> bool) (x : A) (l : list A) : option (list A) :=
  match l with
  | [] => None
  | y :: l' => if eqb x y then Some l'
               else match remove1 eqb x l' with Some r => Some (y :: r) | None => None end
  end.
Fixpoint perm_eqb {A} (eqb : A -> A -> bool) (l1 l2 : list A) : bool :=
  match l1 with
  | [] => match l2 with [] => true | _ => false end
  | x :: l1' => match remove1 eqb x l2 with Some r => perm_eqb eqb l1' r | None => false end
  end.

Definition str_pair_eqb (a b : string * string) : bool := pair_eqb String.eqb String.eqb a b.
