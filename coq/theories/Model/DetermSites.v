(* Model/DetermSites.v — C10: classification of every set/sort site of the generator
   (hand-maintained through tools/c10_classify.py, whose per-scope rules are the record of the analysis).
   Membership      : the set is only tested for membership / size; its order never reaches the output.
   ConstantLookup  : a literal of constants used for membership.
   SortedTotal     : sorted() / sort_lines before use: the order is a function of the elements (Proofs/Determ.v).
   KeyedSort       : Jinja |sort(attribute=k), |sort or dictsort: deterministic iff keys are pairwise distinct up to case
                     (sort_by_perm_invariant); otherwise sort_by_tie_refuted applies.
   FlowsIntoSort   : an unordered value that reaches the output only through a SortedTotal or KeyedSort site.
   OrderPreserving : |unique: keeps the input order.
   The regenerated inventory Gen/DetermSites.v must equal the keys of this table (Proofs/DetermSites.v). *)
From GV Require Import Base.Str.
Inductive site_class := Membership | ConstantLookup | SortedTotal | KeyedSort | FlowsIntoSort | OrderPreserving.
Definition CLASSIFIED : list (string * site_class) := [
  ("gapic/schema/api.py|Proto.names|set-comprehension|1", Membership);
  ("gapic/schema/api.py|Proto.names|frozenset-call|1", Membership);
  ("gapic/schema/api.py|Proto.python_modules|set-comprehension|1", SortedTotal);
  ("gapic/schema/api.py|API.build|set-call|1", Membership);
  ("gapic/schema/api.py|API.build|set-literal|1", Membership);
  ("gapic/schema/api.py|API.build|set-call|2", Membership);
  ("gapic/schema/api.py|API.build|set-call|3", Membership);
  ("gapic/schema/api.py|API.subpackages|set-comprehension|1", SortedTotal);
  ("gapic/schema/api.py|API.enforce_valid_method_settings|set-call|1", Membership);
  ("gapic/schema/api.py|API.enforce_valid_library_settings|set-call|1", Membership);
  ("gapic/schema/api.py|API.get_extended_operations_services|set-call|1", FlowsIntoSort);
  ("gapic/schema/api.py|_ProtoBuilder.proto|set-call|1", Membership);
  ("gapic/schema/api.py|_ProtoBuilder._get_retry_and_timeout|frozenset-call|1", FlowsIntoSort);
  ("gapic/schema/naming.py|Naming.build|set-comprehension|1", Membership);
  ("gapic/schema/wrappers.py|Field.mock_value_original_type|set-call|1", Membership);
  ("gapic/schema/wrappers.py|Field.mock_value|set-call|1", Membership);
  ("gapic/schema/wrappers.py|MessageType.recursive_field_types|set-call|1", FlowsIntoSort);
  ("gapic/schema/wrappers.py|MessageType.recursive_resource_fields|frozenset-call|1", FlowsIntoSort);
  ("gapic/schema/wrappers.py|MessageType.get_field|set-call|1", Membership);
  ("gapic/schema/wrappers.py|MessageType.get_field|set-literal|1", Membership);
  ("gapic/schema/wrappers.py|MessageType.with_context|set-call|1", Membership);
  ("gapic/schema/wrappers.py|MessageType.with_context|set-literal|1", Membership);
  ("gapic/schema/wrappers.py|Method.transport_safe_name|set-literal|1", ConstantLookup);
  ("gapic/schema/wrappers.py|Method.query_params|set-call|1", Membership);
  ("gapic/schema/wrappers.py|Method.query_params|set-call|2", Membership);
  ("gapic/schema/wrappers.py|Method.query_params|set-call|3", Membership);
  ("gapic/schema/wrappers.py|Method.query_params|set-comprehension|1", Membership);
  ("gapic/schema/wrappers.py|Method.query_params|set-call|4", Membership);
  ("gapic/schema/wrappers.py|Method._validate_paged_field_size_type|set-literal|1", ConstantLookup);
  ("gapic/schema/wrappers.py|Service.names|set-literal|1", Membership);
  ("gapic/schema/wrappers.py|Service.names|frozenset-call|1", Membership);
  ("gapic/schema/wrappers.py|Service.resource_messages|frozenset-call|1", FlowsIntoSort);
  ("gapic/schema/wrappers.py|Service.with_context|set-call|1", Membership);
  ("gapic/utils/lines.py|sort_lines|set-call|1", SortedTotal);
  ("gapic/utils/options.py|Options|frozenset-call|1", ConstantLookup);
  ("gapic/utils/reserved_names.py|<module>|frozenset-call|1", ConstantLookup);
  ("gapic/utils/reserved_names.py|<module>|frozenset-call|2", ConstantLookup);
  ("gapic/samplegen/samplegen.py|<module>|frozenset-call|1", ConstantLookup);
  ("gapic/samplegen/samplegen.py|<module>|set-literal|1", ConstantLookup);
  ("gapic/samplegen/samplegen.py|Validator|frozenset-call|1", ConstantLookup);
  ("gapic/samplegen/samplegen.py|Validator.flattenable_fields|frozenset-call|1", Membership);
  ("gapic/samplegen/samplegen.py|Validator.validate_and_transform_request|set-call|1", Membership);
  ("gapic/samplegen/samplegen.py|Validator.validate_and_transform_request|set-call|2", Membership);
  ("gapic/samplegen/samplegen.py|Validator._validate_loop|set-call|1", Membership);
  ("gapic/samplegen/samplegen.py|Validator._validate_loop|set-literal|1", Membership);
  ("gapic/samplegen/samplegen.py|Validator._validate_loop|set-literal|2", Membership);
  ("gapic/samplegen/samplegen.py|Validator._validate_loop|set-literal|3", Membership);
  ("gapic/ads-templates/%namespace/%name/%version/%sub/services/%service/_shared_macros.j2||dictsort|1", KeyedSort);
  ((sx [103;97;112;105;99;47;97;100;115;45;116;101;109;112;108;97;116;101;115;47;37;110;97;109;101;115;112;97;99;101;47;37;110;97;109;101;47;37;118;101;114;115;105;111;110;47;37;115;117;98;47;115;101;114;118;105;99;101;115;47;37;115;101;114;118;105;99;101;47;95;115;104;97;114;101;100;95;109;97;99;114;111;115;46;106;50;124;124;115;111;114;116;40;97;116;116;114;105;98;117;116;101;61;34;110;97;109;101;34;41;124;49]%N), KeyedSort);
  ("gapic/ads-templates/%namespace/%name/%version/%sub/services/%service/_shared_macros.j2||sort(attribute='__name__')|1", KeyedSort);
  ((sx [103;97;112;105;99;47;97;100;115;45;116;101;109;112;108;97;116;101;115;47;37;110;97;109;101;115;112;97;99;101;47;37;110;97;109;101;47;37;118;101;114;115;105;111;110;47;37;115;117;98;47;115;101;114;118;105;99;101;115;47;37;115;101;114;118;105;99;101;47;99;108;105;101;110;116;46;112;121;46;106;50;124;124;115;111;114;116;40;97;116;116;114;105;98;117;116;101;61;34;114;101;115;111;117;114;99;101;95;116;121;112;101;34;41;124;49]%N), KeyedSort);
  ((sx [103;97;112;105;99;47;97;100;115;45;116;101;109;112;108;97;116;101;115;47;37;110;97;109;101;115;112;97;99;101;47;37;110;97;109;101;47;37;118;101;114;115;105;111;110;47;37;115;117;98;47;115;101;114;118;105;99;101;115;47;37;115;101;114;118;105;99;101;47;99;108;105;101;110;116;46;112;121;46;106;50;124;124;115;111;114;116;40;97;116;116;114;105;98;117;116;101;61;34;114;101;115;111;117;114;99;101;95;116;121;112;101;95;102;117;108;108;95;112;97;116;104;34;44;32;99;97;115;101;95;115;101;110;115;105;116;105;118;101;61;84;114;117;101;41;124;49]%N), KeyedSort);
  ((sx [103;97;112;105;99;47;97;100;115;45;116;101;109;112;108;97;116;101;115;47;37;110;97;109;101;115;112;97;99;101;47;37;110;97;109;101;47;37;118;101;114;115;105;111;110;47;37;115;117;98;47;115;101;114;118;105;99;101;115;47;37;115;101;114;118;105;99;101;47;99;108;105;101;110;116;46;112;121;46;106;50;124;124;115;111;114;116;40;97;116;116;114;105;98;117;116;101;61;34;116;121;112;101;95;110;97;109;101;34;41;124;49]%N), KeyedSort);
  ("gapic/ads-templates/%namespace/%name/%version/%sub/services/%service/transports/base.py.j2||sort(attribute='__name__')|1", KeyedSort);
  ((sx [103;97;112;105;99;47;97;100;115;45;116;101;109;112;108;97;116;101;115;47;37;110;97;109;101;115;112;97;99;101;47;37;110;97;109;101;47;37;118;101;114;115;105;111;110;47;37;115;117;98;47;115;101;114;118;105;99;101;115;47;37;115;101;114;118;105;99;101;47;116;114;97;110;115;112;111;114;116;115;47;114;101;115;116;46;112;121;46;106;50;124;124;115;111;114;116;40;97;116;116;114;105;98;117;116;101;61;34;110;97;109;101;34;41;124;49]%N), KeyedSort);
  ((sx [103;97;112;105;99;47;97;100;115;45;116;101;109;112;108;97;116;101;115;47;37;110;97;109;101;115;112;97;99;101;47;37;110;97;109;101;47;37;118;101;114;115;105;111;110;47;37;115;117;98;47;115;101;114;118;105;99;101;115;47;37;115;101;114;118;105;99;101;47;116;114;97;110;115;112;111;114;116;115;47;114;101;115;116;46;112;121;46;106;50;124;124;115;111;114;116;40;97;116;116;114;105;98;117;116;101;61;34;110;97;109;101;34;41;124;50]%N), KeyedSort);
  ((sx [103;97;112;105;99;47;97;100;115;45;116;101;109;112;108;97;116;101;115;47;37;110;97;109;101;115;112;97;99;101;47;37;110;97;109;101;47;37;118;101;114;115;105;111;110;47;37;115;117;98;47;115;101;114;118;105;99;101;115;47;37;115;101;114;118;105;99;101;47;116;114;97;110;115;112;111;114;116;115;47;114;101;115;116;95;98;97;115;101;46;112;121;46;106;50;124;124;115;111;114;116;40;97;116;116;114;105;98;117;116;101;61;34;110;97;109;101;34;41;124;49]%N), KeyedSort);
  ("gapic/ads-templates/%namespace/%name/%version/__init__.py.j2||dictsort|1", KeyedSort);
  ("gapic/ads-templates/%namespace/%name/%version/__init__.py.j2||dictsort|2", KeyedSort);
  ("gapic/ads-templates/%namespace/%name/%version/__init__.py.j2||dictsort|3", KeyedSort);
  ("gapic/ads-templates/%namespace/%name/%version/__init__.py.j2||dictsort|4", KeyedSort);
  ("gapic/ads-templates/%namespace/%name/%version/__init__.py.j2||dictsort|5", KeyedSort);
  ("gapic/ads-templates/%namespace/%name/%version/__init__.py.j2||sort(attribute='module_name')|1", KeyedSort);
  ("gapic/ads-templates/%namespace/%name/%version/__init__.py.j2||sort(attribute='module_name')|2", KeyedSort);
  ("gapic/ads-templates/%namespace/%name/%version/__init__.py.j2||sort(attribute='name')|1", KeyedSort);
  ("gapic/ads-templates/%namespace/%name/%version/__init__.py.j2||sort(attribute='name')|2", KeyedSort);
  ("gapic/ads-templates/%namespace/%name/%version/__init__.py.j2||sort(attribute='name')|3", KeyedSort);
  ("gapic/ads-templates/%namespace/%name/%version/__init__.py.j2||sort(attribute='name')|4", KeyedSort);
  ("gapic/ads-templates/%namespace/%name/%version/__init__.py.j2||sort(attribute='name')|5", KeyedSort);
  ("gapic/ads-templates/%namespace/%name/%version/__init__.py.j2||sort(attribute='name')|6", KeyedSort);
  ("gapic/ads-templates/%namespace/%name/__init__.py.j2||dictsort|1", KeyedSort);
  ("gapic/ads-templates/%namespace/%name/__init__.py.j2||dictsort|2", KeyedSort);
  ("gapic/ads-templates/%namespace/%name/__init__.py.j2||dictsort|3", KeyedSort);
  ("gapic/ads-templates/%namespace/%name/__init__.py.j2||dictsort|4", KeyedSort);
  ("gapic/ads-templates/%namespace/%name/__init__.py.j2||dictsort|5", KeyedSort);
  ("gapic/ads-templates/%namespace/%name/__init__.py.j2||sort(attribute='module_name')|1", KeyedSort);
  ("gapic/ads-templates/%namespace/%name/__init__.py.j2||sort(attribute='module_name')|2", KeyedSort);
  ("gapic/ads-templates/%namespace/%name/__init__.py.j2||sort(attribute='name')|1", KeyedSort);
  ("gapic/ads-templates/%namespace/%name/__init__.py.j2||sort(attribute='name')|2", KeyedSort);
  ("gapic/ads-templates/%namespace/%name/__init__.py.j2||sort(attribute='name')|3", KeyedSort);
  ("gapic/ads-templates/%namespace/%name/__init__.py.j2||sort(attribute='name')|4", KeyedSort);
  ("gapic/ads-templates/%namespace/%name/__init__.py.j2||sort(attribute='name')|5", KeyedSort);
  ("gapic/ads-templates/%namespace/%name/__init__.py.j2||sort(attribute='name')|6", KeyedSort);
  ("gapic/ads-templates/docs/%name_%version/services.rst.j2||sort(attribute='name')|1", KeyedSort);
  ("gapic/ads-templates/scripts/fixup_%name_%version_keywords.py.j2||sort(attribute='name')|1", KeyedSort);
  ("gapic/ads-templates/scripts/fixup_%name_%version_keywords.py.j2||unique(attribute='name', case_sensitive=True)|1", OrderPreserving);
  ("gapic/ads-templates/tests/unit/gapic/%name_%version/%sub/test_%service.py.j2||sort|1", KeyedSort);
  ("gapic/ads-templates/tests/unit/gapic/%name_%version/%sub/test_%service.py.j2||sort|2", KeyedSort);
  ((sx [103;97;112;105;99;47;97;100;115;45;116;101;109;112;108;97;116;101;115;47;116;101;115;116;115;47;117;110;105;116;47;103;97;112;105;99;47;37;110;97;109;101;95;37;118;101;114;115;105;111;110;47;37;115;117;98;47;116;101;115;116;95;37;115;101;114;118;105;99;101;46;112;121;46;106;50;124;124;115;111;114;116;40;97;116;116;114;105;98;117;116;101;61;34;114;101;115;111;117;114;99;101;95;116;121;112;101;34;41;124;49]%N), KeyedSort);
  ((sx [103;97;112;105;99;47;97;100;115;45;116;101;109;112;108;97;116;101;115;47;116;101;115;116;115;47;117;110;105;116;47;103;97;112;105;99;47;37;110;97;109;101;95;37;118;101;114;115;105;111;110;47;37;115;117;98;47;116;101;115;116;95;37;115;101;114;118;105;99;101;46;112;121;46;106;50;124;124;115;111;114;116;40;97;116;116;114;105;98;117;116;101;61;34;114;101;115;111;117;114;99;101;95;116;121;112;101;95;102;117;108;108;95;112;97;116;104;34;44;32;99;97;115;101;95;115;101;110;115;105;116;105;118;101;61;84;114;117;101;41;124;49]%N), KeyedSort);
  ((sx [103;97;112;105;99;47;97;100;115;45;116;101;109;112;108;97;116;101;115;47;116;101;115;116;115;47;117;110;105;116;47;103;97;112;105;99;47;37;110;97;109;101;95;37;118;101;114;115;105;111;110;47;37;115;117;98;47;116;101;115;116;95;37;115;101;114;118;105;99;101;46;112;121;46;106;50;124;124;115;111;114;116;40;97;116;116;114;105;98;117;116;101;61;34;116;121;112;101;95;110;97;109;101;34;41;124;49]%N), KeyedSort);
  ("gapic/templates/%namespace/%name/__init__.py.j2||dictsort|1", KeyedSort);
  ("gapic/templates/%namespace/%name/__init__.py.j2||dictsort|2", KeyedSort);
  ("gapic/templates/%namespace/%name/__init__.py.j2||sort(attribute='module_name')|1", KeyedSort);
  ("gapic/templates/%namespace/%name/__init__.py.j2||sort(attribute='module_name')|2", KeyedSort);
  ("gapic/templates/%namespace/%name/__init__.py.j2||sort(attribute='name')|1", KeyedSort);
  ("gapic/templates/%namespace/%name/__init__.py.j2||sort(attribute='name')|2", KeyedSort);
  ("gapic/templates/%namespace/%name/__init__.py.j2||sort(attribute='name')|3", KeyedSort);
  ("gapic/templates/%namespace/%name/__init__.py.j2||sort(attribute='name')|4", KeyedSort);
  ("gapic/templates/%namespace/%name/__init__.py.j2||sort(attribute='name')|5", KeyedSort);
  ("gapic/templates/%namespace/%name/__init__.py.j2||sort(attribute='name')|6", KeyedSort);
  ("gapic/templates/%namespace/%name_%version/%sub/__init__.py.j2||dictsort|1", KeyedSort);
  ("gapic/templates/%namespace/%name_%version/%sub/__init__.py.j2||sort(attribute='name')|1", KeyedSort);
  ("gapic/templates/%namespace/%name_%version/%sub/__init__.py.j2||sort(attribute='name')|2", KeyedSort);
  ("gapic/templates/%namespace/%name_%version/%sub/__init__.py.j2||sort(attribute='name')|3", KeyedSort);
  ("gapic/templates/%namespace/%name_%version/%sub/__init__.py.j2||sort(attribute='name')|4", KeyedSort);
  ("gapic/templates/%namespace/%name_%version/%sub/__init__.py.j2||sort(attribute='name')|5", KeyedSort);
  ("gapic/templates/%namespace/%name_%version/%sub/services/%service/_shared_macros.j2||dictsort|1", KeyedSort);
  ((sx [103;97;112;105;99;47;116;101;109;112;108;97;116;101;115;47;37;110;97;109;101;115;112;97;99;101;47;37;110;97;109;101;95;37;118;101;114;115;105;111;110;47;37;115;117;98;47;115;101;114;118;105;99;101;115;47;37;115;101;114;118;105;99;101;47;95;115;104;97;114;101;100;95;109;97;99;114;111;115;46;106;50;124;124;115;111;114;116;40;97;116;116;114;105;98;117;116;101;61;34;110;97;109;101;34;41;124;49]%N), KeyedSort);
  ("gapic/templates/%namespace/%name_%version/%sub/services/%service/_shared_macros.j2||sort(attribute='__name__')|1", KeyedSort);
  ((sx [103;97;112;105;99;47;116;101;109;112;108;97;116;101;115;47;37;110;97;109;101;115;112;97;99;101;47;37;110;97;109;101;95;37;118;101;114;115;105;111;110;47;37;115;117;98;47;115;101;114;118;105;99;101;115;47;37;115;101;114;118;105;99;101;47;97;115;121;110;99;95;99;108;105;101;110;116;46;112;121;46;106;50;124;124;115;111;114;116;40;97;116;116;114;105;98;117;116;101;61;34;114;101;115;111;117;114;99;101;95;116;121;112;101;34;41;124;49]%N), KeyedSort);
  ((sx [103;97;112;105;99;47;116;101;109;112;108;97;116;101;115;47;37;110;97;109;101;115;112;97;99;101;47;37;110;97;109;101;95;37;118;101;114;115;105;111;110;47;37;115;117;98;47;115;101;114;118;105;99;101;115;47;37;115;101;114;118;105;99;101;47;97;115;121;110;99;95;99;108;105;101;110;116;46;112;121;46;106;50;124;124;115;111;114;116;40;97;116;116;114;105;98;117;116;101;61;34;114;101;115;111;117;114;99;101;95;116;121;112;101;95;102;117;108;108;95;112;97;116;104;34;44;32;99;97;115;101;95;115;101;110;115;105;116;105;118;101;61;84;114;117;101;41;124;49]%N), KeyedSort);
  ((sx [103;97;112;105;99;47;116;101;109;112;108;97;116;101;115;47;37;110;97;109;101;115;112;97;99;101;47;37;110;97;109;101;95;37;118;101;114;115;105;111;110;47;37;115;117;98;47;115;101;114;118;105;99;101;115;47;37;115;101;114;118;105;99;101;47;97;115;121;110;99;95;99;108;105;101;110;116;46;112;121;46;106;50;124;124;115;111;114;116;40;97;116;116;114;105;98;117;116;101;61;34;116;121;112;101;95;110;97;109;101;34;41;124;49]%N), KeyedSort);
  ((sx [103;97;112;105;99;47;116;101;109;112;108;97;116;101;115;47;37;110;97;109;101;115;112;97;99;101;47;37;110;97;109;101;95;37;118;101;114;115;105;111;110;47;37;115;117;98;47;115;101;114;118;105;99;101;115;47;37;115;101;114;118;105;99;101;47;99;108;105;101;110;116;46;112;121;46;106;50;124;124;115;111;114;116;40;97;116;116;114;105;98;117;116;101;61;34;114;101;115;111;117;114;99;101;95;116;121;112;101;34;41;124;49]%N), KeyedSort);
  ((sx [103;97;112;105;99;47;116;101;109;112;108;97;116;101;115;47;37;110;97;109;101;115;112;97;99;101;47;37;110;97;109;101;95;37;118;101;114;115;105;111;110;47;37;115;117;98;47;115;101;114;118;105;99;101;115;47;37;115;101;114;118;105;99;101;47;99;108;105;101;110;116;46;112;121;46;106;50;124;124;115;111;114;116;40;97;116;116;114;105;98;117;116;101;61;34;114;101;115;111;117;114;99;101;95;116;121;112;101;95;102;117;108;108;95;112;97;116;104;34;44;32;99;97;115;101;95;115;101;110;115;105;116;105;118;101;61;84;114;117;101;41;124;49]%N), KeyedSort);
  ((sx [103;97;112;105;99;47;116;101;109;112;108;97;116;101;115;47;37;110;97;109;101;115;112;97;99;101;47;37;110;97;109;101;95;37;118;101;114;115;105;111;110;47;37;115;117;98;47;115;101;114;118;105;99;101;115;47;37;115;101;114;118;105;99;101;47;99;108;105;101;110;116;46;112;121;46;106;50;124;124;115;111;114;116;40;97;116;116;114;105;98;117;116;101;61;34;116;121;112;101;95;110;97;109;101;34;41;124;49]%N), KeyedSort);
  ((sx [103;97;112;105;99;47;116;101;109;112;108;97;116;101;115;47;37;110;97;109;101;115;112;97;99;101;47;37;110;97;109;101;95;37;118;101;114;115;105;111;110;47;37;115;117;98;47;115;101;114;118;105;99;101;115;47;37;115;101;114;118;105;99;101;47;116;114;97;110;115;112;111;114;116;115;47;98;97;115;101;46;112;121;46;106;50;124;124;115;111;114;116;40;97;116;116;114;105;98;117;116;101;61;34;110;97;109;101;34;41;124;49]%N), KeyedSort);
  ("gapic/templates/%namespace/%name_%version/%sub/services/%service/transports/base.py.j2||sort(attribute='__name__')|1", KeyedSort);
  ((sx [103;97;112;105;99;47;116;101;109;112;108;97;116;101;115;47;37;110;97;109;101;115;112;97;99;101;47;37;110;97;109;101;95;37;118;101;114;115;105;111;110;47;37;115;117;98;47;115;101;114;118;105;99;101;115;47;37;115;101;114;118;105;99;101;47;116;114;97;110;115;112;111;114;116;115;47;114;101;115;116;46;112;121;46;106;50;124;124;115;111;114;116;40;97;116;116;114;105;98;117;116;101;61;34;110;97;109;101;34;41;124;49]%N), KeyedSort);
  ((sx [103;97;112;105;99;47;116;101;109;112;108;97;116;101;115;47;37;110;97;109;101;115;112;97;99;101;47;37;110;97;109;101;95;37;118;101;114;115;105;111;110;47;37;115;117;98;47;115;101;114;118;105;99;101;115;47;37;115;101;114;118;105;99;101;47;116;114;97;110;115;112;111;114;116;115;47;114;101;115;116;46;112;121;46;106;50;124;124;115;111;114;116;40;97;116;116;114;105;98;117;116;101;61;34;110;97;109;101;34;41;124;50]%N), KeyedSort);
  ((sx [103;97;112;105;99;47;116;101;109;112;108;97;116;101;115;47;37;110;97;109;101;115;112;97;99;101;47;37;110;97;109;101;95;37;118;101;114;115;105;111;110;47;37;115;117;98;47;115;101;114;118;105;99;101;115;47;37;115;101;114;118;105;99;101;47;116;114;97;110;115;112;111;114;116;115;47;114;101;115;116;95;97;115;121;110;99;105;111;46;112;121;46;106;50;124;124;115;111;114;116;40;97;116;116;114;105;98;117;116;101;61;34;110;97;109;101;34;41;124;49]%N), KeyedSort);
  ((sx [103;97;112;105;99;47;116;101;109;112;108;97;116;101;115;47;37;110;97;109;101;115;112;97;99;101;47;37;110;97;109;101;95;37;118;101;114;115;105;111;110;47;37;115;117;98;47;115;101;114;118;105;99;101;115;47;37;115;101;114;118;105;99;101;47;116;114;97;110;115;112;111;114;116;115;47;114;101;115;116;95;97;115;121;110;99;105;111;46;112;121;46;106;50;124;124;115;111;114;116;40;97;116;116;114;105;98;117;116;101;61;34;110;97;109;101;34;41;124;50]%N), KeyedSort);
  ((sx [103;97;112;105;99;47;116;101;109;112;108;97;116;101;115;47;37;110;97;109;101;115;112;97;99;101;47;37;110;97;109;101;95;37;118;101;114;115;105;111;110;47;37;115;117;98;47;115;101;114;118;105;99;101;115;47;37;115;101;114;118;105;99;101;47;116;114;97;110;115;112;111;114;116;115;47;114;101;115;116;95;98;97;115;101;46;112;121;46;106;50;124;124;115;111;114;116;40;97;116;116;114;105;98;117;116;101;61;34;110;97;109;101;34;41;124;49]%N), KeyedSort);
  ("gapic/templates/%namespace/%name_%version/%sub/types/__init__.py.j2||dictsort|1", KeyedSort);
  ("gapic/templates/%namespace/%name_%version/%sub/types/__init__.py.j2||dictsort|2", KeyedSort);
  ("gapic/templates/%namespace/%name_%version/%sub/types/__init__.py.j2||dictsort|3", KeyedSort);
  ("gapic/templates/%namespace/%name_%version/%sub/types/__init__.py.j2||dictsort|4", KeyedSort);
  ("gapic/templates/%namespace/%name_%version/%sub/types/__init__.py.j2||dictsort|5", KeyedSort);
  ("gapic/templates/%namespace/%name_%version/%sub/types/__init__.py.j2||dictsort|6", KeyedSort);
  ("gapic/templates/docs/%name_%version/services_.rst.j2||sort(attribute='name')|1", KeyedSort);
  ("gapic/templates/scripts/fixup_%name_%version_keywords.py.j2||sort(attribute='name')|1", KeyedSort);
  ("gapic/templates/scripts/fixup_%name_%version_keywords.py.j2||unique(attribute='name', case_sensitive=True)|1", OrderPreserving);
  ((sx [103;97;112;105;99;47;116;101;109;112;108;97;116;101;115;47;116;101;115;116;115;47;117;110;105;116;47;103;97;112;105;99;47;37;110;97;109;101;95;37;118;101;114;115;105;111;110;47;37;115;117;98;47;116;101;115;116;95;37;115;101;114;118;105;99;101;46;112;121;46;106;50;124;124;115;111;114;116;40;97;116;116;114;105;98;117;116;101;61;34;114;101;115;111;117;114;99;101;95;116;121;112;101;34;41;124;49]%N), KeyedSort);
  ((sx [103;97;112;105;99;47;116;101;109;112;108;97;116;101;115;47;116;101;115;116;115;47;117;110;105;116;47;103;97;112;105;99;47;37;110;97;109;101;95;37;118;101;114;115;105;111;110;47;37;115;117;98;47;116;101;115;116;95;37;115;101;114;118;105;99;101;46;112;121;46;106;50;124;124;115;111;114;116;40;97;116;116;114;105;98;117;116;101;61;34;114;101;115;111;117;114;99;101;95;116;121;112;101;95;102;117;108;108;95;112;97;116;104;34;44;32;99;97;115;101;95;115;101;110;115;105;116;105;118;101;61;84;114;117;101;41;124;49]%N), KeyedSort);
  ((sx [103;97;112;105;99;47;116;101;109;112;108;97;116;101;115;47;116;101;115;116;115;47;117;110;105;116;47;103;97;112;105;99;47;37;110;97;109;101;95;37;118;101;114;115;105;111;110;47;37;115;117;98;47;116;101;115;116;95;37;115;101;114;118;105;99;101;46;112;121;46;106;50;124;124;115;111;114;116;40;97;116;116;114;105;98;117;116;101;61;34;116;121;112;101;95;110;97;109;101;34;41;124;49]%N), KeyedSort);
  ("gapic/templates/tests/unit/gapic/%name_%version/%sub/test_macros.j2||sort|1", KeyedSort);
  ("gapic/templates/tests/unit/gapic/%name_%version/%sub/test_macros.j2||sort|2", KeyedSort)
].
