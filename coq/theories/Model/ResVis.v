(* Model/ResVis.v — C19: which resources a service sees (wrappers.Service.resource_messages):
   for every method, from the request and from the response (the LRO response type for long-running methods), the message
   itself and every message type reachable through message-typed fields contribute (a) their own resource (first pattern)
   and (b) every resource named by a resource_reference (type or child_type) of their fields that the API's resource table
   knows.  The traversal is the visited-set search of Model/Selective.v instantiated with "types of the fields". *)
From GV Require Import Base.Str Model.Selective Model.Case Model.ResPath.

Record vmsg := mkV {
  vm_name : addr;
  vm_ftypes : list addr;                 (* types of its message-typed fields, in declaration order *)
  vm_refs : list string;                 (* resource_reference.type or .child_type of its fields *)
  vm_res : option (string * string)      (* own resource: (type, first pattern) *)
}.
Definition vschema := list vmsg.
Definition rtable := list (string * string).   (* resource type -> first pattern: file-level definitions, then top-level messages *)

Fixpoint vfind (sch : vschema) (a : addr) : option vmsg :=
  match sch with [] => None | m :: r => if String.eqb (vm_name m) a then Some m else vfind r a end.
Definition vnext (sch : vschema) (a : addr) : list addr :=
  match vfind sch a with Some m => vm_ftypes m | None => [] end.
Definition vuniverse (sch : vschema) (roots : list addr) : list addr :=
  roots ++ flat_map vm_ftypes sch.
Definition vclosure (sch : vschema) (roots : list addr) : option (list addr) :=
  dfs (vnext sch) (length (vuniverse sch roots)) roots [].

Definition helpers_of (tbl : rtable) (m : vmsg) : list (string * string) :=
  opt_list (vm_res m) ++
  flat_map (fun t => match assoc t tbl with Some p => [(t, p)] | None => [] end) (vm_refs m).
Definition visible (sch : vschema) (tbl : rtable) (roots : list addr) : option (list (string * string)) :=
  match vclosure sch roots with
  | None => None
  | Some r => Some (flat_map (fun a => match vfind sch a with Some m => helpers_of tbl m | None => [] end) r)
  end.

(* the emitted helper of a resource: name and format string *)
Fixpoint after_slash (s : string) : option string :=
  match s with EmptyString => None | String c s' => if Ascii.eqb c "/"%char then Some s' else after_slash s' end.
(* resource.type[resource.type.find("/") + 1 :] *)
Definition short_type (t : string) : string := match after_slash t with Some r => r | None => t end.
Definition helper_name (t : string) : string := snake (short_type t) ++ "_path".
Definition helper_sig (h : string * string) : string * string := (helper_name (fst h), formatted (tokenize (snd h))).

(* the same search with the visited set keyed by a projection of the address (for instance the short message name) *)
Section Keyed.
  Variable next : addr -> list addr.
  Variable key : addr -> string.
  Fixpoint dfs_by (n : nat) : list addr -> list addr -> option (list addr) :=
    fix go (todo seen : list addr) {struct todo} : option (list addr) :=
      match todo with
      | [] => Some seen
      | a :: rest =>
          if mem_str (key a) (map key seen) then go rest seen
          else match n with
               | O => None
               | S n' => dfs_by n' (next a ++ rest) (a :: seen)
               end
      end.
End Keyed.

(* "Shelf.Details" -> "Details": the part after the last dot *)
Fixpoint short_name_aux (s acc : string) : string :=
  match s with
  | EmptyString => acc
  | String c s' => if Ascii.eqb c "."%char then short_name_aux s' "" else short_name_aux s' (acc ++ String c "")
  end.
Definition short_name (a : addr) : string := short_name_aux a "".

Definition visible_by (key : addr -> string) (sch : vschema) (tbl : rtable) (roots : list addr) : option (list (string * string)) :=
  match dfs_by (vnext sch) key (length (vuniverse sch roots)) roots [] with
  | None => None
  | Some r => Some (flat_map (fun a => match vfind sch a with Some m => helpers_of tbl m | None => [] end) r)
  end.

