(* Model/MockDfs.v — C13: Field.mock_value_original_type, the recursive mock value with its shared visited set *)
From GV Require Import Base.Str.
From Coq Require Import ZArith.

Inductive pk := PkBool | PkStr | PkBytes | PkInt | PkFloat.
Inductive mkind :=
| MPrim (p : pk)
| MEnum (numbers : list Z)            (* enum value numbers in declaration order *)
| MMsg (name : string)                (* message-typed field; name = message type *)
| MMapEntry (entry : string)          (* map field; its type is the synthesised entry message *)
| MAny.                               (* google.protobuf.Any *)
Record mfield := { mf_name : string; mf_kind : mkind; mf_rep : bool }.
Definition mschema := list (string * list mfield).

Inductive mval :=
| MVNone | MVBool | MVStr (s : string) | MVBytes (s : string) | MVInt (z : Z) | MVFloat (field : string) (suffix : nat)
| MVEnum (z : Z) | MVAnyDuration
| MVDict (d : list (string * mval)) | MVList (l : list mval).

Fixpoint name_sum (s : string) : Z :=
  match s with EmptyString => 0%Z | String c s' => (Z.of_N (ord c) + name_sum s')%Z end.
Definition suffix_str (n : nat) : string := match n with 0 => "" | 1 => "1" | _ => "2" end.

(* Field.primitive_mock(suffix) or None *)
Definition prim_mock (name : string) (p : pk) (suffix : nat) : mval :=
  match p with
  | PkBool => MVBool
  | PkStr => if String.eqb name "type_url" then MVStr "type.googleapis.com/google.protobuf.Empty"
             else MVStr (name ++ "_value" ++ suffix_str suffix)
  | PkBytes => MVBytes (name ++ "_blob" ++ suffix_str suffix)
  | PkInt => let z := (name_sum name + Z.of_nat suffix)%Z in if Z.eqb z 0 then MVNone else MVInt z
  | PkFloat => MVFloat name suffix
  end.

Definition first_truthy (numbers : list Z) : option Z :=
  match filter (fun z => negb (Z.eqb z 0)) numbers with
  | z :: _ => Some z
  | [] => match numbers with z :: _ => Some z | [] => None end
  end.

Fixpoint mock (fuel : nat) (sch : mschema) (visited : list string) (f : mfield) {struct fuel}
  : option (mval * list string) :=
  match fuel with
  | O => None
  | S fuel' =>
      match mf_kind f with
      | MMsg n =>
          if mem_str n visited then Some (MVDict [], visited) else
          match assoc n sch with
          | None => None
          | Some fs =>
              match (fix go (fs : list mfield) (vis : list string) : option (list (string * mval) * list string) :=
                       match fs with
                       | [] => Some ([], vis)
                       | g :: fs' =>
                           match mock fuel' sch vis g with
                           | None => None
                           | Some (v, vis') =>
                               match go fs' vis' with
                               | None => None
                               | Some (r, vis'') => Some ((mf_name g, v) :: r, vis'')
                               end
                           end
                       end) fs (n :: visited) with
              | None => None
              | Some (d, vis) => Some (if mf_rep f then MVList [MVDict d] else MVDict d, vis)
              end
          end
      | MMapEntry e =>
          if mem_str e visited then Some (MVDict [], visited) else Some (MVDict [], e :: visited)
      | MAny => Some (if mf_rep f then MVList [MVAnyDuration] else MVAnyDuration, "google.protobuf.Any" :: visited)
      | MEnum numbers =>
          match first_truthy numbers with
          | None => None                        (* an enum without values: protoc rejects it *)
          | Some z => Some (if mf_rep f then MVList [MVEnum z] else MVEnum z, visited)
          end
      | MPrim p =>
          Some (if mf_rep f then MVList [prim_mock (mf_name f) p 1; prim_mock (mf_name f) p 2]
                else prim_mock (mf_name f) p 0, visited)
      end
  end.

(* ---- well-formedness and the measure ---- *)
Definition names (sch : mschema) : list string := map fst sch.
Definition unvisited (sch : mschema) (visited : list string) : nat :=
  length (filter (fun n => negb (mem_str n visited)) (names sch)).
Definition field_wf (sch : mschema) (f : mfield) : Prop :=
  match mf_kind f with
  | MMsg n => In n (names sch)
  | MEnum numbers => numbers <> []
  | _ => True
  end.
Definition schema_wf (sch : mschema) : Prop :=
  forall n fs, In (n, fs) sch -> Forall (field_wf sch) fs.
