(* Model/Lro.v — C08: long-running operations.
   Mirrors
     gapic/schema/api.py      API.build (two passes over the request: the second pass sees the messages of
                              every file), _ProtoBuilder._maybe_get_lro, _resolve_lro_type, api_messages
     gapic/schema/metadata.py Address.resolve
     templates  _client_macros.j2 / async_client.py.j2 (method.lro branch), transports/grpc*.py.j2 (operations_client)
   and, as a contract about code outside the generator, google.api_core.operation(.Operation|_async.AsyncOperation),
   protobuf_helpers.from_any_pb and Any.Unpack.
   Definitions only. *)
From GV Require Import Base.Str.

(* ------------------------------------------------------------------ schema subset *)
(* one file of the CodeGeneratorRequest: its messages are full names without the leading dot, nested ones included *)
Record file := mkFile {
  f_name : string;
  f_package : string;
  f_deps : list string;           (* names of imported files; deliberately unused by the lookup *)
  f_messages : list string
}.

(* google.longrunning.operation_info, when the extension is present on the method *)
Record opinfo := mkOp { oi_response : string; oi_metadata : string }.

Record method := mkMethod {
  m_name : string;
  m_output : string;              (* as in the descriptor, with its leading dot *)
  m_opinfo : option opinfo
}.

Definition dot : ascii := "."%char.

(* Address.resolve: a selector without a dot is relative to the package, anything else is taken as written *)
Definition resolve (pkg sel : string) : string :=
  if contains dot sel then sel else pkg ++ "." ++ sel.

(* api_messages of the second pass: ChainMap over this file and every file of the request *)
Definition universe (files : list file) : list string := flat_map f_messages files.
Definition known (files : list file) (key : string) : bool := mem_str key (universe files).

(* _ProtoBuilder._resolve_lro_type: the name as Address.resolve reads it wins when it is a known message; otherwise a
   dotted name is tried relative to the package (a nested message such as Outer.Inner); when neither reading is known
   the as-written key is kept (and the lookup that follows fails on it) *)
Definition relative_key (pkg sel : string) : string := pkg ++ "." ++ sel.
Definition resolve_lro (files : list file) (pkg sel : string) : string :=
  let key := resolve pkg sel in
  if known files key then key
  else if known files (relative_key pkg sel) then relative_key pkg sel
  else key.

Definition OPERATION_SUFFIX : string := "google.longrunning.Operation".
Definition OPERATION_TYPE : string := ".google.longrunning.Operation".

(* the generator's error enum for this function *)
Inductive gen_error := ErrMissingType (* TypeError *) | ErrUnknownType (key : string) (* KeyError *).

Inductive decision :=
| Plain                                  (* not an Operation-returning method *)
| Raw                                    (* returns the Operation message itself *)
| Lro (response metadata : string)       (* resolved full names of the two annotated types *)
| Rejected (e : gen_error).

(* _maybe_get_lro *)
Definition decide (files : list file) (pkg : string) (m : method) : decision :=
  if ends_with OPERATION_SUFFIX (m_output m) then
    match m_opinfo m with
    | None => Raw
    | Some oi =>
        if is_empty (oi_response oi) || is_empty (oi_metadata oi) then Rejected ErrMissingType
        else
          let rk := resolve_lro files pkg (oi_response oi) in
          let mk := resolve_lro files pkg (oi_metadata oi) in
          if negb (known files rk) then Rejected (ErrUnknownType rk)
          else if negb (known files mk) then Rejected (ErrUnknownType mk)
          else Lro rk mk
    end
  else Plain.

(* comparison used by the correspondence checks *)
Definition gen_error_eqb (a b : gen_error) : bool :=
  match a, b with
  | ErrMissingType, ErrMissingType => true
  | ErrUnknownType x, ErrUnknownType y => String.eqb x y
  | _, _ => false
  end.
Definition decision_eqb (a b : decision) : bool :=
  match a, b with
  | Plain, Plain | Raw, Raw => true
  | Lro r m, Lro r' m' => String.eqb r r' && String.eqb m m'
  | Rejected e, Rejected e' => gen_error_eqb e e'
  | _, _ => false
  end.

(* ------------------------------------------------------------------ the emitted wrapping *)
(* response = <module>.from_gapic(response, <client expr>, <ResponseType>, metadata_type=<MetadataType>)
   and the transport's operations_client property: <ctor>(<channel expr>), cached in self._operations_client *)
Record wrapping := mkWrap {
  w_module : string;              (* operation | operation_async *)
  w_func : string;                (* from_gapic *)
  w_first : string;               (* response *)
  w_client : string;              (* the expression giving the operations client *)
  w_result_type : string;         (* full proto name the third positional argument denotes *)
  w_metadata_kw : string;         (* metadata_type *)
  w_metadata_type : string        (* full proto name the keyword argument denotes *)
}.

Definition emit_wrap (async : bool) (response metadata : string) : wrapping :=
  mkWrap (if async then "operation_async" else "operation") "from_gapic" "response"
         (if async then "self._client._transport.operations_client" else "self._transport.operations_client")
         response "metadata_type" metadata.

Record ops_client := mkOps { oc_ctor : string; oc_channel : string; oc_cached_in : string }.
Definition emit_ops_client (async : bool) : ops_client :=
  mkOps (if async then "operations_v1.OperationsAsyncClient" else "operations_v1.OperationsClient")
        "self._logged_channel" "self._operations_client".

Definition wrapping_eqb (a b : wrapping) : bool :=
  String.eqb (w_module a) (w_module b) && String.eqb (w_func a) (w_func b) && String.eqb (w_first a) (w_first b)
  && String.eqb (w_client a) (w_client b) && String.eqb (w_result_type a) (w_result_type b)
  && String.eqb (w_metadata_kw a) (w_metadata_kw b) && String.eqb (w_metadata_type a) (w_metadata_type b).
Definition ops_client_eqb (a b : ops_client) : bool :=
  String.eqb (oc_ctor a) (oc_ctor b) && String.eqb (oc_channel a) (oc_channel b) && String.eqb (oc_cached_in a) (oc_cached_in b).

(* what a client method hands back, as a function of the decision *)
Inductive client_return := ReturnsMessage | ReturnsRawOperation | ReturnsFuture (w : wrapping).
Definition client_output (async : bool) (d : decision) : option client_return :=
  match d with
  | Plain => Some ReturnsMessage
  | Raw => Some ReturnsRawOperation
  | Lro r m => Some (ReturnsFuture (emit_wrap async r m))
  | Rejected _ => None
  end.

(* Service.has_lro: the switch of every transport template (operations_client property, _operations_client slot,
   operations_v1 import).  It looks at every method of the service, internal ones included (selective generation with
   generate_omitted_as_internal turns omitted rpcs into internal _methods of the client, which are wrapped like the others). *)
Record svc_method := mkSM { sm_internal : bool; sm_decision : decision }.
Definition is_lro (d : decision) : bool := match d with Lro _ _ => true | _ => false end.
Definition has_operations_client (ms : list svc_method) : bool := existsb (fun m => is_lro (sm_decision m)) ms.

(* ------------------------------------------------------------------ the REST operations client's http_options *)
(* API.http_options + the operations_client property of transports/rest.py.j2: for every http rule of the service
   YAML whose selector starts with google.longrunning.Operations, ONE dict entry keyed by the selector, holding the
   primary binding followed by the additional bindings, in order; a binding without a verb pattern is dropped; the
   body key is printed only when not empty *)
Record binding := mkB { b_method : string; b_uri : string; b_body : string }.
Record http_rule := mkHR { hr_selector : string; hr_bindings : list (option binding) (* primary :: additional; None: no pattern *) }.
Record printed_binding := mkPB { pb_method : string; pb_uri : string; pb_body : option string }.

Definition OPERATIONS_PREFIX : string := "google.longrunning.Operations".
Definition print_binding (b : binding) : printed_binding :=
  mkPB (b_method b) (b_uri b) (if is_empty (b_body b) then None else Some (b_body b)).
Fixpoint usable (bs : list (option binding)) : list binding :=
  match bs with [] => [] | Some b :: r => b :: usable r | None :: r => usable r end.
Definition is_operations_rule (r : http_rule) : bool := starts_with OPERATIONS_PREFIX (hr_selector r).
Definition ops_http_options (rules : list http_rule) : list (string * list printed_binding) :=
  map (fun r => (hr_selector r, map print_binding (usable (hr_bindings r)))) (filter is_operations_rule rules).

(* path_prefix of the operations transport, in rest.py and rest_asyncio.py alike: Service.client_package_version, the
   last segment of the service's package.  Without a GetOperation rule api_core polls  /<prefix>/<operation name>. *)
Fixpoint last_segment (s : string) : string :=
  match s with
  | EmptyString => EmptyString
  | String _ s' => if contains dot s then last_segment s' else s
  end.
Definition ops_path_prefix (pkg : string) : string := last_segment pkg.
Definition default_poll_path (pkg operation_name : string) : string := "/" ++ ops_path_prefix pkg ++ "/" ++ operation_name.

Definition pb_eqb (a b : printed_binding) : bool :=
  String.eqb (pb_method a) (pb_method b) && String.eqb (pb_uri a) (pb_uri b) && option_eqb String.eqb (pb_body a) (pb_body b).
Definition http_options_eqb (a b : list (string * list printed_binding)) : bool :=
  list_eqb (fun x y => String.eqb (fst x) (fst y) && list_eqb pb_eqb (snd x) (snd y)) a b.

(* ------------------------------------------------------------------ contract: the operation future *)
(* google.protobuf.Any *)
Record any := mkAny { a_url : string; a_payload : string }.

(* Any.TypeName: the text after the last slash; Any.Is additionally wants a slash to be there *)
Fixpoint after_last_slash_acc (s acc : string) (seen : bool) : string * bool :=
  match s with
  | EmptyString => (srev acc, seen)
  | String c s' => if Ascii.eqb c "/"%char then after_last_slash_acc s' EmptyString true
                   else after_last_slash_acc s' (String c acc) seen
  end.
Definition type_name (url : string) : option string :=
  let '(n, seen) := after_last_slash_acc url EmptyString false in if seen then Some n else None.

Inductive op_result := NoResult | Response (a : any) | Failed (code : nat) (message : string).
(* one google.longrunning.Operation snapshot *)
Record operation := mkOperation { o_done : bool; o_metadata : option any; o_result : op_result }.

(* a Python value that is an instance of the class generated for proto message [ty] with wire content [payload] *)
Inductive pyval := Instance (ty : string) (payload : string) | PyNone.
Inductive raised := ETypeError (want : string) | EStatus (code : nat) (message : string) | EApiError (message : string)
                 | EUnexpectedState | EPollingExhausted.
Inductive outcome := Returned (v : pyval) | Raised (e : raised).

(* protobuf_helpers.from_any_pb(cls, any): Any.Unpack succeeds iff the type names agree *)
Definition from_any (ty : string) (a : any) : outcome :=
  match type_name (a_url a) with
  | Some n => if String.eqb n ty then Returned (Instance ty (a_payload a)) else Raised (ETypeError ty)
  | None => Raised (ETypeError ty)
  end.

(* Operation._set_result_from_operation on a done snapshot.  The synchronous future raises the exception class of
   the operation's status code (exceptions.from_grpc_status); AsyncOperation raises a plain GoogleAPICallError that
   carries the message only. *)
Definition is_async_wrapping (w : wrapping) : bool := String.eqb (w_module w) "operation_async".
Definition settle (w : wrapping) (o : operation) : outcome :=
  match o_result o with
  | Response a => from_any (w_result_type w) a
  | Failed c msg => Raised (if is_async_wrapping w then EApiError msg else EStatus c msg)
  | NoResult => Raised EUnexpectedState
  end.

(* the polling loop of result(): done() refreshes through GetOperation only while the snapshot at hand is not
   done. [replies] are the successive GetOperation replies of the server; the count is the number of
   GetOperation calls made. Running out of replies is reported as such, never as a value. *)
Fixpoint poll (cur : operation) (replies : list operation) (calls : nat) : operation * nat * bool :=
  if o_done cur then (cur, calls, true)
  else match replies with
       | [] => (cur, calls, false)
       | r :: rest => poll r rest (S calls)
       end.

Record observed := mkObs { ob_result : outcome; ob_metadata : outcome; ob_get_operation_calls : nat }.

(* Operation.metadata on the snapshot the future holds *)
Definition metadata_of (w : wrapping) (o : operation) : outcome :=
  match o_metadata o with
  | None => Returned PyNone
  | Some a => from_any (w_metadata_type w) a
  end.

(* future.result() followed by future.metadata, for the method's own reply [initial] and the server's script *)
Definition run_future (w : wrapping) (initial : operation) (replies : list operation) : observed :=
  let '(final, calls, completed) := poll initial replies 0 in
  mkObs (if completed then settle w final else Raised EPollingExhausted) (metadata_of w final) calls.

Definition pyval_eqb (a b : pyval) : bool :=
  match a, b with
  | Instance t p, Instance t' p' => String.eqb t t' && String.eqb p p'
  | PyNone, PyNone => true
  | _, _ => false
  end.
Definition raised_eqb (a b : raised) : bool :=
  match a, b with
  | ETypeError x, ETypeError y => String.eqb x y
  | EStatus c m, EStatus c' m' => Nat.eqb c c' && String.eqb m m'
  | EApiError m, EApiError m' => String.eqb m m'
  | EUnexpectedState, EUnexpectedState | EPollingExhausted, EPollingExhausted => true
  | _, _ => false
  end.
Definition outcome_eqb (a b : outcome) : bool :=
  match a, b with
  | Returned x, Returned y => pyval_eqb x y
  | Raised x, Raised y => raised_eqb x y
  | _, _ => false
  end.
Definition observed_eqb (a b : observed) : bool :=
  outcome_eqb (ob_result a) (ob_result b) && outcome_eqb (ob_metadata a) (ob_metadata b)
  && Nat.eqb (ob_get_operation_calls a) (ob_get_operation_calls b).
