(* Model/Empty.v — C11: gapic/utils/code.py: empty, and the drop rule of gapic/generator/generator.py: Generator._get_file.
     def empty(content): return not any([i.lstrip() and not i.lstrip().startswith("#") for i in content.split("\n")])
     _get_file:  if utils.empty(cgr_file.content) and not fn.endswith(("py.typed", "__init__.py")): return {}
   where cgr_file.content = formatter.fix_whitespace(rendered text).
   ASCII text only (DESIGN 4.1): str.lstrip() strips is_pyspace.  Definitions only. *)
From GV Require Import Base.Str Gen.C11Gen.

Definition hash : ascii := "#"%char.

(* i.lstrip() and not i.lstrip().startswith("#") *)
Definition stmt_line (l : string) : bool :=
  match lstrip_by is_pyspace l with
  | EmptyString => false
  | String c _ => negb (Ascii.eqb c hash)
  end.

Definition empty (content : string) : bool := negb (existsb stmt_line (split_on nl content)).

(* str.endswith(tuple): the suffixes are the string literals of _get_file, regenerated from its source (T0) *)
Definition kept_anyway (fn : string) : bool := existsb (fun suf => ends_with suf fn) C11Gen.get_file_consts.

(* does _get_file put the rendered (and whitespace-cleaned) file into the response *)
Definition emitted (fn content : string) : bool := negb (empty content) || kept_anyway fn.

(* ---- vocabulary of the theorems: a one-pass scanner, the lexical reading of "no Python statement" ----
   [in_comment]: a hash was met on this line; before that only blanks were met on it. *)
Fixpoint has_code (in_comment : bool) (s : string) : bool :=
  match s with
  | EmptyString => false
  | String c r =>
      if Ascii.eqb c nl then has_code false r
      else if in_comment then has_code true r
      else if is_pyspace c then has_code false r
      else if Ascii.eqb c hash then has_code true r
      else true
  end.
