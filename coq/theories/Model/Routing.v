(* Model/Routing.v — C06: the x-goog-request-params routing header (AIP-4222).
   Mirrors
     gapic/schema/wrappers.py : RoutingParameter._split_into_segments, _convert_segment_to_regex,
                                _merge_segments, _how_many_named_segments, _convert_to_regex, to_regex, key;
                                Method.field_headers; FieldHeader.disambiguated
     templates  services/%service/_shared_macros.j2 : create_metadata (one expansion for the sync
                                and one for the asyncio client)
   plus: a structured matcher giving Python's re.match semantics on the regex class the generator
   emits, the urlencode contract of google.api_core.gapic_v1.routing_header, and an INDEPENDENT
   AIP-4222 matcher on slash-separated segments.
   Definitions only. *)
From GV Require Import Base.Str.
From GV Require Gen.RoutingGen.

(* ------------------------------------------------------------------ string helpers *)

(* str.split(c): first piece and the remaining pieces *)
Fixpoint split2 (c : ascii) (s : string) : string * list string :=
  match s with
  | EmptyString => (EmptyString, [])
  | String a s' => let (h, t) := split2 c s' in
                   if Ascii.eqb a c then (EmptyString, h :: t) else (String a h, t)
  end.
Definition splitc (c : ascii) (s : string) : list string := let (h, t) := split2 c s in h :: t.

(* c.join(l) = first ++ tails *)
Fixpoint tails (c : ascii) (l : list string) : string :=
  match l with [] => EmptyString | x :: l' => String c (x ++ tails c l') end.
Definition joinc (c : ascii) (l : list string) : string :=
  match l with [] => EmptyString | x :: l' => x ++ tails c l' end.

Fixpoint count_char (c : ascii) (s : string) : nat :=
  match s with EmptyString => 0 | String a s' => (if Ascii.eqb a c then 1 else 0) + count_char c s' end.

(* the two-character substring test  "ab" in s *)
Fixpoint has_pair (a b : ascii) (s : string) : bool :=
  match s with
  | EmptyString => false
  | String x s' => match s' with
                   | EmptyString => false
                   | String y _ => (Ascii.eqb x a && Ascii.eqb y b) || has_pair a b s'
                   end
  end.

Fixpoint drop_last (s : string) : string :=
  match s with
  | EmptyString => EmptyString
  | String a s' => match s' with EmptyString => EmptyString | _ => String a (drop_last s') end
  end.
(* segment[1:-1] *)
Definition strip_ends (s : string) : string := drop_last (sdrop 1 s).

Definition slash : ascii := "/"%char.
Definition star : ascii := "*"%char.
Definition lbrace : ascii := "{"%char.
Definition rbrace : ascii := "}"%char.
Definition eqc : ascii := "="%char.
Definition dot : ascii := "."%char.

(* ------------------------------------------------------------------ regex items *)

(* The regex class the generator emits, as a flat item list.
   RLit s   : the literal text s, printed into the pattern through re.escape
   RSlash   : a slash;  RSeg : one or more non-slash characters;  RAny : dot-star (greedy);
   ROptAny  : an optional non-capturing group of a slash followed by dot-star;
   ROpen k  : opening of the named group k;  RClose : its closing parenthesis.
   rx_print1 gives the exact pattern text of each. *)
Inductive rx :=
| RLit (s : string) | RSlash | RSeg | RAny | ROptAny | ROpen (k : string) | RClose.

(* re.escape: a backslash before each character of re._special_chars_map, i.e. one of
   parentheses, brackets, braces, ? * + - | ^ $ backslash . & ~ # space, or one of tab, newline, CR, VT, FF *)
Definition re_special (c : ascii) : bool :=
  contains c "()[]{}?*+-|^$\.&~# " || in_range 9 13 c.
Definition re_escape_char (c : ascii) : string :=
  if re_special c then String "\"%char (s1 c) else s1 c.
Fixpoint re_escape (s : string) : string :=
  match s with EmptyString => EmptyString | String c s' => re_escape_char c ++ re_escape s' end.

Definition rx_print1 (r : rx) : string :=
  match r with
  | RLit s => re_escape s
  | RSlash => "/"
  | RSeg => "[^/]+"
  | RAny => ".*"
  | ROptAny => "(?:/.*)?"
  | ROpen k => "(?P<" ++ k ++ ">"
  | RClose => ")"
  end.
Definition rx_print (l : list rx) : string := sconcat (map rx_print1 l).

Inductive err := EValue (* ValueError *) | EAssert (* AssertionError *) | EFuel | EIndex (* IndexError: no such group *)
               .
Inductive res (A : Type) := Ok (a : A) | Err (e : err).
Arguments Ok {A} a.
Arguments Err {A} e.

Fixpoint map_res {A B} (f : A -> res B) (l : list A) : res (list B) :=
  match l with
  | [] => Ok []
  | x :: l' => match f x with
               | Err e => Err e
               | Ok y => match map_res f l' with Err e => Err e | Ok ys => Ok (y :: ys) end
               end
  end.

(* ------------------------------------------------------------------ template -> regex, as the code does it *)

Definition has_brace (s : string) : bool := contains lbrace s || contains rbrace s.

Fixpoint break_at (f : string -> bool) (l : list string) : list string * list string :=
  match l with
  | [] => ([], [])
  | x :: l' => if f x then ([], l) else let (a, b) := break_at f l' in (x :: a, b)
  end.

(* _merge_segments on raw template segments (used by _split_into_segments) *)
Definition merge_raw_piece (y : string) : string :=
  if String.eqb y ".*" then "(?:/.*)?" else String slash y.
Definition merge_raw (x : string) (rest : list string) : string := x ++ sconcat (map merge_raw_piece rest).

(* _split_into_segments, after path_template.split("/") *)
Definition split_into_segments (segs : list string) : res (list string) :=
  let (before, rest) := break_at has_brace segs in
  match rest with
  | [] => Ok segs
  | x :: rest' =>
      let (mid, rest2) := break_at has_brace rest' in
      match rest2 with
      | [] => Ok segs
      | y :: after => if existsb has_brace after then Err EAssert
                      else Ok (before ++ merge_raw x (mid ++ [y]) :: after)%list
      end
  end.

(* _convert_segment_to_regex; [rec] is _convert_to_regex on the sub-template.
   The self-call on  "{" + segment + "=*}"  for a segment without "=" is unfolded: stripping gives
   segment ++ "=*", which contains "=", splits into [segment; "*"], and "*" converts to [^/]+ . *)
Definition convert_segment (rec : string -> res (list rx)) (seg : string) : res (list rx) :=
  if contains lbrace seg then
    if negb (contains rbrace seg) then Err EAssert else
    let inner := strip_ends seg in
    if negb (contains eqc inner) then Ok [ROpen inner; RSeg; RClose]
    else match splitc eqc inner with
         | [key; sub] => match rec sub with
                         | Ok r => Ok (ROpen key :: r ++ [RClose])%list
                         | Err e => Err e
                         end
         | _ => Err EValue           (* too many values to unpack *)
         end
  else if has_pair star star seg then Ok [RAny]
  else if contains star seg then Ok [RSeg]
  else Ok [RLit seg].

(* _merge_segments on the per-segment regexes: x == ".*" holds exactly for the item list [RAny]
   (a literal never contains a star and is escaped, [^/]+ and a group print differently) *)
Definition is_any (y : list rx) : bool := match y with [RAny] => true | _ => false end.
Definition merge_piece (y : list rx) : list rx := if is_any y then [ROptAny] else RSlash :: y.
Definition merge_rx (l : list (list rx)) : list rx :=
  match l with [] => [] | x :: r => (x ++ flat_map merge_piece r)%list end.

(* _convert_to_regex. The recursion (sub-template of the named segment) is on a strictly shorter
   string; fuel = length + 1 never runs out (EFuel is an error value, never a regex). *)
Fixpoint convert (fuel : nat) (t : string) : res (list rx) :=
  match fuel with
  | O => Err EFuel
  | S f =>
      if Nat.ltb 1 (count_char lbrace t) then Err EValue else
      match split_into_segments (splitc slash t) with
      | Err e => Err e
      | Ok segs => match map_res (convert_segment (convert f)) segs with
                   | Err e => Err e
                   | Ok rs => Ok (merge_rx rs)
                   end
      end
  end.
Definition convert_to_regex (t : string) : res (list rx) := convert (S (String.length t)) t.

(* the pattern text of to_regex():  ^ ... $ *)
Definition regex_str (t : string) : res string :=
  match convert_to_regex t with Ok r => Ok ("^" ++ rx_print r ++ "$") | Err e => Err e end.

(* RoutingParameter.key : the first group name, else the field *)
Fixpoint first_group (r : list rx) : option string :=
  match r with [] => None | ROpen k :: _ => Some k | _ :: r' => first_group r' end.
Definition key_of (field : string) (r : list rx) : string :=
  match first_group r with Some k => k | None => field end.

(* ------------------------------------------------------------------ Python re.match on that class *)

(* '$' without MULTILINE: at the end, or just before a final newline *)
Definition at_end (s : string) : bool :=
  match s with EmptyString => true | String a EmptyString => Ascii.eqb a nl | _ => false end.

(* capture state of the single named group *)
Inductive cst := CBefore | CIn (acc : string) | CAfter (cap : string).
Definition push (st : cst) (x : string) : cst :=
  match st with CIn acc => CIn (acc ++ x) | _ => st end.

(* escaped literal text matches exactly itself *)
Definition lit_match (l s : string) : option (string * string) :=
  match strip_prefix l s with Some r => Some (l, r) | None => None end.

(* a greedy star over the characters satisfying [ok], with backtracking (longest first) *)
Fixpoint greedy {R} (ok : ascii -> bool) (k : cst -> string -> option R) (st : cst) (s : string) : option R :=
  match s with
  | EmptyString => k st s
  | String c s' =>
      if ok c then match greedy ok k (push st (s1 c)) s' with Some r => Some r | None => k st s end
      else k st s
  end.

Definition not_nl (c : ascii) : bool := negb (Ascii.eqb c nl).
Definition not_slash (c : ascii) : bool := negb (Ascii.eqb c slash).

(* result: None = no match; Some None = match, group did not participate; Some (Some c) = match, group = c *)
Fixpoint rmatch (r : list rx) (st : cst) (s : string) {struct r} : option (option string) :=
  match r with
  | [] => if at_end s then
            match st with CBefore => Some None | CAfter cap => Some (Some cap) | CIn _ => None end
          else None
  | RLit l :: r' => match lit_match l s with
                    | Some (u, rest) => rmatch r' (push st u) rest
                    | None => None
                    end
  | RSlash :: r' => match s with
                    | String c s' => if Ascii.eqb c slash then rmatch r' (push st "/") s' else None
                    | EmptyString => None
                    end
  | RSeg :: r' => match s with
                  | String c s' => if not_slash c then greedy not_slash (rmatch r') (push st (s1 c)) s' else None
                  | EmptyString => None
                  end
  | RAny :: r' => greedy not_nl (rmatch r') st s
  | ROptAny :: r' =>
      match s with
      | String c s' =>
          if Ascii.eqb c slash then
            match greedy not_nl (rmatch r') (push st "/") s' with
            | Some x => Some x
            | None => rmatch r' st s
            end
          else rmatch r' st s
      | EmptyString => rmatch r' st s
      end
  | ROpen _ :: r' => match st with CBefore => rmatch r' (CIn "") s | _ => None end
  | RClose :: r' => match st with CIn acc => rmatch r' (CAfter acc) s | _ => None end
  end.

(* re.compile("^" + r + "$").match(v) *)
Definition rx_match (r : list rx) (v : string) : option (option string) := rmatch r CBefore v.

(* the part of the class on which rmatch is claimed to be Python's semantics: at most one group, properly
   bracketed, with a Python identifier as its name (anything else is rejected by re.compile) *)
Fixpoint brackets_ok (r : list rx) (st : nat) : bool :=   (* st: 0 before, 1 inside, 2 after *)
  match r with
  | [] => negb (Nat.eqb st 1)
  | ROpen _ :: r' => Nat.eqb st 0 && brackets_ok r' 1
  | RClose :: r' => Nat.eqb st 1 && brackets_ok r' 2
  | _ :: r' => brackets_ok r' st
  end.
Definition is_ident (k : string) : bool :=
  match k with
  | EmptyString => false
  | String c _ => negb (is_digit c) && sall is_word k
  end.
Definition item_supported (x : rx) : bool :=
  match x with ROpen k => is_ident k | _ => true end.
Definition rx_supported (r : list rx) : bool := forallb item_supported r && brackets_ok r 0.

(* FieldHeader.disambiguated (also RoutingParameter.disambiguated_field): every component of the dotted
   path gets one trailing underscore when it is a reserved name *)
Definition reserved (x : string) : bool := mem_str x Gen.RoutingGen.RESERVED_NAMES.
Definition suffix_reserved (c : string) : string := if reserved c then c ++ "_" else c.
Definition disambiguated (raw : string) : string := joinc dot (map suffix_reserved (splitc dot raw)).

(* ------------------------------------------------------------------ the emitted block *)

Record param := { p_field : string; p_template : string }.

(* what create_metadata emits for one routing parameter *)
Inductive block :=
| BPlain (attr : string) (key : string)                 (* if request.<attr>: header_params["key"] = request.<attr> *)
| BRegex (pattern : string) (attr : string) (key : string).
         (* routing_param_regex = re.compile('<pattern>'); regex_match = ....match(request.<attr>)
            if regex_match and regex_match.group("key"): header_params["key"] = regex_match.group("key") *)

(* RoutingParameter.sample_request (rendered into the unit-test template, so it runs on every generation):
   uri_sample.sample_from_path_template looks up the first opening and the first closing brace with .index --
   ValueError when there is an opening but no closing brace; the {key} shorthand stands for {key=*}. *)
Definition sample_request_ok (t : string) : bool := negb (contains lbrace t) || contains rbrace t.

(* the template prints RoutingParameter.regex_literal = "re.compile(%r)" % pattern : the pattern itself, whole *)
Definition emit_param (p : param) : res block :=
  if is_empty (p_template p) then Ok (BPlain (disambiguated (p_field p)) (p_field p))
  else match convert_to_regex (p_template p) with
       | Err e => Err e
       | Ok r => if negb (sample_request_ok (p_template p)) then Err EValue
                 else Ok (BRegex ("^" ++ rx_print r ++ "$") (disambiguated (p_field p)) (key_of (p_field p) r))
       end.

(* run-time value of one block on the field value v: the pair it writes into header_params, if any.
   regex_match.group(key): with no group in the pattern the key is the field name and .group raises
   IndexError as soon as the pattern matches; a group that took no part yields None (falsy). *)
Definition contribution (p : param) (v : string) : res (option (string * string)) :=
  if is_empty (p_template p) then
    Ok (if is_empty v then None else Some (p_field p, v))
  else match convert_to_regex (p_template p) with
       | Err e => Err e
       | Ok r =>
           match first_group r with
           | None => match rx_match r v with None => Ok None | Some _ => Err EIndex end
           | Some k => match rx_match r v with
                       | Some (Some cap) => Ok (if is_empty cap then None else Some (k, cap))
                       | _ => Ok None
                       end
           end
       end.

(* header_params: a dict; assignment keeps the position of an existing key *)
Fixpoint dict_set (k v : string) (d : list (string * string)) : list (string * string) :=
  match d with
  | [] => [(k, v)]
  | (k', v') :: d' => if String.eqb k k' then (k, v) :: d' else (k', v') :: dict_set k v d'
  end.
Definition dict_of (l : list (string * string)) : list (string * string) :=
  fold_left (fun d kv => dict_set (fst kv) (snd kv) d) l [].

Fixpoint somes {A} (l : list (option A)) : list A :=
  match l with [] => [] | Some x :: l' => x :: somes l' | None :: l' => somes l' end.

(* ------------------------------------------------------------------ urlencode contract (api_core) *)
(* urllib.parse.urlencode({k: v}, safe="/") = quote_plus(k, "/") = quote_plus(v, "/"):
   unreserved characters and the slash are kept, space becomes plus, every other byte is %XX *)
Definition hexdigit (n : N) : ascii :=
  if N.ltb n 10 then chr (48 + n) else chr (55 + n).
Definition is_unreserved (c : ascii) : bool :=
  is_alnum c || contains c "_.-~".
Definition quote_char (c : ascii) : string :=
  if is_unreserved c || Ascii.eqb c slash then s1 c
  else if Ascii.eqb c sp then "+"
  else String "%"%char (String (hexdigit (N.div (ord c) 16)) (s1 (hexdigit (N.modulo (ord c) 16)))).
Fixpoint quote_plus (s : string) : string :=
  match s with EmptyString => EmptyString | String c s' => quote_char c ++ quote_plus s' end.
Definition encode_pair (kv : string * string) : string := quote_plus (fst kv) ++ "=" ++ quote_plus (snd kv).
Definition to_routing_header (d : list (string * string)) : string := sjoin "&" (map encode_pair d).

(* ------------------------------------------------------------------ implicit routing *)

(* the scan  re.compile(r"{(.*?)[=}]").findall(uri) : after an opening brace the shortest run of
   non-newline characters that is followed by '=' or '}' *)
Fixpoint lazy_until (s : string) : option (string * string) :=
  match s with
  | EmptyString => None
  | String c s' =>
      if Ascii.eqb c eqc || Ascii.eqb c rbrace then Some (EmptyString, s')
      else if Ascii.eqb c nl then None
      else match lazy_until s' with Some (g, r) => Some (String c g, r) | None => None end
  end.
Fixpoint scan_aux (skip : nat) (s : string) : list string :=
  match s with
  | EmptyString => []
  | String c s' =>
      match skip with
      | S k => scan_aux k s'
      | O => if Ascii.eqb c lbrace then
               match lazy_until s' with
               | Some (g, _) => g :: scan_aux (S (String.length g)) s'
               | None => scan_aux 0 s'
               end
             else scan_aux 0 s'
      end
  end.
Definition scan_vars (uri : string) : list string := scan_aux 0 uri.

(* the http rule's pattern fields in the order Method.field_headers looks at them *)
Record http_rule := { h_get : string; h_put : string; h_post : string; h_delete : string; h_patch : string;
                      h_custom_path : string }.
Definition potential_verbs (h : http_rule) : list string :=
  [h_get h; h_put h; h_post h; h_delete h; h_patch h; h_custom_path h].
Fixpoint first_nonempty (l : list string) : option string :=
  match l with [] => None | x :: l' => if is_empty x then first_nonempty l' else Some x end.
Definition field_headers (h : http_rule) : list string :=
  match first_nonempty (potential_verbs h) with Some uri => scan_vars uri | None => [] end.

(* ------------------------------------------------------------------ the whole macro *)

Record method := {
  m_explicit : option (list param);    (* Some l: a google.api.routing annotation with parameters l *)
  m_http : http_rule;
  m_client_streaming : bool
}.

Inductive emitted :=
| EExplicit (blocks : list block)                 (* header_params = {} ; blocks ; if header_params: ... *)
| EImplicit (pairs : list (string * string))      (* to_grpc_metadata(((raw, request.<attr>), ...)) , always sent *)
| ENothing.

Definition emit_metadata (m : method) : res emitted :=
  match m_explicit m with
  | Some ps => if m_client_streaming m then Ok (EExplicit [])
               else match map_res emit_param ps with Ok bs => Ok (EExplicit bs) | Err e => Err e end
                    (* an annotation without parameters: the loop runs over nothing, no header is ever sent *)
  | None => match field_headers (m_http m) with
            | [] => Ok ENothing
            | fh => Ok (EImplicit (if m_client_streaming m then [] else map (fun raw => (raw, disambiguated raw)) fh))
            end
  end.
(* one macro, expanded in client.py (used by the grpc and rest transports) and in async_client.py *)
Definition emit_sync := emit_metadata.
Definition emit_async := emit_metadata.

(* a request is read through attribute paths *)
Definition request := string -> string.

(* the header value computed at run time by the emitted code: None = no x-goog-request-params entry is appended;
   an error when no client was emitted at all *)
Definition header_of (m : method) (req : request) : res (option string) :=
  match emit_metadata m with
  | Err e => Err e
  | Ok ENothing => Ok None
  | Ok (EImplicit pairs) => Ok (Some (to_routing_header (map (fun ra => (fst ra, req (snd ra))) pairs)))
  | Ok (EExplicit _) =>
      match m_explicit m with
      | None => Ok None
      | Some ps =>
          if m_client_streaming m then Ok None else
          match map_res (fun p => contribution p (req (disambiguated (p_field p)))) ps with
          | Err e => Err e
          | Ok cs => match dict_of (somes cs) with
                     | [] => Ok None
                     | d => Ok (Some (to_routing_header d))
                     end
          end
      end
  end.

(* delivery: the gRPC transports send the metadata tuple as it is; the REST transport sends dict(metadata) as
   HTTP headers. What a server can observe under the routing key: *)
Definition routing_key : string := "x-goog-request-params".
Definition md := list (string * string).
Definition with_routing (user : md) (h : option string) : md :=
  match h with Some v => (user ++ [(routing_key, v)])%list | None => user end.
Definition observe (sent : md) : list string :=
  map snd (filter (fun kv => String.eqb (fst kv) routing_key) sent).
Definition seen_grpc (user : md) (h : option string) : list string := observe (with_routing user h).
Definition seen_rest (user : md) (h : option string) : list string := observe (dict_of (with_routing user h)).

(* ------------------------------------------------------------------ the INDEPENDENT AIP-4222 matcher *)

Inductive seg := SLit (s : string) | SStar | SDstar.

(* a path template with exactly one named segment:  pre / {key=sub} / post ;
   t_short: written {key}, which stands for {key=*} *)
Record tmpl := { t_pre : list seg; t_key : string; t_short : bool; t_sub : list seg; t_post : list seg }.

Definition pseg (s : seg) : string := match s with SLit l => l | SStar => "*" | SDstar => "**" end.
Definition named_str (t : tmpl) : string :=
  if t_short t then "{" ++ t_key t ++ "}"
  else "{" ++ t_key t ++ "=" ++ joinc slash (map pseg (t_sub t)) ++ "}".
Definition tmpl_print (t : tmpl) : string :=
  joinc slash (map pseg (t_pre t) ++ named_str t :: map pseg (t_post t))%list.

(* segments with a flag: does the segment belong to the named sub-template? *)
Definition flat (t : tmpl) : list (seg * bool) :=
  (map (fun s => (s, false)) (t_pre t) ++ map (fun s => (s, true)) (t_sub t) ++ map (fun s => (s, false)) (t_post t))%list.

Definition keep (c : bool) (v : string) (cap : list string) : list string := if c then v :: cap else cap.

(* one star: exactly one non-empty segment; two stars: any number of segments (empty ones included);
   a literal: that very segment. Result: the value segments matched by the named sub-template. *)
Fixpoint amatch (p : list (seg * bool)) (vs : list string) {struct p} : option (list string) :=
  match p with
  | [] => match vs with [] => Some [] | _ => None end
  | (SLit l, c) :: p' =>
      match vs with
      | v :: vs' => if String.eqb l v then option_map (keep c v) (amatch p' vs') else None
      | [] => None
      end
  | (SStar, c) :: p' =>
      match vs with
      | v :: vs' => if is_empty v then None else option_map (keep c v) (amatch p' vs')
      | [] => None
      end
  | (SDstar, c) :: p' =>
      (fix go (vs : list string) : option (list string) :=
         match amatch p' vs with
         | Some cap => Some cap
         | None => match vs with
                   | [] => None
                   | v :: vs' => option_map (keep c v) (go vs')
                   end
         end) vs
  end.

(* the header contribution AIP-4222 asks for: key -> the text matched by the named segment, when the field
   value matches the whole template and that text is not empty *)
Definition aip_contribution (t : tmpl) (v : string) : option (string * string) :=
  match amatch (flat t) (splitc slash v) with
  | Some cap => let c := joinc slash cap in if is_empty c then None else Some (t_key t, c)
  | None => None
  end.

(* ---- the AIP class, as a boolean predicate ---- *)
(* literal text: anything (regex metacharacters included) except slash, star, braces and '=' *)
Definition lit_char (c : ascii) : bool := negb (contains c "/*{}=").
Definition seg_ok (s : seg) : bool := match s with SLit l => sall lit_char l | _ => true end.
Definition is_dstar (s : seg) : bool := match s with SDstar => true | _ => false end.
Definition no_dstar (l : list seg) : bool := forallb (fun s => negb (is_dstar s)) l.
(* two stars at most as the very last segment of the list *)
Fixpoint dstar_last (l : list seg) : bool :=
  match l with [] => true | [_] => true | s :: l' => negb (is_dstar s) && dstar_last l' end.

Definition aip_class (t : tmpl) : bool :=
  forallb seg_ok (t_pre t) && forallb seg_ok (t_sub t) && forallb seg_ok (t_post t)
  && is_ident (t_key t)
  && negb (match t_sub t with [] => true | _ => false end)
  && (if t_short t then match t_sub t with [SStar] => true | _ => false end else true)
  && no_dstar (t_pre t)
  && (match t_post t with [] => dstar_last (t_sub t) | _ => no_dstar (t_sub t) && dstar_last (t_post t) end).

Definition nl_free (v : string) : bool := negb (contains nl v).

(* ---- http path templates for the implicit case (independent view) ---- *)
Inductive upart := ULit (text : string) | UVar (path : string) (pattern : option string).
Definition upart_print (p : upart) : string :=
  match p with
  | ULit t => t
  | UVar f None => "{" ++ f ++ "}"
  | UVar f (Some pat) => "{" ++ f ++ "=" ++ pat ++ "}"
  end.
Definition uri_print (u : list upart) : string := sconcat (map upart_print u).
Fixpoint uri_vars (u : list upart) : list string :=
  match u with [] => [] | ULit _ :: u' => uri_vars u' | UVar f _ :: u' => f :: uri_vars u' end.
Definition path_char (c : ascii) : bool :=
  negb (Ascii.eqb c eqc) && negb (Ascii.eqb c rbrace) && negb (Ascii.eqb c nl).
Definition pat_char (c : ascii) : bool := negb (Ascii.eqb c lbrace) && negb (Ascii.eqb c rbrace).
Definition upart_ok (p : upart) : bool :=
  match p with
  | ULit t => negb (contains lbrace t)
  | UVar f None => sall path_char f
  | UVar f (Some pat) => sall path_char f && sall pat_char pat
  end.
Definition uri_ok (u : list upart) : bool := forallb upart_ok u.

Definition pairs_eqb (a b : list (string * string)) : bool := list_eqb (pair_eqb String.eqb String.eqb) a b.
Definition contrib_eqb (a b : option (string * string)) : bool := option_eqb (pair_eqb String.eqb String.eqb) a b.

(* ---- comparison helpers for the correspondence checks ---- *)
Definition err_eqb (a b : err) : bool :=
  match a, b with
  | EValue, EValue | EAssert, EAssert | EFuel, EFuel | EIndex, EIndex => true
  | _, _ => false
  end.
Definition res_eqb {A} (eqb : A -> A -> bool) (a b : res A) : bool :=
  match a, b with Ok x, Ok y => eqb x y | Err e, Err f => err_eqb e f | _, _ => false end.
Definition match_eqb (a b : option (option string)) : bool := option_eqb (option_eqb String.eqb) a b.
Definition block_eqb (a b : block) : bool :=
  match a, b with
  | BPlain x k, BPlain y l => String.eqb x y && String.eqb k l
  | BRegex p x k, BRegex q y l => String.eqb p q && String.eqb x y && String.eqb k l
  | _, _ => false
  end.
Definition supported_template (t : string) : bool :=
  match convert_to_regex t with Ok r => rx_supported r | Err _ => false end.
Definition match_template (t v : string) : res (option (option string)) :=
  match convert_to_regex t with Ok r => Ok (rx_match r v) | Err e => Err e end.
Definition emitted_eqb (a b : emitted) : bool :=
  match a, b with
  | EExplicit x, EExplicit y => list_eqb block_eqb x y
  | EImplicit x, EImplicit y => pairs_eqb x y
  | ENothing, ENothing => true
  | _, _ => false
  end.
(* a request given as an association list from attribute paths to values *)
Definition req_of (l : list (string * string)) : request :=
  fun p => match assoc p l with Some v => v | None => EmptyString end.

(* ---- the AIP class as a predicate on template STRINGS: an independent reader of the text ---- *)
(* head { body } tail ; head empty or ending in a slash ; tail empty or starting with one ;
   body = key or key=sub ; segments are the slash-separated pieces: a star, two stars, or literal text *)
(* text before the first occurrence of c, and the text after it *)
Fixpoint cut_at (c : ascii) (s : string) : option (string * string) :=
  match s with
  | EmptyString => None
  | String a s' => if Ascii.eqb a c then Some (EmptyString, s')
                   else match cut_at c s' with Some (x, y) => Some (String a x, y) | None => None end
  end.
Definition seg_of_str (x : string) : seg :=
  if String.eqb x "*" then SStar else if String.eqb x "**" then SDstar else SLit x.
Definition last_is (c : ascii) (s : string) : bool :=
  match srev s with String a _ => Ascii.eqb a c | EmptyString => false end.
Definition aip_parse (s : string) : option tmpl :=
  match cut_at lbrace s with
  | None => None
  | Some (head, rest) =>
      match cut_at rbrace rest with
      | None => None
      | Some (body, tail) =>
          let pre := if is_empty head then Some []
                     else if last_is slash head then Some (map seg_of_str (splitc slash (drop_last head))) else None in
          let post := match tail with
                      | EmptyString => Some []
                      | String a tl => if Ascii.eqb a slash then Some (map seg_of_str (splitc slash tl)) else None
                      end in
          match pre, post with
          | Some pre, Some post =>
              match cut_at eqc body with
              | None => Some {| t_pre := pre; t_key := body; t_short := true; t_sub := [SStar]; t_post := post |}
              | Some (key, subs) =>
                  Some {| t_pre := pre; t_key := key; t_short := false;
                          t_sub := map seg_of_str (splitc slash subs); t_post := post |}
              end
          | _, _ => None
          end
      end
  end.
Definition aip_class_str (s : string) : bool :=
  match aip_parse s with Some t => aip_class t | None => false end.

Definition seg_eqb (a b : seg) : bool :=
  match a, b with SLit x, SLit y => String.eqb x y | SStar, SStar => true | SDstar, SDstar => true | _, _ => false end.
Definition tmpl_eqb (a b : tmpl) : bool :=
  list_eqb seg_eqb (t_pre a) (t_pre b) && String.eqb (t_key a) (t_key b) && Bool.eqb (t_short a) (t_short b)
  && list_eqb seg_eqb (t_sub a) (t_sub b) && list_eqb seg_eqb (t_post a) (t_post b).

(* ---- the alternative (Ads) template tree: gapic/ads-templates/.../client.py.j2 expands the same create_metadata
   macro (its own copy in the Ads _shared_macros.j2, kept identical to the standard one) ---- *)
Definition emit_ads (m : method) : res emitted := emit_metadata m.
Definition header_of_ads (m : method) (req : request) : res (option string) := header_of m req.
