From GV Require Import Base.Str.
From GV Require Import Model.MockDfs.
From Coq Require Import ZArith.

Lemma mem_str_In x l : mem_str x l = true <-> In x l.
Proof.
  unfold mem_str. rewrite existsb_exists. split.
  - intros (y & Hy & E). apply String.eqb_eq in E. now subst.
  - intro H. exists x. split; [assumption | apply String.eqb_refl].
Qed.

Lemma mem_str_incl x a b : incl a b -> mem_str x a = true -> mem_str x b = true.
Proof. intros I H. apply mem_str_In. apply I. now apply mem_str_In. Qed.

Definition count_unv (ns visited : list string) : nat := length (filter (fun n => negb (mem_str n visited)) ns).

Lemma count_unv_mono ns v1 v2 : incl v1 v2 -> count_unv ns v2 <= count_unv ns v1.
Proof.
  intro I. unfold count_unv. induction ns as [|n ns IH]; cbn [filter length]; [lia|].
  destruct (mem_str n v1) eqn:E1.
  - rewrite (mem_str_incl n v1 v2 I E1). cbn [negb]. exact IH.
  - destruct (mem_str n v2); cbn [negb length]; lia.
Qed.

Lemma count_unv_drop ns v n : In n ns -> mem_str n v = false -> count_unv ns (n :: v) < count_unv ns v.
Proof.
  intros Hin Hv. induction ns as [|m ns IH]; [contradiction|].
  pose proof (count_unv_mono ns v (n :: v) (fun x Hx => or_intror Hx)) as Hle.
  unfold count_unv in *. cbn [filter]. destruct Hin as [->|Hin].
  - rewrite Hv. assert (mem_str n (n :: v) = true) as -> by (apply mem_str_In; now left).
    cbn [negb length]. lia.
  - specialize (IH Hin).
    destruct (mem_str m v) eqn:Em.
    + assert (mem_str m (n :: v) = true) as -> by (apply (mem_str_incl m v); [intros x Hx; now right | exact Em]).
      cbn [negb]. exact IH.
    + destruct (mem_str m (n :: v)); cbn [negb length]; lia.
Qed.

Lemma unvisited_mono sch v1 v2 : incl v1 v2 -> unvisited sch v2 <= unvisited sch v1.
Proof. apply count_unv_mono. Qed.
Lemma unvisited_drop sch v n : In n (names sch) -> mem_str n v = false -> unvisited sch (n :: v) < unvisited sch v.
Proof. apply count_unv_drop. Qed.

Lemma assoc_In {A} k (l : list (string * A)) v : assoc k l = Some v -> In (k, v) l.
Proof.
  induction l as [|[k' v'] l IH]; simpl; [discriminate|].
  destruct (String.eqb k k') eqn:E; intro H.
  - apply String.eqb_eq in E. inversion H. subst. now left.
  - right. now apply IH.
Qed.

Lemma In_assoc {A} k (l : list (string * A)) : In k (map fst l) -> exists v, assoc k l = Some v.
Proof.
  induction l as [|[k' v'] l IH]; simpl; [contradiction|].
  intros [->|H]; [rewrite String.eqb_refl; eauto|].
  destruct (String.eqb k k'); eauto.
Qed.

(* the search never runs out of fuel when fuel exceeds the number of unvisited message types,
   and it only ever grows the visited set *)
Theorem mock_total sch : schema_wf sch ->
  forall fuel visited f, field_wf sch f -> unvisited sch visited < fuel ->
  exists v visited', mock fuel sch visited f = Some (v, visited') /\ incl visited visited'.
Proof.
  intro WF. induction fuel as [|fuel IH]; intros visited f Hf Hm; [lia|].
  cbn [mock]. unfold field_wf in Hf. destruct (mf_kind f) as [p|numbers|n|e|] eqn:K.
  - eexists _, visited. split; [reflexivity | apply incl_refl].
  - unfold first_truthy. destruct (filter _ numbers) as [|z zs].
    + destruct numbers as [|z zs]; [congruence|]. eexists _, visited. split; [reflexivity | apply incl_refl].
    + eexists _, visited. split; [reflexivity | apply incl_refl].
  - destruct (mem_str n visited) eqn:Ev.
    + eexists _, visited. split; [reflexivity | apply incl_refl].
    + destruct (In_assoc n sch Hf) as [fs Hfs]. rewrite Hfs.
      pose proof (WF n fs (assoc_In _ _ _ Hfs)) as Wfs.
      pose proof (unvisited_drop sch visited n Hf Ev) as Hd.
      assert (G : forall fs0 vis, Forall (field_wf sch) fs0 -> incl (n :: visited) vis ->
                  exists d vis', (fix go (fs : list mfield) (vis : list string) : option (list (string * mval) * list string) :=
                       match fs with
                       | [] => Some ([], vis)
                       | g :: fs' =>
                           match mock fuel sch vis g with
                           | None => None
                           | Some (v, vis') =>
                               match go fs' vis' with
                               | None => None
                               | Some (r, vis'') => Some ((mf_name g, v) :: r, vis'')
                               end
                           end
                       end) fs0 vis = Some (d, vis') /\ incl vis vis').
      { induction fs0 as [|g fs0 IHfs]; intros vis Wf0 Iv.
        - eexists _, vis. split; [reflexivity | apply incl_refl].
        - inversion Wf0 as [|? ? Wg Wr]; subst.
          destruct (IH vis g Wg) as (v & vis1 & E1 & I1).
          { pose proof (unvisited_mono sch (n :: visited) vis Iv). lia. }
          rewrite E1.
          destruct (IHfs vis1 Wr) as (d & vis2 & E2 & I2); [eapply incl_tran; eauto|].
          rewrite E2. eexists _, vis2. split; [reflexivity | eapply incl_tran; eauto]. }
      destruct (G fs (n :: visited) Wfs (incl_refl _)) as (d & vis' & E & I).
      rewrite E. eexists _, vis'. split; [reflexivity|]. intros x Hx. apply I. now right.
  - destruct (mem_str e visited); eexists _, _; (split; [reflexivity|]); [apply incl_refl | intros x Hx; now right].
  - eexists _, _. split; [reflexivity|]. intros x Hx. now right.
Qed.

Lemma unvisited_le_length sch : unvisited sch [] <= length sch.
Proof.
  unfold unvisited, names. rewrite <- (map_length fst sch).
  generalize (map fst sch). intro l. induction l as [|n ns IH]; [simpl; lia|].
  cbn [filter]. destruct (negb (mem_str n [])); cbn [length]; lia.
Qed.

(* the entry point: a fresh visited set and fuel = number of message types + 1 *)
Corollary mock_top_total sch f : schema_wf sch -> field_wf sch f ->
  exists v visited', mock (S (length sch)) sch [] f = Some (v, visited').
Proof.
  intros W Hf. destruct (mock_total sch W (S (length sch)) [] f Hf) as (v & vis & E & _).
  - pose proof (unvisited_le_length sch). lia.
  - eauto.
Qed.

Example mock_recursive_example :
  let sch := [("Turtle", [ {| mf_name := "turtle"; mf_kind := MMsg "Turtle"; mf_rep := false |};
                           {| mf_name := "name"; mf_kind := MPrim PkStr; mf_rep := false |} ])] in
  mock 2 sch [] {| mf_name := "t"; mf_kind := MMsg "Turtle"; mf_rep := false |}
  = Some (MVDict [("turtle", MVDict []); ("name", MVStr "name_value")], ["Turtle"]).
Proof. vm_compute. reflexivity. Qed.
