(* Proofs/Words.v — C20: the words of a text (str.split()) and an equivalence "same words in every context". *)
From GV Require Import Base.Str Model.FixWs Model.Wrap Proofs.RxLemmas.
Local Open Scope list_scope.

Notation ws := is_pyspace.

Lemma flush_nil : flush "" = [].
Proof. reflexivity. Qed.

(* a separator: a non-empty string of whitespace *)
Definition sepc (W : string) : Prop := W <> "" /\ sall ws W = true.

Lemma pw_acc_ws : forall W cur rest, sall ws W = true ->
  pw_acc cur (W ++ rest)%string = match W with EmptyString => pw_acc cur rest | _ => flush cur ++ pw_acc "" rest end.
Proof.
  induction W as [|c W IH]; intros cur rest H; [reflexivity|].
  simpl in H. apply andb_true_iff in H as [Hc H]. cbn [append pw_acc]. rewrite Hc.
  rewrite (IH "" rest H). destruct W; reflexivity.
Qed.

Lemma pw_acc_sep W cur rest : sepc W -> pw_acc cur (W ++ rest)%string = flush cur ++ pw_acc "" rest.
Proof. intros [Hne H]. rewrite pw_acc_ws by exact H. destruct W; [congruence|reflexivity]. Qed.

Lemma pw_acc_congr x y : (forall cur, pw_acc cur x = pw_acc cur y) ->
  forall mid cur, pw_acc cur (mid ++ x)%string = pw_acc cur (mid ++ y)%string.
Proof.
  intros H mid. induction mid as [|c mid IH]; intro cur; cbn [append pw_acc]; [apply H|].
  destruct (ws c); now rewrite IH.
Qed.

(* same words in every context *)
Definition weq (a b : string) : Prop :=
  forall cur rest, pw_acc cur (a ++ rest)%string = pw_acc cur (b ++ rest)%string.
Infix "≃" := weq (at level 70).

Lemma weq_refl a : a ≃ a.
Proof. intros cur rest. reflexivity. Qed.
Lemma weq_sym a b : a ≃ b -> b ≃ a.
Proof. intros H cur rest. symmetry. apply H. Qed.
Lemma weq_trans a b c : a ≃ b -> b ≃ c -> a ≃ c.
Proof. intros H1 H2 cur rest. now rewrite H1. Qed.

Lemma weq_app a a' b b' : a ≃ a' -> b ≃ b' -> (a ++ b)%string ≃ (a' ++ b')%string.
Proof.
  intros Ha Hb cur rest. rewrite !sapp_assoc. rewrite Ha.
  apply pw_acc_congr. intro cur'. apply Hb.
Qed.

Lemma weq_sep W1 W2 : sepc W1 -> sepc W2 -> W1 ≃ W2.
Proof. intros H1 H2 cur rest. now rewrite !pw_acc_sep. Qed.

Lemma weq_pywords a b : a ≃ b -> pywords a = pywords b.
Proof. intro H. unfold pywords. specialize (H "" ""%string). now rewrite !sapp_nil_r in H. Qed.

Lemma sepc_app_l W V : sepc W -> sall ws V = true -> sepc (W ++ V)%string.
Proof. intros [Hn H] HV. split; [destruct W; [congruence|discriminate]|]. now rewrite sall_app, H, HV. Qed.

Lemma sepc_app_r W V : sall ws V = true -> sepc W -> sepc (V ++ W)%string.
Proof.
  intros HV [Hn H]. split.
  - intro E. apply app_nil_inv in E as [_ E]. congruence.
  - now rewrite sall_app, H, HV.
Qed.

Lemma sepc_nl1 : sepc nl1.
Proof. split; [discriminate|reflexivity]. Qed.

(* whitespace at the two ends of a text does not matter *)
Lemma pywords_lead W s : sall ws W = true -> pywords (W ++ s)%string = pywords s.
Proof. intro H. unfold pywords. rewrite pw_acc_ws by exact H. destruct W; reflexivity. Qed.

Lemma pw_acc_trail W : sall ws W = true -> forall s cur, pw_acc cur (s ++ W)%string = pw_acc cur s.
Proof.
  intros H s. induction s as [|c s IH]; intro cur.
  - cbn [append]. rewrite <- (sapp_nil_r W). rewrite pw_acc_ws by exact H. destruct W; [reflexivity|].
    cbn [pw_acc]. now rewrite app_nil_r.
  - cbn [append pw_acc]. destruct (ws c); now rewrite IH.
Qed.

Lemma pywords_trail W s : sall ws W = true -> pywords (s ++ W)%string = pywords s.
Proof. intro H. apply pw_acc_trail. exact H. Qed.

(* the two texts have the same words whatever follows, given a common already-equivalent left part *)
Lemma pywords_app_weq a b b' : b ≃ b' -> forall rest, pywords (a ++ b ++ rest)%string = pywords (a ++ b' ++ rest)%string.
Proof. intros H rest. unfold pywords. apply pw_acc_congr. intro cur. apply H. Qed.
