(* Proofs/Http.v — C04: lemmas about Model/Http.v (REST transcoding). *)
From Coq Require Import Permutation.
From GV Require Import Base.Str Gen.Kw Gen.HttpGen Model.Reserved Model.Case Model.HttpValues Model.Http.
Local Open Scope list_scope.

(* ------------------------------------------------------------------ small list facts *)
Lemma filter_partition {A} (f : A -> bool) (l : list A) :
  Permutation (filter f l ++ filter (fun x => negb (f x)) l) l.
Proof.
  induction l as [|a l IH]; simpl; [constructor|].
  destruct (f a); simpl.
  - now constructor.
  - symmetry. apply Permutation_cons_app. now symmetry.
Qed.

Lemma mem_str_In x l : mem_str x l = true <-> In x l.
Proof.
  unfold mem_str. rewrite existsb_exists. split.
  - intros [y [Hy E]]. apply String.eqb_eq in E. now subst.
  - intros H. exists x. split; [assumption | apply String.eqb_refl].
Qed.

Lemma mem_str_app x a b : mem_str x (a ++ b) = mem_str x a || mem_str x b.
Proof. unfold mem_str. apply existsb_app. Qed.

Lemma filter_map_nil {A B} (f : A -> option B) l :
  filter_map f l = [] <-> (forall a, In a l -> f a = None).
Proof.
  induction l as [|a l IH]; simpl.
  - split; [intros _ x [] | reflexivity].
  - destruct (f a) eqn:E.
    + split; [discriminate|]. intros H. specialize (H a (or_introl eq_refl)). congruence.
    + rewrite IH. split.
      * intros H x [<-|Hx]; auto.
      * intros H x Hx. apply H. now right.
Qed.

(* ------------------------------------------------------------------ transcode *)
Definition body_leaves (t : transcoded) : req := match t_body t with Some b => b | None => [] end.

Lemma transcode_with_index i b r : t_index (transcode_with i b r) = i.
Proof. unfold transcode_with. now destruct (body_of b). Qed.

Lemma transcode_with_partition i b r :
  let t := transcode_with i b r in Permutation (t_path t ++ body_leaves t ++ t_query t) r.
Proof.
  unfold transcode_with, body_leaves. destruct (body_of b); simpl.
  - apply filter_partition.
  - rewrite app_nil_r. apply filter_partition.
  - eapply perm_trans; [|apply (filter_partition (is_var_leaf (var_names (utoks (b_uri b)))) r)].
    apply Permutation_app_head. apply filter_partition.
Qed.

Lemma transcode_from_spec attrs opts : forall i r t,
  transcode_from i attrs opts r = Some t ->
  exists k b, nth_error opts k = Some b /\ t = transcode_with (i + k) b r /\ applies attrs b r = true /\
              (forall j b', j < k -> nth_error opts j = Some b' -> applies attrs b' r = false).
Proof.
  induction opts as [|b opts IH]; intros i r t H; simpl in H; [discriminate|].
  destruct (applies attrs b r) eqn:Ea.
  - inversion H; subst. exists 0, b. rewrite Nat.add_0_r. repeat split; auto.
    intros j b' Hj. lia.
  - apply IH in H. destruct H as [k [b0 [Hn [Ht [Hap Hprev]]]]].
    exists (S k), b0. simpl. repeat split; auto.
    + now rewrite Nat.add_succ_r.
    + intros j b' Hj Hnth. destruct j as [|j]; simpl in Hnth.
      * inversion Hnth; subst. exact Ea.
      * apply (Hprev j b'); [lia | exact Hnth].
Qed.

Lemma transcode_from_none attrs opts : forall i r,
  transcode_from i attrs opts r = None <-> (forall b, In b opts -> applies attrs b r = false).
Proof.
  induction opts as [|b opts IH]; intros i r; simpl.
  - split; [intros _ b [] | reflexivity].
  - destruct (applies attrs b r) eqn:Ea.
    + split; [discriminate|]. intros H. specialize (H b (or_introl eq_refl)). congruence.
    + rewrite IH. split.
      * intros H x [<-|Hx]; auto.
      * intros H x Hx. apply H. now right.
Qed.

(* no loss, no duplication: the three parts of a transcoded request are a partition of the leaves *)
Lemma transcode_partition_l attrs opts r t :
  transcode attrs opts r = Some t -> Permutation (t_path t ++ body_leaves t ++ t_query t) r.
Proof.
  intros H. apply transcode_from_spec in H. destruct H as [k [b [_ [-> _]]]].
  apply transcode_with_partition.
Qed.

(* the binding taken is the first that applies *)
Lemma first_matching_binding_l attrs opts r t :
  transcode attrs opts r = Some t ->
  exists b, nth_error opts (t_index t) = Some b /\ applies attrs b r = true /\
            t_method t = b_method b /\ t_uri t = expand (utoks (b_uri b)) r /\
            (forall j b', j < t_index t -> nth_error opts j = Some b' -> applies attrs b' r = false).
Proof.
  intros H. apply transcode_from_spec in H. destruct H as [k [b [Hn [-> [Ha Hp]]]]].
  rewrite transcode_with_index. simpl. exists b. repeat split; auto.
  - unfold transcode_with. now destruct (body_of b).
  - unfold transcode_with. now destruct (body_of b).
Qed.

Lemma no_binding_applies_l attrs opts r :
  transcode attrs opts r = None <-> (forall b, In b opts -> applies attrs b r = false).
Proof. apply transcode_from_none. Qed.

(* body '*' = the remainder, body field = exactly that field, none = no body; the rest is the query *)
Lemma body_spec_l attrs opts r t :
  transcode attrs opts r = Some t ->
  exists b, nth_error opts (t_index t) = Some b /\
    let vars := var_names (utoks (b_uri b)) in
    let lo := filter (fun l => negb (is_var_leaf vars l)) r in
    t_path t = filter (is_var_leaf vars) r /\
    match body_of b with
    | BAll => t_body t = Some lo /\ t_query t = []
    | BField f => t_body t = Some (filter (head_is f) lo) /\ t_query t = filter (fun l => negb (head_is f l)) lo
    | BNone => t_body t = None /\ t_query t = lo
    end.
Proof.
  intros H. apply transcode_from_spec in H. destruct H as [k [b [Hn [-> _]]]].
  rewrite transcode_with_index. simpl. exists b. split; [exact Hn|].
  unfold transcode_with. destruct (body_of b); simpl; auto.
Qed.

(* the same, leaf by leaf: where does a leaf that is not a path variable travel *)
Lemma body_spec_mem_l attrs opts r t :
  transcode attrs opts r = Some t ->
  exists b, nth_error opts (t_index t) = Some b /\
    forall l, In l r -> is_var_leaf (var_names (utoks (b_uri b))) l = false ->
      match body_of b with
      | BAll => In l (body_leaves t) /\ ~ In l (t_query t)
      | BField f => if head_is f l then In l (body_leaves t) /\ ~ In l (t_query t)
                    else In l (t_query t) /\ ~ In l (body_leaves t)
      | BNone => In l (t_query t) /\ t_body t = None
      end.
Proof.
  intros H. destruct (body_spec_l _ _ _ _ H) as [b [Hn [_ Hb]]]. exists b. split; [exact Hn|].
  intros l Hl Hv. unfold body_leaves.
  assert (Hlo : In l (filter (fun l => negb (is_var_leaf (var_names (utoks (b_uri b))) l)) r)).
  { apply filter_In. split; [exact Hl | now rewrite Hv]. }
  destruct (body_of b) as [| |f].
  - destruct Hb as [-> ->]. auto.
  - destruct Hb as [-> ->]. split; [exact Hlo | intros []].
  - destruct Hb as [-> ->]. destruct (head_is f l) eqn:Eh.
    + split; [apply filter_In; auto|]. intros Hq. apply filter_In in Hq. rewrite Eh in Hq. destruct Hq; discriminate.
    + split; [apply filter_In; rewrite Eh; auto|]. intros Hq. apply filter_In in Hq. destruct Hq; congruence.
Qed.

(* ------------------------------------------------------------------ names on the wire *)
Lemma to_json_name_aux_trailing s : forall cap,
  to_json_name_aux cap (s ++ "_")%string = to_json_name_aux cap s.
Proof.
  induction s as [|c s IH]; intros cap; simpl; [reflexivity|].
  destruct (Ascii.eqb c "_"%char); now rewrite IH.
Qed.

(* the reserved-word suffix never reaches the JSON key *)
Lemma json_name_suffix_irrelevant n : to_json_name (field_attr n) = to_json_name n.
Proof.
  unfold field_attr, to_json_name. destruct (reserved n); [apply to_json_name_aux_trailing | reflexivity].
Qed.

Lemma json_key_orig c : json_key c = orig_key c.
Proof. destruct c; simpl; [apply json_name_suffix_irrelevant | reflexivity]. Qed.

Lemma map_json_key_orig p : map json_key p = map orig_key p.
Proof. apply map_ext. exact json_key_orig. Qed.

(* ------------------------------------------------------------------ the emitted call path *)
Definition tbl_of (m : method) : list (string * dflt) :=
  match defaults_table m with Some tb => tb | None => [] end.

(* what a Sent outcome consists of *)
Lemma run_sent numeric m r v u q bd :
  run numeric m r = Sent v u q bd ->
  exists t, transcode (attrs_of m) (http_options m) r = Some t /\
            v = t_method t /\ u = t_uri t /\
            q = render_query numeric (tbl_of m) (t_query t) /\
            existsb lrep (t_query t) = false /\
            bd = (if body_spec m then
                    match t_body t with
                    | Some bl => Some (body_pairs numeric
                                        (match nth_error (http_options m) (t_index t) with
                                         | Some b => drop_of (body_of b) | None => 0 end) bl)
                    | None => None
                    end
                  else None).
Proof.
  unfold run, tbl_of. destruct (http_options m) as [|b0 opts] eqn:Eo; [discriminate|].
  destruct (m_client_streaming m); [discriminate|].
  destruct (transcode (attrs_of m) (b0 :: opts) r) as [t|] eqn:Et; [|discriminate].
  intros H. exists t. split; [reflexivity|].
  destruct (body_spec m) eqn:Eb; destruct (t_body t) as [bl|] eqn:Etb; try discriminate;
    destruct (existsb lrep (t_query t)) eqn:Er; try discriminate; inversion H; subst; repeat split; reflexivity.
Qed.

(* methods without a binding refuse the REST transport *)
Lemma no_binding_not_implemented_l numeric m r :
  http_options m = [] -> run numeric m r = Fail NotImplemented.
Proof. intros H. unfold run. now rewrite H. Qed.

Lemma try_parse_none ru :
  try_parse ru = None <->
  match r_pat ru with PVerb _ u => u = ""%string | PNone | PCustom => True end.
Proof.
  unfold try_parse. destruct (r_pat ru) as [| |v u]; try tauto.
  destruct u as [|c u]; simpl; split; intros H; try reflexivity; try discriminate.
Qed.

Lemma http_options_nil m :
  http_options m = [] <-> (forall ru, In ru (m_rule m :: m_more m) -> try_parse ru = None).
Proof. unfold http_options. apply filter_map_nil. Qed.

Lemma not_implemented_iff numeric m r :
  run numeric m r = Fail NotImplemented <-> (http_options m = [] \/ m_client_streaming m = true).
Proof.
  unfold run. destruct (http_options m) as [|b0 opts] eqn:Eo.
  - split; auto.
  - destruct (m_client_streaming m).
    + split; auto.
    + split.
      * destruct (transcode (attrs_of m) (b0 :: opts) r) as [t|]; [|discriminate].
        destruct (body_spec m), (t_body t), (existsb lrep (t_query t)); discriminate.
      * intros [H|H]; discriminate.
Qed.

(* ---- numeric enums ---- *)
Lemma numeric_enum_switch_l numeric m r v u q bd :
  run numeric m r = Sent v u q bd ->
  exists t, transcode (attrs_of m) (http_options m) r = Some t /\
    (* the marker is the last pair, present iff the option is set *)
    q = (query_pairs numeric (t_query t) ++ unset_required (tbl_of m) (top_keys (t_query t)))
        ++ (if numeric then [alt_pair] else []) /\
    (* every enum leaf of the query travels as its number iff the option is set, as its name otherwise *)
    (forall l name num, In l (t_query t) -> lval l = VE name num ->
       In (sjoin "." (map json_key (lpath l)), if numeric then num else name) q) /\
    (* and so does every enum leaf of the body that is sent *)
    (forall bl pairs l name num, t_body t = Some bl -> bd = Some pairs -> In l bl -> lval l = VE name num ->
       exists key, In (key, if numeric then num else name) pairs).
Proof.
  intros H. apply run_sent in H. destruct H as [t [Ht [-> [-> [-> [_ Hb]]]]]].
  exists t. split; [exact Ht|]. split; [|split].
  - unfold render_query. now rewrite app_assoc.
  - intros l name num Hl Hv. unfold render_query. apply in_or_app. left.
    unfold query_pairs. apply in_map_iff. exists l. split; [|exact Hl].
    rewrite Hv. reflexivity.
  - intros bl pairs l name num Hbl Hp Hl Hv. rewrite Hbl in Hb.
    destruct (body_spec m); [|rewrite Hb in Hp; discriminate].
    rewrite Hb in Hp. inversion Hp; subst pairs.
    eexists. unfold body_pairs. apply in_map_iff. exists l. split; [|exact Hl].
    rewrite Hv. reflexivity.
Qed.

Lemma alt_iff_numeric_l numeric m r v u q bd :
  run numeric m r = Sent v u q bd ->
  (numeric = true -> In alt_pair q) /\
  (numeric = false ->
     forall t, transcode (attrs_of m) (http_options m) r = Some t ->
     ~ In "$alt"%string (top_keys (t_query t)) -> ~ In "$alt"%string (map fst (tbl_of m)) ->
     Forall (fun l => lpath l <> []) (t_query t) ->
     ~ In alt_pair q).
Proof.
  intros H. destruct (numeric_enum_switch_l _ _ _ _ _ _ _ H) as [t [Ht [Hq _]]]. split.
  - intros ->. rewrite Hq. apply in_or_app. right. now left.
  - intros -> t' Ht' Hk Htb Hne Hin. rewrite Ht in Ht'. inversion Ht'; subst t'. clear Ht'.
    rewrite Hq, app_nil_r in Hin. apply in_app_or in Hin. destruct Hin as [Hin|Hin].
    + unfold query_pairs in Hin. apply in_map_iff in Hin. destruct Hin as [l [E Hl]].
      inversion E as [[Ek Ev]]. clear E.
      rewrite Forall_forall in Hne. specialize (Hne l Hl).
      destruct (lpath l) as [|c p] eqn:Ep; [congruence|].
      (* a one-component path has the key itself; longer paths contain a dot after the first key *)
      destruct p as [|c2 p].
      * simpl in Ek. apply Hk. unfold top_keys. apply in_flat_map. exists l. split; [exact Hl|].
        rewrite Ep. left. exact Ek.
      * (* a longer path gives a key with a dot in it; "$alt" has none *)
        exfalso.
        assert (Hd : contains "."%char (sjoin "." (map json_key (c :: c2 :: p))) = true).
        { change (sjoin "." (map json_key (c :: c2 :: p)))
            with (json_key c ++ "." ++ sjoin "." (map json_key (c2 :: p)))%string.
          rewrite contains_app. apply orb_true_iff. right. reflexivity. }
        rewrite Ek in Hd. vm_compute in Hd. discriminate.
    + unfold unset_required in Hin. apply in_flat_map in Hin. destruct Hin as [[k d] [Hkd Hp]].
      simpl in Hp. destruct (mem_str k (top_keys (t_query t))); [destruct Hp|].
      assert (k = "$alt"%string).
      { destruct d; simpl in Hp; try (destruct Hp as [E|[]]; inversion E; reflexivity). destruct Hp. }
      subst k. apply Htb. apply in_map_iff. exists ("$alt"%string, d). split; [reflexivity | exact Hkd].
Qed.

(* ---- wire names ---- *)
Lemma wire_names_original_l numeric m r v u q bd :
  run numeric m r = Sent v u q bd ->
  exists t, transcode (attrs_of m) (http_options m) r = Some t /\
    (forall l, In l (t_query t) ->
       In (sjoin "." (map orig_key (lpath l)), json_text numeric (lval l)) q) /\
    (forall bl pairs l, t_body t = Some bl -> bd = Some pairs -> In l bl ->
       exists drop, In (sjoin usep (map orig_key (skipn drop (lpath l))), json_text numeric (lval l)) pairs).
Proof.
  intros H. apply run_sent in H. destruct H as [t [Ht [-> [-> [-> [_ Hb]]]]]].
  exists t. split; [exact Ht|]. split.
  - intros l Hl. unfold render_query. apply in_or_app. left. unfold query_pairs.
    apply in_map_iff. exists l. split; [|exact Hl]. now rewrite map_json_key_orig.
  - intros bl pairs l Hbl Hp Hl. rewrite Hbl in Hb.
    destruct (body_spec m); [|rewrite Hb in Hp; discriminate].
    rewrite Hb in Hp. inversion Hp; subst pairs. eexists.
    unfold body_pairs. apply in_map_iff. exists l. split; [|exact Hl]. now rewrite map_json_key_orig.
Qed.

(* ---- required defaults ---- *)
Lemma key_under_self k : key_under k k = true.
Proof. unfold key_under. now rewrite String.eqb_refl. Qed.

Lemma key_under_joined k x rest :
  key_under k (sjoin "." (k :: x :: rest)) = true.
Proof.
  unfold key_under. apply orb_true_iff. right. unfold starts_with.
  change (sjoin "." (k :: x :: rest)) with (k ++ "." ++ sjoin "." (x :: rest))%string.
  rewrite <- sapp_assoc. now rewrite strip_prefix_app.
Qed.

Lemma dflt_pairs_scalar k t : scalar_type t = true -> exists val, In (k, val) (dflt_pairs k (dflt_of t)).
Proof.
  unfold scalar_type, dflt_of. intros H.
  destruct (N.eqb t 9); [eexists; now left|].
  destruct (n_in t [11; 14]%N) eqn:E1.
  { exfalso. unfold n_in in *. simpl in *.
    destruct (N.eqb t 10), (N.eqb t 11), (N.eqb t 14); simpl in *; discriminate. }
  destruct (n_in t [1; 2]%N); [eexists; now left|].
  destruct (N.eqb t 8); [eexists; now left|].
  destruct (N.eqb t 12); eexists; now left.
Qed.

Lemma unbound_first_query_params m f :
  In f (m_fields m) -> unbound_first m f = true -> mem_str (field_attr (f_name f)) (query_params m) = true.
Proof.
  unfold unbound_first, query_params. intros Hin H.
  destruct (r_pat (m_rule m)) as [| |vb ur]; try discriminate.
  apply andb_true_iff in H. destruct H as [Hb1 Hb3].
  apply negb_true_iff in Hb1. cbv zeta. rewrite Hb1.
  apply mem_str_In. apply filter_In. split.
  - apply in_map_iff. exists f. split; [reflexivity | exact Hin].
  - apply negb_true_iff in Hb3. apply negb_true_iff.
    rewrite map_app, mem_str_app in *. apply orb_false_iff in Hb3. destruct Hb3 as [Ha Hb].
    rewrite Ha. simpl. destruct (is_empty (r_body (m_rule m))); [reflexivity | exact Hb].
Qed.

(* since c409a6e: a field named by the first rule (path variable or body) never enters the defaults table,
   reserved word or not *)
Lemma query_params_exclude_bound m verb u f :
  r_pat (m_rule m) = PVerb verb u ->
  mem_str (field_attr (f_name f)) (query_params m) = true ->
  ~ In (f_name f) (path_params u ++ (if is_empty (r_body (m_rule m)) then [] else [r_body (m_rule m)])).
Proof.
  unfold query_params. intros Hp H Hin. rewrite Hp in H. cbv zeta in H.
  destruct (String.eqb (r_body (m_rule m)) "*"); [discriminate|].
  apply mem_str_In in H. apply filter_In in H. destruct H as [_ H].
  apply negb_true_iff in H.
  assert (E : mem_str (field_attr (f_name f))
                (map field_attr (path_params u ++ (if is_empty (r_body (m_rule m)) then [] else [r_body (m_rule m)]))) = true).
  { apply mem_str_In. apply in_map. exact Hin. }
  congruence.
Qed.

Lemma defaults_exclude_bound m verb u f :
  r_pat (m_rule m) = PVerb verb u ->
  In f (filter (fun f => f_required f && mem_str (field_attr (f_name f)) (query_params m)) (m_fields m)) ->
  ~ In (f_name f) (path_params u ++ (if is_empty (r_body (m_rule m)) then [] else [r_body (m_rule m)])).
Proof.
  intros Hp H. apply filter_In in H. destruct H as [_ H]. apply andb_true_iff in H.
  eapply query_params_exclude_bound; [exact Hp | apply H].
Qed.

Lemma required_defaults_complete_l numeric m r v u q bd f :
  run numeric m r = Sent v u q bd ->
  In f (m_fields m) -> f_required f = true -> scalar_type (f_type f) = true ->
  unbound_first m f = true -> names_agree m = true ->
  exists key val, In (key, val) q /\ key_under (to_json_name (f_name f)) key = true.
Proof.
  intros H Hin Hreq Hsc Hub Hna.
  apply run_sent in H. destruct H as [t [_ [_ [_ [-> _]]]]].
  assert (Hk : camel_case (field_attr (f_name f)) = to_json_name (f_name f)).
  { unfold names_agree in Hna. rewrite forallb_forall in Hna. specialize (Hna f Hin).
    apply String.eqb_eq in Hna. rewrite Hna. apply json_name_suffix_irrelevant. }
  set (k := to_json_name (f_name f)) in *.
  assert (Htbl : In (k, dflt_of (f_type f)) (tbl_of m)).
  { unfold tbl_of, defaults_table.
    assert (E : existsb f_required (m_fields m) = true) by (apply existsb_exists; eauto).
    rewrite E. unfold required_defaults. apply in_map_iff. exists f. split.
    - now rewrite Hk.
    - apply filter_In. split; [exact Hin|]. rewrite Hreq. simpl. now apply unbound_first_query_params. }
  unfold render_query.
  destruct (mem_str k (top_keys (t_query t))) eqn:Ep.
  - apply mem_str_In in Ep. unfold top_keys in Ep. apply in_flat_map in Ep.
    destruct Ep as [l [Hl Hc]]. destruct (lpath l) as [|c p] eqn:Elp; [destruct Hc|].
    destruct Hc as [Hc|[]].
    exists (sjoin "." (map json_key (lpath l))), (json_text numeric (lval l)). split.
    + apply in_or_app. left. unfold query_pairs. apply in_map_iff. exists l. split; [reflexivity | exact Hl].
    + rewrite Elp. simpl map. rewrite Hc. destruct (map json_key p) as [|x rest] eqn:Em.
      * apply key_under_self.
      * apply key_under_joined.
  - destruct (dflt_pairs_scalar k (f_type f) Hsc) as [val Hv].
    exists k, val. split; [|apply key_under_self].
    apply in_or_app. right. apply in_or_app. left.
    unfold unset_required. apply in_flat_map. exists (k, dflt_of (f_type f)). split; [exact Htbl|].
    simpl. now rewrite Ep.
Qed.

(* ------------------------------------------------------------------ specification vs validate() *)
Lemma lit_match_refl c : lit_match c c = true.
Proof.
  unfold lit_match. destruct (Ascii.eqb c "."%char) eqn:E; [|apply Ascii.eqb_refl].
  apply Ascii.eqb_eq in E. subst. reflexivity.
Qed.

Lemma rmatchk_lit s : forall k x, rmatchk (map RChar (chars s)) k (s ++ x)%string = k x.
Proof.
  induction s as [|a s IH]; intros k x; simpl; [reflexivity|].
  rewrite lit_match_refl. simpl. apply IH.
Qed.

Lemma rmatchk_app ts1 : forall ts2 k s, rmatchk (ts1 ++ ts2) k s = rmatchk ts1 (rmatchk ts2 k) s.
Proof.
  induction ts1 as [|t ts1 IH]; intros ts2 k s; [reflexivity|].
  destruct t; simpl.
  - destruct s as [|a s]; [reflexivity|]. now rewrite IH.
  - induction s as [|a s IHs]; [reflexivity|]. rewrite IH, IHs. reflexivity.
  - induction s as [|a s IHs]; [reflexivity|]. rewrite IH, IHs. reflexivity.
Qed.

(* a value that matches a token list exactly still matches it when more text follows, provided the
   continuation accepts that text *)
Lemma rmatchk_extend ts : forall v k x,
  rmatchk ts is_empty v = true -> k x = true -> rmatchk ts k (v ++ x)%string = true.
Proof.
  induction ts as [|t ts IH]; intros v k x Hv Hk.
  - simpl in *. destruct v; [exact Hk | discriminate].
  - destruct t.
    + simpl in *. destruct v as [|a v]; [discriminate|]. simpl.
      apply andb_true_iff in Hv. destruct Hv as [H1 H2]. rewrite H1. simpl. now apply IH.
    + simpl in *. revert Hv. induction v as [|a v IHv]; intros Hv; [discriminate|].
      simpl. apply andb_true_iff in Hv. destruct Hv as [H1 H2]. rewrite H1. simpl.
      apply orb_true_iff in H2. apply orb_true_iff.
      destruct H2 as [H2|H2]; [left; now apply IH | right; now apply IHv].
    + simpl in *. revert Hv. induction v as [|a v IHv]; intros Hv; [discriminate|].
      simpl. apply andb_true_iff in Hv. destruct Hv as [H1 H2]. rewrite H1. simpl.
      apply orb_true_iff in H2. apply orb_true_iff.
      destruct H2 as [H2|H2]; [left; now apply IH | right; now apply IHv].
Qed.

(* if every variable is set and matches its own sub-template, the whole expanded uri validates *)
Lemma spec_implies_validate ts r :
  forallb (var_matches r) ts = true ->
  rmatch (uri_rtoks ts) (expand ts r) = true /\
  forallb (fun n => truthy (lookup r n)) (var_names ts) = true.
Proof.
  unfold rmatch. induction ts as [|t ts IH]; intros H; [split; reflexivity|].
  simpl in H. apply andb_true_iff in H. destruct H as [Ht Hts]. destruct (IH Hts) as [IH1 IH2].
  change (uri_rtoks (t :: ts)) with (tok_rtoks t ++ uri_rtoks ts).
  rewrite rmatchk_app. destruct t as [s|n tm].
  - split; [|exact IH2]. unfold expand. simpl. fold (expand ts r). rewrite rmatchk_lit. exact IH1.
  - unfold var_matches in Ht. destruct (lookup r n) as [v|] eqn:El; [|discriminate].
    apply andb_true_iff in Ht. destruct Ht as [Hne Hm]. split.
    + unfold expand. simpl. rewrite El. fold (expand ts r).
      apply rmatchk_extend; [exact Hm | exact IH1].
    + simpl. rewrite El. simpl. rewrite Hne. exact IH2.
Qed.

Lemma spec_applies_applies attrs b r :
  spec_applies b r = true ->
  body_attr_ok attrs b = true ->
  applies attrs b r = true.
Proof.
  unfold spec_applies, applies. intros H Hb. destruct (spec_implies_validate _ _ H) as [H1 H2].
  now rewrite H1, H2, Hb.
Qed.

(* the transport never skips a binding that google.api.http says applies *)
Lemma first_matching_spec_l attrs opts r t :
  transcode attrs opts r = Some t ->
  forall j b', j < t_index t -> nth_error opts j = Some b' ->
    body_attr_ok attrs b' = true ->
    spec_applies b' r = false.
Proof.
  intros H j b' Hj Hn Hb. destruct (first_matching_binding_l _ _ _ _ H) as [b [_ [_ [_ [_ Hp]]]]].
  specialize (Hp j b' Hj Hn). destruct (spec_applies b' r) eqn:E; [|reflexivity].
  rewrite (spec_applies_applies _ _ _ E Hb) in Hp. discriminate.
Qed.

(* ------------------------------------------------------------------ concrete objects: non-vacuity and refutations *)
Definition fld (n : string) (t : N) (req : bool) : field := mkField n t false req.
Definition sleaf (p : path) (s : string) : leaf := mkLeaf p (VS s) false.

(* a method with three bindings, a nested path variable, a reserved-word field and required fields of several kinds *)
Definition ex_fields : list field :=
  [fld "name" 9 true; fld "class" 9 true; fld "sub" 11 true; fld "page_size" 5 true; fld "kind" 14 true;
   fld "flag" 8 true; fld "ratio" 1 true; fld "blob" 12 true; fld "big" 3 true; mkField "tags" 9 true true;
   fld "from" 9 false].
Definition ex_method : method :=
  mkMethod ex_fields (mkRule (PVerb "post" "/v1/{name=items/*}/{sub.class=things/*}:one") "sub")
           [mkRule (PVerb "get" "/v1/{class=cls/*}") ""; mkRule (PVerb "put" "/v2/{name=items/*}") "*"] false.
Definition ex_req : req :=
  [sleaf [F "name"] "items/i1"; sleaf [F "sub"; F "class"] "things/t1"; sleaf [F "sub"; F "count"] "3";
   mkLeaf [F "kind"] (VE "KIND_A" "1") false; sleaf [F "tags"] "a"; sleaf [F "tags"] "b";
   sleaf [F "labels"; K "k.x"] "v"; sleaf [F "from"] "f"].

Example ex_options :
  http_options ex_method =
  [mkBinding "post" "/v1/{name=items/*}/{sub.class_=things/*}:one" (Some "sub");
   mkBinding "get" "/v1/{class_=cls/*}" None; mkBinding "put" "/v2/{name=items/*}" (Some "*")].
Proof. vm_compute. reflexivity. Qed.

Example ex_run :
  run false ex_method ex_req =
  Sent "post" "/v1/items/i1/things/t1:one"
       [("kind", "KIND_A"); ("tags", "a"); ("tags", "b"); ("labels.k.x", "v"); ("from", "f"); ("class", "");
        ("pageSize", "0"); ("flag", "false"); ("ratio", "0.0"); ("blob", "b''"); ("big", "0")]
       (Some [("count", "3")]).
Proof. vm_compute. reflexivity. Qed.

(* hypotheses of required_defaults_complete hold of a concrete field (page_size: required, int32, unbound) *)
Example ex_required_hyps :
  In (fld "page_size" 5 true) (m_fields ex_method) /\ scalar_type 5 = true /\
  unbound_first ex_method (fld "page_size" 5 true) = true /\ names_agree ex_method = true.
Proof. repeat split; try (vm_compute; reflexivity). simpl. tauto. Qed.

(* hypotheses of alt_iff_numeric: no key is "$alt", every leaf has a non-empty path *)
Example ex_alt_hyps :
  exists t, transcode (attrs_of ex_method) (http_options ex_method) ex_req = Some t /\
            ~ In "$alt"%string (top_keys (t_query t)) /\ ~ In "$alt"%string (map fst (tbl_of ex_method)) /\
            Forall (fun l => lpath l <> []) (t_query t).
Proof.
  eexists. split; [vm_compute; reflexivity|]. split; [|split].
  - vm_compute. intuition discriminate.
  - vm_compute. intuition discriminate.
  - vm_compute. repeat constructor; discriminate.
Qed.

(* rule-less and custom-only methods have no binding *)
Example ex_rule_less :
  http_options (mkMethod ex_fields (mkRule PNone "") [] false) = [] /\
  http_options (mkMethod ex_fields (mkRule PCustom "") [] false) = [].
Proof. split; reflexivity. Qed.

(* ---- refutations: where the full-strength statements fail on the faithful model ---- *)

(* (a) required defaults are computed from the FIRST rule only: under an additional binding a required scalar
   that is bound by neither that binding's path nor its body is missing from the query *)
Definition add_method : method :=
  mkMethod [fld "name" 9 true; fld "parent" 9 false]
           (mkRule (PVerb "get" "/v1/{name=items/*}") "") [mkRule (PVerb "get" "/v1/{parent=ps/*}/items") ""] false.
Lemma required_defaults_additional_refuted :
  exists m r f q, run false m r = Sent "get" "/v1/ps/p/items" q None /\
    In f (m_fields m) /\ f_required f = true /\ scalar_type (f_type f) = true /\
    (forall t, transcode (attrs_of m) (http_options m) r = Some t -> t_index t = 1 /\ t_path t = [sleaf [F "parent"] "ps/p"]) /\
    forall key val, In (key, val) q -> key_under (to_json_name (f_name f)) key = false.
Proof.
  exists add_method, [sleaf [F "parent"] "ps/p"], (fld "name" 9 true), [].
  split; [vm_compute; reflexivity|]. split; [simpl; tauto|]. split; [reflexivity|]. split; [reflexivity|]. split.
  - intros t Ht. vm_compute in Ht. inversion Ht. split; reflexivity.
  - intros key val [].
Qed.

(* (b) ... and under an additional binding with body "*" the defaults of the first rule DUPLICATE body fields *)
Lemma defaults_duplicate_additional_refuted :
  exists q b, run false ex_method [sleaf [F "name"] "items/i3"; sleaf [F "big"] "5"] = Sent "put" "/v2/items/i3" q (Some b) /\
    In ("big", "5") b /\ In ("big", "0") q.
Proof. eexists. eexists. split; [vm_compute; reflexivity|]. split; simpl; tauto. Qed.

(* (c) formerly refuted (fixed by c409a6e): a required reserved-word field bound by the path of the first rule is
   NOT sent again in the query *)
Definition kw_method : method :=
  mkMethod [fld "class" 9 true] (mkRule (PVerb "get" "/v1/{class=items/*}") "") [] false.
Example reserved_path_variable_not_duplicated :
  run false kw_method [sleaf [F "class"] "items/c"] = Sent "get" "/v1/items/c" [] None /\
  defaults_table kw_method = Some [].
Proof. split; vm_compute; reflexivity. Qed.

(* (d) whether a body is sent is decided by the first binding: a later binding without body crashes (KeyError),
   a later binding WITH body under a body-less first rule loses the body *)
Definition body_method : method :=
  mkMethod [fld "name" 9 false; fld "parent" 9 false; fld "title" 9 false]
           (mkRule (PVerb "get" "/v1/{name=items/*}") "") [mkRule (PVerb "post" "/v1/{parent=ps/*}/items") "*"] false.
Lemma body_first_rule_only_refuted :
  run false ex_method [sleaf [F "class"] "cls/c1"] = Fail BodyKeyError /\
  run false body_method [sleaf [F "parent"] "ps/p"; sleaf [F "title"] "t"] = Sent "post" "/v1/ps/p/items" [] None.
Proof. split; vm_compute; reflexivity. Qed.

(* (e) the default written for a required bytes field is the Python literal b'' whose str() is sent *)
Lemma required_default_bytes_refuted :
  exists q bd, run false ex_method ex_req = Sent "post" "/v1/items/i1/things/t1:one" q bd /\ In ("blob", "b''") q.
Proof. eexists. eexists. split; [vm_compute; reflexivity|]. simpl. tauto. Qed.

(* (f) an unset required REPEATED field is sent as one default element *)
Lemma required_default_repeated_refuted :
  exists q bd, run false ex_method [sleaf [F "name"] "items/i3"] = Sent "put" "/v2/items/i3" q bd /\ In ("tags", "") q.
Proof. eexists. eexists. split; [vm_compute; reflexivity|]. simpl. tauto. Qed.

(* (g) validate() matches the WHOLE expanded uri: a variable need not match its own sub-template *)
Definition seg_binding : binding := mkBinding "get" "/v1/{a=*}/{b=**}" None.
Lemma validate_whole_uri_refuted :
  exists r, applies ["a"; "b"] seg_binding r = true /\ spec_applies seg_binding r = false /\
            expand (utoks (b_uri seg_binding)) r = "/v1/x/y/z"%string.
Proof. exists [sleaf [F "a"] "x/y"; sleaf [F "b"] "z"]. repeat split; vm_compute; reflexivity. Qed.

(* the specification-level predicate is not empty: in the running example every variable matches its sub-template *)
Example ex_spec_applies :
  spec_applies (mkBinding "post" "/v1/{name=items/*}/{sub.class_=things/*}:one" (Some "sub")) ex_req = true.
Proof. vm_compute. reflexivity. Qed.

Example ex_spec_applies_full :
  spec_applies (mkBinding "post" "/v1/{name=items/*}/{sub.class_=things/*}:one" (Some "sub")) ex_req = true
  /\ body_attr_ok (attrs_of ex_method) (mkBinding "post" "/v1/{name=items/*}/{sub.class_=things/*}:one" (Some "sub")) = true.
Proof. split; vm_compute; reflexivity. Qed.

(* the body of a call is handed to the session iff the first binding has one, streaming or not, sync or async *)
Lemma data_kw_iff_body body is_async streaming :
  In "data"%string (response_kwargs body is_async streaming) <-> body = true.
Proof.
  unfold response_kwargs. destruct body, is_async, streaming; simpl; split; intros H; try reflexivity; try discriminate;
    intuition discriminate.
Qed.

(* ------------------------------------------------------------------ T0 pins: the literals Model/Http.v was written against *)
Example pin_PATH_PARAMS_RE : PATH_PARAMS_RE_src = "\{(\w+)(?:=.+?)?\}"%string.
Proof. reflexivity. Qed.
Example pin_TRY_PARSE_TESTS :
  TRY_PARSE_TESTS_src = "method is None or method == 'custom' ; not uri ; body in utils.RESERVED_NAMES and (not body.endswith('_'))"%string.
Proof. reflexivity. Qed.
Example pin_QUERY_PARAMS_RETURN : QUERY_PARAMS_RETURN_src = "set(self.input.fields) - params ; set() ; set()"%string.
Proof. reflexivity. Qed.
Example pin_QUERY_PARAMS_SUFFIX :
  QUERY_PARAMS_SUFFIX_src = "if self.input.meta.address.is_proto_plus_type: params = {param + '_' if param in utils.RESERVED_NAMES else param for param in params}"%string.
Proof. reflexivity. Qed.
Example pin_VARIABLE_RE :
  VARIABLE_RE_src = "((?P<positional>\*\*?)|{(?P<name>[^/]+?)(?:=(?P<template>.+?))?})"%string.
Proof. reflexivity. Qed.
Example pin_SEGMENT_PATTERNS : SEGMENT_PATTERNS_src = "([^/]+) (.+)"%string.
Proof. reflexivity. Qed.

(* further non-vacuity: a request taken by the SECOND binding (hypotheses of first_matching_spec), and the numeric run *)
Example ex_second_binding :
  exists t b0, transcode (attrs_of add_method) (http_options add_method) [sleaf [F "parent"] "ps/p"] = Some t /\
    0 < t_index t /\ nth_error (http_options add_method) 0 = Some b0 /\
    body_attr_ok (attrs_of add_method) b0 = true /\ spec_applies b0 [sleaf [F "parent"] "ps/p"] = false.
Proof. eexists. eexists. split; [vm_compute; reflexivity|]. cbn [t_index]. split; [lia|]. split; [vm_compute; reflexivity|]. split; vm_compute; reflexivity. Qed.

Example ex_run_numeric :
  run true ex_method ex_req =
  Sent "post" "/v1/items/i1/things/t1:one"
       [("kind", "1"); ("tags", "a"); ("tags", "b"); ("labels.k.x", "v"); ("from", "f"); ("class", "");
        ("pageSize", "0"); ("flag", "false"); ("ratio", "0.0"); ("blob", "b''"); ("big", "0");
        ("$alt", "json;enum-encoding=int")]%string
       (Some [("count", "3")]%string).
Proof. vm_compute. reflexivity. Qed.
