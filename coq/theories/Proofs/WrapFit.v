(* Proofs/WrapFit.v — C20: when the first line of the comment fits (no call of textwrap.wrap on it), wrap keeps the
   words of the whole comment: the slice text[len(first):] is then exactly "the text after the first line". *)
From GV Require Import Base.Str Model.FixWs Model.Wrap Proofs.RxLemmas Proofs.FixWs Proofs.Words Proofs.TwWrap Proofs.Wrap.
Local Open Scope list_scope.
Local Open Scope nat_scope.

(* ---------------------------------------------------------------- the two rewritings keep the words *)
Lemma sepc_nl_sp : sepc (String nl (String sp "")).
Proof. split; [discriminate|reflexivity]. Qed.
Lemma sepc_nl_nl : sepc (String nl (String nl "")).
Proof. split; [discriminate|reflexivity]. Qed.

Lemma repl_nlsp_weq s : repl_nlsp s ≃ s.
Proof.
  remember (String.length s) as n eqn:En. revert s En.
  induction n as [n IH] using lt_wf_ind. intros s En.
  destruct s as [|c s]; [apply weq_refl|]. cbn [repl_nlsp].
  assert (IHs : repl_nlsp s ≃ s) by (eapply IH; [|reflexivity]; subst n; simpl; lia).
  destruct (Ascii.eqb c nl) eqn:Ec; [|now apply weq_cons].
  apply Ascii.eqb_eq in Ec. subst c.
  destruct s as [|d s']; [apply weq_refl|].
  destruct (Ascii.eqb d sp) eqn:Ed; [|now apply weq_cons].
  apply Ascii.eqb_eq in Ed. subst d.
  apply (weq_app (s1 nl) (String nl (String sp "")) (repl_nlsp s') s').
  - apply weq_sep; [exact sepc_nl1 | exact sepc_nl_sp].
  - eapply IH; [|reflexivity]. subst n. simpl. lia.
Qed.

Lemma colon_sub_weq s : colon_sub s ≃ s.
Proof.
  remember (String.length s) as n eqn:En. revert s En.
  induction n as [n IH] using lt_wf_ind. intros s En.
  destruct s as [|a t]; [apply weq_refl|]. cbn [colon_sub].
  assert (IHt : colon_sub t ≃ t) by (eapply IH; [|reflexivity]; subst n; simpl; lia).
  destruct (Ascii.eqb a ":"); [|now apply weq_cons].
  destruct t as [|b [|c s']]; try now apply weq_cons.
  destruct (Ascii.eqb b nl && negb (Ascii.eqb c nl)) eqn:E; [|now apply weq_cons].
  apply andb_true_iff in E as [Eb _]. apply Ascii.eqb_eq in Eb. subst b.
  apply weq_cons.
  apply (weq_app (String nl (String nl "")) (s1 nl) (String c (colon_sub s')) (String c s')).
  - apply weq_sep; [exact sepc_nl_nl | exact sepc_nl1].
  - apply weq_cons. eapply IH; [|reflexivity]. subst n. simpl. lia.
Qed.

(* ---------------------------------------------------------------- the first line *)
Definition nonl (c : ascii) : bool := negb (Ascii.eqb c nl).

Lemma split_on_acc_head : forall s acc, exists ls,
  split_on_acc nl s acc = (srev acc ++ stake_while nonl s)%string :: ls.
Proof.
  induction s as [|c s IH]; intro acc; cbn [split_on_acc stake_while].
  - exists []. now rewrite sapp_nil_r.
  - unfold nonl at 1. destruct (Ascii.eqb c nl); cbn [negb].
    + eexists. now rewrite sapp_nil_r.
    + destruct (IH (String c acc)) as (ls & ->). exists ls. rewrite srev_cons. unfold s1. now rewrite sapp_assoc.
Qed.

Lemma first_line_is s : match split_on nl s with l :: _ => l | [] => ""%string end = stake_while nonl s.
Proof. unfold split_on. destruct (split_on_acc_head s "") as (ls & ->). reflexivity. Qed.

Lemma nonl_contains a : sall nonl a = true -> contains nl a = false.
Proof.
  induction a as [|c a IH]; [reflexivity|]. simpl. intro H. apply andb_true_iff in H as [Hc H].
  rewrite (IH H). unfold nonl in Hc. now destruct (Ascii.eqb c nl).
Qed.

(* colon_sub across a prefix without newline: only its last character can start a match *)
Lemma colon_sub_prefix : forall a rest, sall nonl a = true ->
  colon_sub (a ++ rest)%string =
    if ends_with_c ":" a then
      match rest with
      | String b (String c r') =>
          if Ascii.eqb b nl && negb (Ascii.eqb c nl)
          then (a ++ String nl (String nl (String c (colon_sub r'))))%string
          else (a ++ colon_sub rest)%string
      | _ => (a ++ colon_sub rest)%string
      end
    else (a ++ colon_sub rest)%string.
Proof.
  induction a as [|x a IH]; intros rest Ha; [reflexivity|].
  simpl in Ha. apply andb_true_iff in Ha as [Hx Ha].
  destruct a as [|y a'].
  - (* the prefix is the single character x *)
    cbn [append ends_with_c colon_sub]. destruct (Ascii.eqb x ":") eqn:Ex; reflexivity.
  - assert (Hy : Ascii.eqb y nl = false).
    { simpl in Ha. apply andb_true_iff in Ha as [Hy _]. unfold nonl in Hy. now destruct (Ascii.eqb y nl). }
    specialize (IH rest Ha).
    change (ends_with_c ":" (String x (String y a'))) with (ends_with_c ":" (String y a')).
    cbn [append] in *. cbn [colon_sub].
    assert (E : (if Ascii.eqb x ":" then
                   match (String y (a' ++ rest))%string with
                   | String b (String c s') =>
                       if Ascii.eqb b nl && negb (Ascii.eqb c nl)
                       then String x (String nl (String nl (String c (colon_sub s'))))
                       else String x (colon_sub (String y (a' ++ rest)))
                   | _ => String x (colon_sub (String y (a' ++ rest)))
                   end
                 else String x (colon_sub (String y (a' ++ rest)))) = String x (colon_sub (String y (a' ++ rest)))).
    { destruct (Ascii.eqb x ":"); [|reflexivity]. destruct (a' ++ rest)%string; [reflexivity|]. now rewrite Hy. }
    cbn [colon_sub] in E. cbn [colon_sub] in IH. rewrite E. rewrite IH.
    destruct (ends_with_c ":" (String y a')); [|reflexivity].
    destruct rest as [|b [|c r']]; try reflexivity.
    destruct (Ascii.eqb b nl && negb (Ascii.eqb c nl)); reflexivity.
Qed.

Lemma sdrop_app a b : sdrop (String.length a) (a ++ b)%string = b.
Proof. induction a as [|c a IH]; [reflexivity|]. exact IH. Qed.

Lemma sdrop_short : forall n s, String.length s <= n -> sdrop n s = ""%string.
Proof.
  induction n as [|n IH]; intros s H; [destruct s; [reflexivity|simpl in H; lia]|].
  destruct s; [reflexivity|]. simpl in *. apply IH. lia.
Qed.

(* the slice after an untouched first line: its words, together with those of the first line, are those of the text *)
Lemma fit_slice_words text1 :
  pywords (first0_of text1) ++ pywords (sdrop (String.length (first0_of text1)) (colon_sub text1)) = pywords text1.
Proof.
  unfold first0_of. rewrite first_line_is.
  set (line0 := stake_while nonl text1). set (rest := sdrop_while nonl text1).
  assert (Et : text1 = (line0 ++ rest)%string) by apply take_drop_while.
  assert (Hl : sall nonl line0 = true) by apply sall_take_while.
  assert (Hr : nohead nonl rest) by apply nohead_drop_while.
  rewrite <- (weq_pywords _ _ (colon_sub_weq text1)).
  rewrite Et at 1 2. rewrite (colon_sub_prefix line0 rest Hl).
  destruct rest as [|b tail].
  - (* a single line *)
    assert (Ec : (if ends_with_c ":" line0 then (line0 ++ colon_sub "")%string else (line0 ++ colon_sub "")%string) = line0)
      by (cbn [colon_sub]; rewrite sapp_nil_r; now destruct (ends_with_c ":" line0)).
    rewrite Ec. rewrite sdrop_short.
    + rewrite app_nil_r. destruct (ends_with_c ":" line0).
      * rewrite <- (sapp_assoc line0 nl1 nl1). now rewrite !(pywords_trail nl1).
      * rewrite sapp_nil_r. now rewrite (pywords_trail nl1).
    + rewrite !length_app. simpl. lia.
  - simpl in Hr. unfold nonl in Hr. destruct (Ascii.eqb b nl) eqn:Eb; [|discriminate]. apply Ascii.eqb_eq in Eb. subst b. clear Hr.
    destruct (ends_with_c ":" line0) eqn:Ecol.
    + (* the first line ends with a colon: first = line0 \n \n *)
      replace (line0 ++ nl1 ++ nl1)%string with ((line0 ++ nl1) ++ nl1)%string by now rewrite sapp_assoc.
      destruct tail as [|c r'].
      * cbn [colon_sub]. rewrite sdrop_short by (rewrite !length_app; simpl; lia).
        rewrite app_nil_r. rewrite !(pywords_trail nl1) by reflexivity.
        reflexivity.
      * destruct (Ascii.eqb c nl) eqn:Ec.
        -- apply Ascii.eqb_eq in Ec. subst c. cbn [andb negb colon_sub].
           replace (Ascii.eqb nl ":") with false by reflexivity.
           replace (line0 ++ String nl (String nl (colon_sub r')))%string with (((line0 ++ nl1) ++ nl1) ++ colon_sub r')%string
             by (unfold nl1, s1; rewrite !sapp_assoc; reflexivity).
           rewrite sdrop_app. now rewrite <- pywords_sep_app.
        -- cbn [andb negb].
           replace (line0 ++ String nl (String nl (String c (colon_sub r'))))%string with (((line0 ++ nl1) ++ nl1) ++ String c (colon_sub r'))%string
             by (unfold nl1, s1; rewrite !sapp_assoc; reflexivity).
           rewrite sdrop_app. now rewrite <- pywords_sep_app.
    + (* first = line0 \n *)
      rewrite sapp_nil_r. cbn [colon_sub]. replace (Ascii.eqb nl ":") with false by reflexivity.
      replace (line0 ++ String nl (colon_sub tail))%string with ((line0 ++ nl1) ++ colon_sub tail)%string
        by (unfold nl1, s1; rewrite !sapp_assoc; reflexivity).
      rewrite sdrop_app. now rewrite <- pywords_sep_app.
Qed.

