(* Proofs/FixWs.v — C20: lemmas about Model/FixWs.v (fix_whitespace). *)
From GV Require Import Base.Str Model.FixWs Proofs.RxLemmas.

Notation ws := is_pyspace.
Ltac napp := repeat (rewrite !sapp_assoc || (progress (cbn [append]))).

(* ---------------------------------------------------------------- re.sub scan *)
Lemma sub_aux_skip m : forall a b, sub_aux m (String.length a) (a ++ b) = sub_aux m 0 b.
Proof. induction a as [|c a IH]; intro b; simpl; [reflexivity | apply IH]. Qed.

Lemma re_sub_nil m : re_sub m "" = "".
Proof. reflexivity. Qed.

Lemma re_sub_none m c s : m (String c s) = None -> re_sub m (String c s) = String c (re_sub m s).
Proof. unfold re_sub. simpl. now intros ->. Qed.

Lemma re_sub_some m s repl rest mid :
  m s = Some (repl, rest) -> s = mid ++ rest -> mid <> "" -> re_sub m s = repl ++ re_sub m rest.
Proof.
  intros Hm -> Hne. destruct mid as [|c mid]; [congruence|].
  unfold re_sub. simpl. simpl in Hm. rewrite Hm. f_equal.
  rewrite length_app. replace (String.length mid + String.length rest - String.length rest) with (String.length mid) by lia.
  apply sub_aux_skip.
Qed.

(* ---------------------------------------------------------------- rstrip *)
Lemma rstrip_all_ws W : sall ws W = true -> rstrip_ws W = "".
Proof.
  induction W as [|c W IH]; simpl; [reflexivity|]. intro H. apply andb_true_iff in H as [Hc H].
  rewrite (IH H). simpl. now rewrite Hc.
Qed.

Lemma rstrip_app_ws W : sall ws W = true -> forall x, rstrip_ws (x ++ W) = rstrip_ws x.
Proof.
  intros H x. induction x as [|c x IH]; simpl; [now apply rstrip_all_ws | now rewrite IH].
Qed.

Lemma rstrip_decomp s : exists W, s = rstrip_ws s ++ W /\ sall ws W = true.
Proof.
  induction s as [|c s (W & E & HW)]; [exists ""; auto|]. simpl.
  destruct (is_empty (rstrip_ws s) && ws c) eqn:B.
  - apply andb_true_iff in B as [B1 B2]. destruct (rstrip_ws s); [|discriminate]. simpl in E.
    exists (String c s). split; [reflexivity|]. simpl. rewrite B2. now subst.
  - exists W. split; [simpl; now rewrite <- E | exact HW].
Qed.

(* "the text is empty or its last character is not whitespace" *)
Definition tidy (body : string) : Prop :=
  body = "" \/ exists b c, body = b ++ s1 c /\ ws c = false.

Lemma rstrip_tidy s : tidy (rstrip_ws s).
Proof.
  induction s as [|c s IH]; [now left|]. simpl.
  destruct (is_empty (rstrip_ws s) && ws c) eqn:B; [now left|]. right.
  destruct IH as [E | (b & d & E & Hd)].
  - rewrite E in *. simpl in B. exists "", c. auto.
  - exists (String c b), d. rewrite E. auto.
Qed.

Lemma rstrip_of_tidy body : tidy body -> rstrip_ws body = body.
Proof.
  intros [-> | (b & c & -> & Hc)]; [reflexivity|].
  induction b as [|x b IH]; simpl; [now rewrite Hc|].
  rewrite IH. destruct b; reflexivity.
Qed.

(* ---------------------------------------------------------------- non-blank lines *)
Lemma emit_nil : emit "" = [].
Proof. reflexivity. Qed.

Lemma emit_ws cur W : sall ws W = true -> emit (cur ++ W) = emit cur.
Proof. intro H. unfold emit. now rewrite rstrip_app_ws. Qed.

Lemma nb_acc_nl cur s : nb_acc cur (String nl s) = (emit cur ++ nb_acc "" s)%list.
Proof. cbn [nb_acc]. now rewrite Ascii.eqb_refl. Qed.

Lemma nb_acc_nonl : forall a cur b, contains nl a = false -> nb_acc cur (a ++ b) = nb_acc (cur ++ a) b.
Proof.
  induction a as [|c a IH]; intros cur b H; simpl.
  - now rewrite sapp_nil_r.
  - simpl in H. apply orb_false_iff in H as [Hc H]. rewrite Hc. rewrite IH by exact H.
    unfold s1. now rewrite sapp_assoc.
Qed.

Lemma nb_acc_congr x y : (forall cur, nb_acc cur x = nb_acc cur y) ->
  forall mid cur, nb_acc cur (mid ++ x) = nb_acc cur (mid ++ y).
Proof.
  intros H mid. induction mid as [|c mid IH]; intro cur; simpl; [apply H|].
  destruct (Ascii.eqb c nl); [now rewrite IH | apply IH].
Qed.

(* a whitespace run containing a newline ends the current line and leaves its own last line *)
Lemma nb_acc_run : forall P T cur r, sall ws P = true -> contains nl T = false ->
  nb_acc cur (P ++ String nl T ++ r) = (emit cur ++ nb_acc T r)%list.
Proof.
  induction P as [|c P IH]; intros T cur r HP HT.
  - change ("" ++ String nl T ++ r) with (String nl (T ++ r)). rewrite nb_acc_nl. now rewrite nb_acc_nonl.
  - simpl in HP. apply andb_true_iff in HP as [Hc HP].
    change (String c P ++ String nl T ++ r) with (String c (P ++ String nl T ++ r)).
    cbn [nb_acc]. destruct (Ascii.eqb c nl).
    + rewrite IH by assumption. now rewrite emit_nil.
    + rewrite IH by assumption. f_equal. apply emit_ws. simpl. now rewrite Hc.
Qed.

Lemma nb_acc_trailing_ws W : sall ws W = true -> forall x cur, nb_acc cur (x ++ W) = nb_acc cur x.
Proof.
  intros HW x. induction x as [|c x IH]; intro cur.
  - simpl. revert cur. induction W as [|d W IHW]; intro cur; [reflexivity|].
    simpl in HW. apply andb_true_iff in HW as [Hd HW]. simpl.
    destruct (Ascii.eqb d nl).
    + rewrite (IHW HW). rewrite emit_nil. now rewrite app_nil_r.
    + rewrite (IHW HW). apply emit_ws. simpl. now rewrite Hd.
  - simpl. destruct (Ascii.eqb c nl); now rewrite IH.
Qed.

(* re.sub with a matcher whose every replacement keeps the non-blank lines, keeps them *)
Definition nb_safe (m : matcher) : Prop :=
  forall s repl rest, m s = Some (repl, rest) ->
    exists mid, mid <> "" /\ s = mid ++ rest /\ forall cur t, nb_acc cur (repl ++ t) = nb_acc cur (mid ++ t).

Lemma re_sub_nb m : nb_safe m -> forall s cur, nb_acc cur (re_sub m s) = nb_acc cur s.
Proof.
  intros Hm s. remember (String.length s) as n eqn:En. revert s En.
  induction n as [n IH] using lt_wf_ind. intros s En cur.
  destruct s as [|c s]; [reflexivity|].
  destruct (m (String c s)) as [[repl rest]|] eqn:E.
  - destruct (Hm _ _ _ E) as (mid & Hne & Hs & Hnb).
    rewrite (re_sub_some _ _ _ _ _ E Hs Hne). rewrite Hnb. rewrite Hs.
    apply nb_acc_congr. intro cur'. eapply IH; [|reflexivity].
    subst n. rewrite Hs, length_app. destruct mid; [congruence | simpl; lia].
  - rewrite (re_sub_none _ _ _ E).
    change (String c (re_sub m s)) with (s1 c ++ re_sub m s). change (String c s) with (s1 c ++ s).
    apply nb_acc_congr. intro cur'. eapply IH; [|reflexivity]. subst n. simpl. lia.
Qed.

(* ---------------------------------------------------------------- what a match of each regex is *)
Lemma star_space_lit R (k : string -> option R) : forall s,
  star is_space (lit nl k) s = lit nl k (sdrop_while is_space s).
Proof.
  induction s as [|c s IH]; [reflexivity|]. simpl. destruct (is_space c) eqn:E; [|reflexivity].
  rewrite IH. destruct (lit nl k (sdrop_while is_space s)); [reflexivity|].
  unfold is_space in E. apply Ascii.eqb_eq in E. subst c. reflexivity.
Qed.

Lemma m1_spec c s : m1 (String c s) =
  if is_space c then
    match sdrop_while is_space s with
    | String x t => if Ascii.eqb x nl then Some (nl1, t) else None
    | EmptyString => None
    end
  else None.
Proof. unfold m1. simpl. destruct (is_space c); [|reflexivity]. now rewrite star_space_lit. Qed.

Lemma is_space_ws c : is_space c = true -> ws c = true.
Proof. unfold is_space. intro H. apply Ascii.eqb_eq in H. now subst. Qed.

Lemma spaces_nonl S : sall is_space S = true -> contains nl S = false.
Proof.
  induction S as [|c S IH]; simpl; [reflexivity|]. intro H. apply andb_true_iff in H as [Hc H].
  rewrite (IH H). unfold is_space in Hc. apply Ascii.eqb_eq in Hc. now subst.
Qed.

Lemma spaces_ws S : sall is_space S = true -> sall ws S = true.
Proof.
  induction S as [|c S IH]; simpl; [reflexivity|]. intro H. apply andb_true_iff in H as [Hc H].
  now rewrite (is_space_ws _ Hc), IH.
Qed.

Lemma m1_sound s repl rest : m1 s = Some (repl, rest) ->
  exists S, S <> "" /\ sall is_space S = true /\ s = S ++ String nl rest /\ repl = nl1.
Proof.
  destruct s as [|c s]; [discriminate|]. rewrite m1_spec.
  destruct (is_space c) eqn:Ec; [|discriminate].
  destruct (sdrop_while is_space s) as [|x t] eqn:Ed; [discriminate|].
  destruct (Ascii.eqb x nl) eqn:Ex; [|discriminate]. intro H. inversion H; subst.
  apply Ascii.eqb_eq in Ex. subst x.
  exists (String c (stake_while is_space s)). repeat split; try discriminate.
  - simpl. now rewrite Ec, sall_take_while.
  - simpl. f_equal. rewrite <- Ed. apply take_drop_while.
Qed.

(* the shape of a match of the second regex *)
Lemma m2_sound s repl rest : m2 s = Some (repl, rest) ->
  exists c0 a1 a2 a3 w,
    s = String c0 (a1 ++ String nl (a2 ++ String nl (a3 ++ String nl (w ++ rest)))) /\
    ws c0 = true /\ sall ws a1 = true /\ sall ws a2 = true /\ sall ws a3 = true /\
    In w kw2 /\ repl = nl3 ++ w.
Proof.
  unfold m2. intro H.
  apply plus_some in H as (c0 & a1 & b1 & -> & Hc0 & Ha1 & H).
  apply lit_some in H as (b1' & -> & H).
  apply star_some in H as (a2 & b2 & -> & Ha2 & H).
  apply lit_some in H as (b2' & -> & H).
  apply star_some in H as (a3 & b3 & -> & Ha3 & H).
  apply lit_some in H as (t & -> & H).
  apply alts_some in H as (w & rest' & Hin & -> & H). inversion H; subst.
  exists c0, a1, a2, a3, w. repeat split; auto.
Qed.

Lemma m2_complete c0 a1 a2 a3 w rest :
  ws c0 = true -> sall ws a1 = true -> sall ws a2 = true -> sall ws a3 = true -> In w kw2 ->
  m2 (String c0 (a1 ++ String nl (a2 ++ String nl (a3 ++ String nl (w ++ rest))))) <> None.
Proof.
  intros Hc0 Ha1 Ha2 Ha3 Hin H. unfold m2 in H.
  eapply plus_none in H; [|exact Hc0|exact Ha1]. rewrite lit_eq in H.
  eapply star_none in H; [|reflexivity|exact Ha2]. rewrite lit_eq in H.
  eapply star_none in H; [|reflexivity|exact Ha3]. rewrite lit_eq in H.
  eapply alts_none in H; [|exact Hin|reflexivity]. discriminate.
Qed.

Lemma m3_sound s repl rest : m3 s = Some (repl, rest) ->
  exists c0 a1 a2 j c,
    s = String c0 (a1 ++ String nl (a2 ++ String nl (rep (4 * S j) sp ++ String c rest))) /\
    ws c0 = true /\ sall ws a1 = true /\ sall ws a2 = true /\ is_c3 c = true /\
    repl = nl2 ++ rep (4 * S j) sp ++ s1 c.
Proof.
  unfold m3. intro H.
  apply plus_some in H as (c0 & a1 & b1 & -> & Hc0 & Ha1 & H).
  apply lit_some in H as (b1' & -> & H).
  apply star_some in H as (a2 & b2 & -> & Ha2 & H).
  apply lit_some in H as (b2' & -> & H).
  apply plus4_some in H as (j & t & -> & H).
  apply cls_some in H as (c & rest' & -> & Hc & H). inversion H; subst.
  exists c0, a1, a2, j, c. repeat split; auto.
Qed.

Lemma m3_complete c0 a1 a2 j c rest :
  ws c0 = true -> sall ws a1 = true -> sall ws a2 = true -> is_c3 c = true ->
  m3 (String c0 (a1 ++ String nl (a2 ++ String nl (rep (4 * S j) sp ++ String c rest)))) <> None.
Proof.
  intros Hc0 Ha1 Ha2 Hc H. unfold m3 in H.
  eapply plus_none in H; [|exact Hc0|exact Ha1]. rewrite lit_eq in H.
  eapply star_none in H; [|reflexivity|exact Ha2]. rewrite lit_eq in H.
  eapply plus4_none in H; [|reflexivity]. simpl in H. rewrite Hc in H. discriminate.
Qed.

(* ---------------------------------------------------------------- theorem (a): only blanks are deleted *)
Lemma kw2_nonempty w : In w kw2 -> w <> "".
Proof. simpl. intros [<-|[<-|[<-|[<-|[<-|[]]]]]]; discriminate. Qed.

Lemma rep_sp_space n : sall is_space (rep n sp) = true.
Proof. induction n; simpl; [reflexivity|]. rewrite IHn. reflexivity. Qed.

Lemma m1_nb_safe : nb_safe m1.
Proof.
  intros s repl rest H. apply m1_sound in H as (S & Hne & HS & -> & ->).
  exists (S ++ nl1). split; [destruct S; [congruence|discriminate]|]. split.
  - now rewrite sapp_assoc.
  - intros cur t. rewrite sapp_assoc. unfold nl1, s1. simpl.
    rewrite (nb_acc_nonl S) by now apply spaces_nonl.
    rewrite !nb_acc_nl. f_equal. symmetry. apply emit_ws. now apply spaces_ws.
Qed.

Lemma m2_nb_safe : nb_safe m2.
Proof.
  intros s repl rest H. apply m2_sound in H as (c0 & a1 & a2 & a3 & w & -> & Hc0 & Ha1 & Ha2 & Ha3 & Hin & ->).
  set (P := String c0 (a1 ++ String nl (a2 ++ String nl a3))).
  assert (HP : sall ws P = true).
  { unfold P. simpl. rewrite Hc0. rewrite sall_app, Ha1. simpl. rewrite sall_app, Ha2. simpl. now rewrite Ha3. }
  assert (E : forall t, String c0 (a1 ++ String nl (a2 ++ String nl (a3 ++ String nl t))) = P ++ String nl "" ++ t).
  { intro t. unfold P. napp. reflexivity. }
  exists (P ++ nl1 ++ w). split; [unfold P; discriminate|]. split.
  - rewrite E. unfold nl1, s1. napp. reflexivity.
  - intros cur t.
    replace ((P ++ nl1 ++ w) ++ t) with (P ++ String nl "" ++ (w ++ t)) by (unfold nl1, s1; napp; reflexivity).
    replace ((nl3 ++ w) ++ t) with (nl2 ++ String nl "" ++ (w ++ t)) by reflexivity.
    rewrite !nb_acc_run; auto.
Qed.

Lemma m3_nb_safe : nb_safe m3.
Proof.
  intros s repl rest H. apply m3_sound in H as (c0 & a1 & a2 & j & c & -> & Hc0 & Ha1 & Ha2 & Hc & ->).
  set (T := rep (4 * S j) sp).
  set (P := String c0 (a1 ++ String nl a2)).
  assert (HP : sall ws P = true).
  { unfold P. simpl. rewrite Hc0. rewrite sall_app, Ha1. simpl. now rewrite Ha2. }
  assert (HT : contains nl T = false) by (apply spaces_nonl, rep_sp_space).
  exists (P ++ String nl T ++ s1 c). split; [unfold P; discriminate|]. split.
  - unfold P, s1. napp. reflexivity.
  - intros cur t.
    replace ((P ++ String nl T ++ s1 c) ++ t) with (P ++ String nl T ++ (s1 c ++ t)).
    2:{ unfold s1. napp. reflexivity. }
    replace ((nl2 ++ T ++ s1 c) ++ t) with (nl1 ++ String nl T ++ (s1 c ++ t)).
    2:{ unfold nl2, nl1, s1. napp. reflexivity. }
    rewrite !nb_acc_run; auto.
Qed.

Lemma fixws_deletes_only_blanks code :
  nonblank_lines (fix_whitespace code) = nonblank_lines code.
Proof.
  unfold nonblank_lines, fix_whitespace.
  set (x := re_sub m3 (re_sub m2 (re_sub m1 code))).
  destruct (rstrip_decomp x) as (W & E & HW).
  rewrite (nb_acc_trailing_ws nl1) by reflexivity.
  rewrite <- (nb_acc_trailing_ws W HW (rstrip_ws x)). rewrite <- E. unfold x.
  rewrite (re_sub_nb _ m3_nb_safe), (re_sub_nb _ m2_nb_safe), (re_sub_nb _ m1_nb_safe). reflexivity.
Qed.

(* ---------------------------------------------------------------- theorem (b): one final newline *)
Lemma fixws_one_trailing_newline code :
  exists body, fix_whitespace code = body ++ nl1 /\ tidy body.
Proof. eexists. split; [reflexivity | apply rstrip_tidy]. Qed.
