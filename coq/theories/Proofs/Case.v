(* Proofs/Case.v — pins of the literals Model/Case.v was written against (T0) and small facts about the name functions *)
From GV Require Import Base.Str Model.Case Gen.CaseGen.

(* If one of these literals changes in /repo the pin no longer type-checks: the model must be re-read against the code. *)
Lemma pin_snake_subs :
  snake_subs = [("(?<=[a-z])([A-Z])", "_\1"); ("(?<=[^_])([A-Z])(?=[a-z])", "_\1");
                ("(?<=[a-z])(\d)(?=[A-Z]{2})", "_\1"); ("(?<=[a-z])(\d)(?=[A-Z]$)", "_\1")].
Proof. reflexivity. Qed.
Lemma pin_valid_filename_subs : valid_filename_subs = [("[^a-z0-9.$_-]+", "-")].
Proof. reflexivity. Qed.
Lemma pin_valid_module_consts : valid_module_consts = ["-"; "_"].
Proof. reflexivity. Qed.

Lemma case_pins :
  snake_subs = [("(?<=[a-z])([A-Z])", "_\1"); ("(?<=[^_])([A-Z])(?=[a-z])", "_\1");
                ("(?<=[a-z])(\d)(?=[A-Z]{2})", "_\1"); ("(?<=[a-z])(\d)(?=[A-Z]$)", "_\1")]
  /\ valid_filename_subs = [("[^a-z0-9.$_-]+", "-")] /\ valid_module_consts = ["-"; "_"].
Proof. repeat split. Qed.
