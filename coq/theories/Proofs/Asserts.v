(* Proofs/Asserts.v -- the assertion ladder of the emitted tests is sound for every scalar field shape *)
From GV Require Import Model.Asserts.
From Coq Require Import List Bool Arith.
Import ListNotations.

Lemma assert_form_holds_b :
  forallb (fun ty => holds (assert_form ty false) ty false && holds (assert_form ty true) ty true) SCALAR_TYPES = true.
Proof. vm_compute. reflexivity. Qed.

Theorem assert_form_holds ty repeated : In ty SCALAR_TYPES -> holds (assert_form ty repeated) ty repeated = true.
Proof.
  intros H. pose proof assert_form_holds_b as F. rewrite forallb_forall in F.
  specialize (F ty H). apply andb_prop in F. destruct F as [F0 F1]. destruct repeated; assumption.
Qed.

(* the form is `is` exactly for a singular bool, and never `==` for a float or double *)
Theorem assert_form_is_iff ty repeated : assert_form ty repeated = AIs <-> (ty = 8 /\ repeated = false).
Proof.
  unfold assert_form. split.
  - destruct (is_float_type ty) eqn:F.
    + destruct repeated; discriminate.
    + destruct (Nat.eqb ty 8) eqn:E; simpl.
      * destruct repeated; simpl; [discriminate|]. intros _. apply Nat.eqb_eq in E. auto.
      * discriminate.
  - intros [-> ->]. reflexivity.
Qed.

Theorem assert_form_unguarded_bool_refuted :
  exists ty repeated, In ty SCALAR_TYPES /\ holds (assert_form_unguarded_bool ty repeated) ty repeated = false.
Proof. exists 8, true. split; [simpl; tauto | reflexivity]. Qed.
