(* Proofs/Mixins.v — lemmas for C17.  Finite facts about the regenerated tables (Gen/MixinsGen.v) are re-checked by
   vm_compute on every build; the theorems about selection, yielding and table lookups hold for every configuration. *)
From GV Require Import Base.Str Gen.Kw Gen.MixinsGen Model.Case Model.Reserved Model.Mixins.

(* ---------- pins: the literals Model/Mixins.v was written against (T0) ---------- *)
Example pin_has_names :
  HAS_NAMES = [("has_iam_mixin", IAM_API); ("has_location_mixin", LOC_API); ("has_operations_mixin", OPS_API)].
Proof. reflexivity. Qed.
Example pin_merge_order :
  MIXIN_ORDER = [("self.has_location_mixin", LOC); ("not self._has_iam_overrides and self.has_iam_mixin", IAM);
                 ("self.has_operations_mixin", OPS)].
Proof. reflexivity. Qed.
(* MIXINS_MAP keys are the MixinMethod names *)
Example pin_mixins_map_names : forallb (fun e => String.eqb (fst e) (fst (snd e))) MIXINS_MAP_SRC = true.
Proof. vm_compute. reflexivity. Qed.

(* ---------- small general lemmas ---------- *)
Lemma mem_In k l : mem_str k l = true <-> In k l.
Proof.
  unfold mem_str. rewrite existsb_exists. split.
  - intros (y & Hy & E). apply String.eqb_eq in E. now subst.
  - intro H. exists k. split; [assumption | apply String.eqb_refl].
Qed.

Lemma filter_none {A} (f : A -> bool) l : (forall x, In x l -> f x = false) -> filter f l = [].
Proof.
  induction l as [|a l IH]; intro H; simpl; [reflexivity|].
  rewrite (H a (or_introl eq_refl)). apply IH. intros x Hx. apply H. now right.
Qed.

Lemma keys_dict_set {A} k (v : A) l x : In x (keys (dict_set k v l)) <-> x = k \/ In x (keys l).
Proof.
  induction l as [|[k' v'] l IH]; simpl.
  - split; [intros [H|[]]; now left | intros [H|[]]; now left].
  - destruct (String.eqb k k') eqn:E; simpl.
    + apply String.eqb_eq in E. subst k'. split; [intros [H|H]; auto | intros [H|[H|H]]; auto].
    + rewrite IH. split; [intros [H|[H|H]]; auto | intros [H|[H|H]]; auto].
Qed.

Lemma keys_dict_update {A} (d new : list (string * A)) x :
  In x (keys (dict_update d new)) <-> In x (keys d) \/ In x (keys new).
Proof.
  unfold dict_update. revert d. induction new as [|[k v] new IH]; intro d; simpl.
  - tauto.
  - rewrite IH. rewrite keys_dict_set. split; [intros [[H|H]|H]; auto | intros [H|[H|H]]; auto].
Qed.

(* every entry of a dict built by dict_set / dict_update is one that was put in *)
Lemma in_dict_set {A} k (v : A) l e : In e (dict_set k v l) -> e = (k, v) \/ In e l.
Proof.
  induction l as [|[k' v'] l IH]; simpl.
  - intros [H|[]]; now left.
  - destruct (String.eqb k k'); simpl.
    + intros [H|H]; [now left | right; now right].
    + intros [H|H]; [right; now left|]. destruct (IH H) as [H1|H1]; [now left | right; now right].
Qed.

Lemma in_dict_update {A} (d new : list (string * A)) e : In e (dict_update d new) -> In e d \/ In e new.
Proof.
  unfold dict_update. revert d. induction new as [|[k v] new IH]; intro d; simpl; [now left|].
  intro H. destruct (IH _ H) as [H1|H1]; [|right; now right].
  destruct (in_dict_set _ _ _ _ H1) as [H2|H2]; [right; left; now symmetry | now left].
Qed.

(* ---------- finite facts about the canonical table (re-evaluated over the regenerated lists) ---------- *)
Definition canon_mod_api_ok (r : crow) : bool :=
  (String.eqb (cr_mod r) LOC && String.eqb (cr_api r) LOC_API) ||
  (String.eqb (cr_mod r) IAM && String.eqb (cr_api r) IAM_API) ||
  (String.eqb (cr_mod r) OPS && String.eqb (cr_api r) OPS_API).
Lemma canon_mod_api_checked : forallb canon_mod_api_ok CANON = true.
Proof. vm_compute. reflexivity. Qed.

Lemma canon_cases r : In r CANON ->
  (cr_mod r = LOC /\ cr_api r = LOC_API) \/ (cr_mod r = IAM /\ cr_api r = IAM_API) \/ (cr_mod r = OPS /\ cr_api r = OPS_API).
Proof.
  intro H. pose proof (proj1 (forallb_forall _ _) canon_mod_api_checked r H) as C.
  unfold canon_mod_api_ok in C.
  apply orb_true_iff in C as [C|C]; [apply orb_true_iff in C as [C|C]|];
    apply andb_true_iff in C as [C1 C2]; apply String.eqb_eq in C1; apply String.eqb_eq in C2; auto.
Qed.

Definition inj_on (key : crow -> string) : bool :=
  forallb (fun r => forallb (fun r' => implb (String.eqb (key r) (key r')) (crow_eqb r r')) CANON) CANON.
Lemma canon_fqn_inj_checked : inj_on fqn = true.
Proof. vm_compute. reflexivity. Qed.
Lemma canon_method_inj_checked : inj_on cr_method = true.
Proof. vm_compute. reflexivity. Qed.

Lemma crow_eqb_eq a b : crow_eqb a b = true -> a = b.
Proof.
  unfold crow_eqb. intro H.
  repeat (apply andb_true_iff in H as [H ?]).
  repeat match goal with E : String.eqb _ _ = true |- _ => apply String.eqb_eq in E end.
  destruct a, b; simpl in *; congruence.
Qed.

Lemma inj_on_spec key : inj_on key = true -> forall r r', In r CANON -> In r' CANON -> key r = key r' -> r = r'.
Proof.
  intros H r r' Hr Hr' E. unfold inj_on in H.
  pose proof (proj1 (forallb_forall _ _) H r Hr) as H1. cbv beta in H1.
  pose proof (proj1 (forallb_forall _ _) H1 r' Hr') as H2. cbv beta in H2.
  rewrite E, String.eqb_refl in H2. now apply crow_eqb_eq.
Qed.
Definition fqn_inj := inj_on_spec fqn canon_fqn_inj_checked.
Definition method_inj := inj_on_spec cr_method canon_method_inj_checked.

Lemma mods_distinct : LOC <> IAM /\ LOC <> OPS /\ IAM <> OPS.
Proof. repeat split; discriminate. Qed.

(* ---------- _get_methods_from_service ---------- *)
Lemma find_row_some m sel r : find_row m sel = Some r -> In r CANON /\ cr_mod r = m /\ fqn r = sel.
Proof.
  unfold find_row, module_rows. intro H. apply find_some in H as [H1 H2].
  apply filter_In in H1 as [H1 H3]. apply String.eqb_eq in H2. apply String.eqb_eq in H3. auto.
Qed.

Lemma find_row_complete r : In r CANON -> find_row (cr_mod r) (fqn r) = Some r.
Proof.
  intro H. unfold find_row.
  destruct (find (fun r0 => String.eqb (fqn r0) (fqn r)) (module_rows (cr_mod r))) as [r'|] eqn:F.
  - pose proof F as F'. apply find_some in F' as [F1 F2]. unfold module_rows in F1. apply filter_In in F1 as [F1 _].
    apply String.eqb_eq in F2. f_equal. now apply fqn_inj.
  - assert (Hin : In r (module_rows (cr_mod r))).
    { unfold module_rows. apply filter_In. split; [assumption | apply String.eqb_refl]. }
    pose proof (find_none _ _ F r Hin) as X. cbv beta in X. rewrite String.eqb_refl in X. discriminate.
Qed.

Lemma keys_fold_gm m rules : forall acc x,
  In x (keys (fold_left (gm_step m) rules acc)) <->
  In x (keys acc) \/ exists rl row, In rl rules /\ find_row m (r_selector rl) = Some row /\ cr_method row = x.
Proof.
  induction rules as [|rl rules IH]; intros acc x; simpl.
  - split; [now left | intros [H|(rl & row & [] & _)]; assumption].
  - rewrite IH. unfold gm_step. destruct (find_row m (r_selector rl)) as [row|] eqn:F.
    + rewrite keys_dict_set. split.
      * intros [[H|H]|(rl' & row' & H1 & H2)].
        -- right. exists rl, row. subst x. auto.
        -- now left.
        -- right. exists rl', row'. tauto.
      * intros [H|(rl' & row' & [H1|H1] & H2 & H3)].
        -- left. now right.
        -- subst rl'. rewrite F in H2. inversion H2. subst row'. left. left. now symmetry.
        -- right. exists rl', row'. auto.
    + split.
      * intros [H|(rl' & row' & H1 & H2)]; [now left | right; exists rl', row'; tauto].
      * intros [H|(rl' & row' & [H1|H1] & H2 & H3)]; [now left | subst rl'; congruence | right; exists rl', row'; auto].
Qed.

Lemma has_rule_spec sel cfg : has_rule sel cfg = true <-> exists rl, In rl (c_rules cfg) /\ r_selector rl = sel.
Proof.
  unfold has_rule. rewrite existsb_exists. split; intros (rl & H1 & H2); exists rl; split; auto.
  - now apply String.eqb_eq. - now apply String.eqb_eq.
Qed.

Lemma keys_get_methods m cfg x :
  In x (keys (get_methods m cfg)) <->
  exists row, In row CANON /\ cr_mod row = m /\ cr_method row = x /\ has_rule (fqn row) cfg = true.
Proof.
  unfold get_methods. rewrite keys_fold_gm. simpl. split.
  - intros [[]|(rl & row & H1 & H2 & H3)]. apply find_row_some in H2 as (H4 & H5 & H6).
    exists row. repeat split; auto. apply has_rule_spec. exists rl. auto.
  - intros (row & H1 & H2 & H3 & H4). right. apply has_rule_spec in H4 as (rl & H5 & H6).
    exists rl, row. repeat split; auto. rewrite H6, <- H2. now apply find_row_complete.
Qed.

(* entries: which rule an entry carries *)
Lemma in_fold_gm m rules : forall acc k row rl,
  In (k, (row, rl)) (fold_left (gm_step m) rules acc) ->
  In (k, (row, rl)) acc \/ (In rl rules /\ find_row m (r_selector rl) = Some row /\ cr_method row = k).
Proof.
  induction rules as [|r0 rules IH]; intros acc k row rl H; simpl in *; [now left|].
  destruct (IH _ _ _ _ H) as [H1|(H1 & H2 & H3)]; [|right; auto].
  unfold gm_step in H1. destruct (find_row m (r_selector r0)) as [row0|] eqn:F; [|now left].
  destruct (in_dict_set _ _ _ _ H1) as [H2|H2]; [|now left].
  inversion H2. subst. right. auto.
Qed.

(* ---------- mixin_api_methods ---------- *)
Lemma names_spec cfg x :
  In x (mixin_names cfg) <->
  (has_listed LOC_API cfg = true /\ In x (keys (get_methods LOC cfg))) \/
  (has_iam_overrides cfg = false /\ has_listed IAM_API cfg = true /\ In x (keys (get_methods IAM cfg))) \/
  (has_listed OPS_API cfg = true /\ In x (keys (get_methods OPS cfg))).
Proof.
  unfold mixin_names, mixin_api_methods.
  destruct (has_listed LOC_API cfg) eqn:EL; destruct (has_iam_overrides cfg) eqn:EO;
    destruct (has_listed IAM_API cfg) eqn:EI; destruct (has_listed OPS_API cfg) eqn:EP; simpl;
    repeat rewrite keys_dict_update; simpl; intuition discriminate.
Qed.

Theorem mixin_selection_spec cfg name :
  In name (mixin_names cfg) <-> exists row, In row CANON /\ cr_method row = name /\ selected cfg row = true.
Proof.
  rewrite names_spec. repeat rewrite keys_get_methods. unfold selected. split.
  - intros [(HL & row & H1 & H2 & H3 & H4)|[(HO & HI & row & H1 & H2 & H3 & H4)|(HP & row & H1 & H2 & H3 & H4)]];
      exists row; (split; [assumption|]); (split; [assumption|]);
      destruct (canon_cases row H1) as [[M A]|[[M A]|[M A]]]; rewrite M in H2; try discriminate;
      rewrite A, H4, M; simpl; try rewrite HL; try rewrite HI; try rewrite HO; try rewrite HP; reflexivity.
  - intros (row & H1 & H2 & H3).
    apply andb_true_iff in H3 as [H3 H5]. apply andb_true_iff in H3 as [H3 H4].
    destruct (canon_cases row H1) as [[M A]|[[M A]|[M A]]]; rewrite A in H3; rewrite M in H5; simpl in H5.
    + left. split; [assumption|]. exists row. auto.
    + right. left. apply negb_true_iff in H5. repeat split; try assumption. exists row. auto.
    + right. right. split; [assumption|]. exists row. auto.
Qed.

(* ---------- _has_iam_overrides ---------- *)
Lemma iam_overrides_spec cfg :
  has_iam_overrides cfg = true <->
  has_listed IAM_API cfg = true /\
  exists svc row, In svc (c_services cfg) /\ In row CANON /\ cr_mod row = IAM /\ In (cr_method row) svc /\
                  has_rule (fqn row) cfg = true.
Proof.
  unfold has_iam_overrides. rewrite andb_true_iff, existsb_exists. split.
  - intros (H1 & svc & H2 & H3). split; [assumption|]. apply existsb_exists in H3 as ([k v] & H4 & H5). simpl in H5.
    apply mem_In in H5.
    assert (Hk : In k (keys (get_methods IAM cfg))) by (apply in_map_iff; exists (k, v); auto).
    apply keys_get_methods in Hk as (row & R1 & R2 & R3 & R4). exists svc, row. subst k. auto.
  - intros (H1 & svc & row & H2 & H3 & H4 & H5 & H6). split; [assumption|]. exists svc. split; [assumption|].
    assert (Hk : In (cr_method row) (keys (get_methods IAM cfg))) by (apply keys_get_methods; exists row; auto).
    apply in_map_iff in Hk as ([k v] & K1 & K2). simpl in K1. apply existsb_exists. exists (k, v). split; [assumption|].
    simpl. apply mem_In. now rewrite K1.
Qed.

Theorem iam_yields_to_api_methods cfg svc row :
  In svc (c_services cfg) -> In row CANON -> cr_mod row = IAM -> In (cr_method row) svc -> has_rule (fqn row) cfg = true ->
  forall row', In row' CANON -> cr_mod row' = IAM -> ~ In (cr_method row') (mixin_names cfg).
Proof.
  intros Hs Hr Hm Hin Hrule row' Hr' Hm' Hx.
  apply mixin_selection_spec in Hx as (r2 & R1 & R2 & R3).
  assert (r2 = row') by (now apply method_inj). subst r2.
  unfold selected in R3. rewrite Hm' in R3. simpl in R3.
  apply andb_true_iff in R3 as [R3 R4]. apply andb_true_iff in R3 as [R3 _]. apply negb_true_iff in R4.
  assert (O : has_iam_overrides cfg = true).
  { apply iam_overrides_spec. split.
    - destruct (canon_cases row' Hr') as [[M A]|[[M A]|[M A]]]; rewrite M in Hm'; try discriminate. now rewrite A in R3.
    - exists svc, row. auto. }
  congruence.
Qed.

Theorem none_when_not_listed cfg row :
  In row CANON -> has_listed (cr_api row) cfg = false -> ~ In (cr_method row) (mixin_names cfg).
Proof.
  intros Hr Hn Hx. apply mixin_selection_spec in Hx as (r2 & R1 & R2 & R3).
  assert (r2 = row) by (now apply method_inj). subst r2.
  unfold selected in R3. rewrite Hn in R3. discriminate.
Qed.

Lemma names_nil_when_none_listed cfg :
  has_listed LOC_API cfg = false -> has_listed IAM_API cfg = false -> has_listed OPS_API cfg = false ->
  mixin_names cfg = [].
Proof.
  intros H1 H2 H3. unfold mixin_names, mixin_api_methods. rewrite H1, H2, H3, andb_false_r. reflexivity.
Qed.

(* no client method comes from a mixin template when none of the three APIs is listed: only the legacy block remains *)
Theorem no_mixin_methods_when_none_listed cfg k :
  has_listed LOC_API cfg = false -> has_listed IAM_API cfg = false -> has_listed OPS_API cfg = false ->
  client_methods k cfg = legacy_methods k cfg /\ mixin_table_keys cfg = [] /\ mixin_http_options cfg = [].
Proof.
  intros H1 H2 H3. pose proof (names_nil_when_none_listed cfg H1 H2 H3) as N.
  assert (M : mixin_api_methods cfg = []).
  { unfold mixin_names, keys in N. destruct (mixin_api_methods cfg); [reflexivity | discriminate]. }
  repeat split.
  - unfold client_methods, client_mixin_methods. rewrite filter_none; [reflexivity|].
    intros x _. unfold tmpl_on. rewrite N. simpl. apply andb_false_r.
  - unfold mixin_table_keys. now rewrite N.
  - unfold mixin_http_options. now rewrite M.
Qed.

(* ---------- table lookups ---------- *)
Lemma in_mixin_client cfg m : In m (client_mixin_methods cfg) ->
  exists t, In t CLIENT_TMPL /\ tmpl_on cfg (t_name t) (t_group t) = true /\ m_name m = snake (t_name t) /\
            m_lookup m = Some (snake (t_name t)) /\ m_route m = t_route t.
Proof.
  unfold client_mixin_methods. intro H. apply in_map_iff in H as (t & E & H). apply filter_In in H as [H1 H2].
  exists t. subst m. simpl. auto.
Qed.

(* every key a mixin or legacy-IAM client method looks up in _wrapped_methods is a key of the table of its transport.
   (Before /repo bb707ed the legacy IAM methods of the asyncio client refuted this: DESIGN section 9 no. 3.) *)
Theorem mixin_lookup_total cfg k own m key :
  In m (client_methods k cfg) -> m_lookup m = Some key -> In key (table_keys cfg own).
Proof.
  intros Hin Hl. unfold client_methods in Hin. apply in_app_or in Hin as [Hin|Hin].
  - apply in_mixin_client in Hin as (t & T1 & T2 & T3 & T4 & T5). rewrite T4 in Hl. inversion Hl. subst key.
    unfold table_keys, mixin_table_keys. apply in_or_app. right. apply in_map.
    unfold tmpl_on in T2. apply andb_true_iff in T2 as [_ T2]. now apply mem_In.
  - unfold legacy_methods in Hin. destruct (c_add_iam cfg); [|contradiction].
    apply in_map_iff in Hin as (n & E & _). subst m. destruct k; discriminate.
Qed.

(* the legacy methods never index the table: they wrap the transport property, which exists on the gRPC transports *)
Theorem legacy_methods_wrap_existing_property cfg k m :
  In m (legacy_methods k cfg) -> m_lookup m = None /\ In (m_name m) (grpc_props cfg).
Proof.
  unfold legacy_methods. destruct (c_add_iam cfg) eqn:A; [|contradiction]. intro H.
  apply in_map_iff in H as (n & E & Hn). subst m. simpl. split; [destruct k; reflexivity|].
  unfold grpc_props, grpc_stubs. rewrite A. apply in_map_iff.
  destruct Hn as [<-|[<-|[<-|[]]]];
    [exists (mkS "SetIamPolicy" GIam "/google.iam.v1.IAMPolicy/SetIamPolicy" "google.iam.v1.SetIamPolicyRequest" (Some "google.iam.v1.Policy"))
    |exists (mkS "GetIamPolicy" GIam "/google.iam.v1.IAMPolicy/GetIamPolicy" "google.iam.v1.GetIamPolicyRequest" (Some "google.iam.v1.Policy"))
    |exists (mkS "TestIamPermissions" GIam "/google.iam.v1.IAMPolicy/TestIamPermissions" "google.iam.v1.TestIamPermissionsRequest" (Some "google.iam.v1.TestIamPermissionsResponse"))];
    (split; [reflexivity|]); apply in_or_app; right; vm_compute; tauto.
Qed.

(* the former witness of DESIGN section 9 no. 3 (add-iam-methods without the IAM mixin, asyncio client): no lookup left *)
Definition legacy_cfg : config := mkCfg [] [] [["GetWidget"]] true.
Example legacy_cfg_no_lookup :
  map (fun m => (m_name m, m_lookup m)) (client_methods Async legacy_cfg) =
  [("set_iam_policy", None); ("get_iam_policy", None); ("test_iam_permissions", None)] /\
  grpc_props legacy_cfg = ["set_iam_policy"; "get_iam_policy"; "test_iam_permissions"].
Proof. vm_compute. split; reflexivity. Qed.

(* ---------- the transport can be constructed: every mixin key of the table has a property on the gRPC transports ---------- *)
Definition group_of_mod (m : string) : option group :=
  if String.eqb m LOC then Some GLoc else if String.eqb m IAM then Some GIam else if String.eqb m OPS then Some GOps else None.
Definition group_eqb (a b : group) : bool :=
  match a, b with GOps, GOps | GIam, GIam | GLoc, GLoc => true | _, _ => false end.
Definition stub_covers (r : crow) : bool :=
  existsb (fun s => String.eqb (s_name s) (cr_method r) && option_eqb group_eqb (Some (s_group s)) (group_of_mod (cr_mod r))
                    && (if group_eqb (s_group s) GIam then mem_str (s_name s) LEGACY else true)) STUB_TMPL.
Lemma stub_covers_checked : forallb stub_covers CANON = true.
Proof. vm_compute. reflexivity. Qed.
Definition client_covers (r : crow) : bool :=
  existsb (fun t => String.eqb (t_name t) (cr_method r) && option_eqb group_eqb (Some (t_group t)) (group_of_mod (cr_mod r))
                    && String.eqb (t_route t) (cr_route r)) CLIENT_TMPL.
Lemma client_covers_checked : forallb client_covers CANON = true.
Proof. vm_compute. reflexivity. Qed.

Lemma group_on_of_selected cfg row g :
  In row CANON -> selected cfg row = true -> group_of_mod (cr_mod row) = Some g ->
  (g = GIam -> c_add_iam cfg = false) -> group_on g cfg = true.
Proof.
  intros Hr Hs Hg Hi. unfold selected in Hs.
  apply andb_true_iff in Hs as [Hs _]. apply andb_true_iff in Hs as [Hs _].
  destruct (canon_cases row Hr) as [[M A]|[[M A]|[M A]]]; rewrite M in Hg; vm_compute in Hg; inversion Hg; subst g;
    rewrite A in Hs; simpl; try assumption.
  rewrite (Hi eq_refl). simpl. assumption.
Qed.

Theorem table_constructible cfg name : In name (mixin_table_keys cfg) -> In name (grpc_props cfg).
Proof.
  unfold mixin_table_keys. intro H. apply in_map_iff in H as (n & E & H). subst name.
  pose proof H as Hn. apply mixin_selection_spec in H as (row & R1 & R2 & R3). subst n.
  pose proof (proj1 (forallb_forall _ _) stub_covers_checked row R1) as C. unfold stub_covers in C.
  apply existsb_exists in C as (s & S1 & S2).
  apply andb_true_iff in S2 as [S2 S4]. apply andb_true_iff in S2 as [S2 S3]. apply String.eqb_eq in S2.
  unfold grpc_props, grpc_stubs. rewrite <- S2. apply in_map_iff. exists s. split; [reflexivity|]. apply in_or_app.
  destruct (group_of_mod (cr_mod row)) as [g|] eqn:G; [|discriminate]. simpl in S3.
  assert (g = s_group s) by (destruct (s_group s), g; simpl in S3; congruence). subst g.
  destruct (s_group s) eqn:SG; simpl in S4.
  - left. apply filter_In. split; [assumption|]. unfold tmpl_on. rewrite SG, S2.
    rewrite (group_on_of_selected cfg row GOps R1 R3 G) by discriminate. simpl. now apply mem_In.
  - destruct (c_add_iam cfg) eqn:AI.
    + right. unfold LEGACY_STUBS. apply filter_In. auto.
    + left. apply filter_In. split; [assumption|]. unfold tmpl_on. rewrite SG, S2.
      rewrite (group_on_of_selected cfg row GIam R1 R3 G) by (intros _; exact AI). simpl. now apply mem_In.
  - left. apply filter_In. split; [assumption|]. unfold tmpl_on. rewrite SG, S2.
    rewrite (group_on_of_selected cfg row GLoc R1 R3 G) by discriminate. simpl. now apply mem_In.
Qed.

(* ---------- canonical paths and types ---------- *)
Lemma stub_path_req_checked : forallb stub_path_req_ok STUB_TMPL = true.
Proof. vm_compute. reflexivity. Qed.

Lemma stub_row_some s r : stub_row s = Some r -> In r CANON /\ cr_method r = s_name s.
Proof. unfold stub_row. intro H. apply find_some in H as [H1 H2]. apply String.eqb_eq in H2. auto. Qed.

Theorem canonical_paths_and_request_types s :
  In s STUB_TMPL -> exists r, In r CANON /\ cr_method r = s_name s /\ s_path s = grpc_path r /\ s_req s = cr_in r.
Proof.
  intro H. pose proof (proj1 (forallb_forall _ _) stub_path_req_checked s H) as C. unfold stub_path_req_ok in C.
  destruct (stub_row s) as [r|] eqn:R; [|discriminate]. apply stub_row_some in R as [R1 R2].
  apply andb_true_iff in C as [C1 C2]. apply String.eqb_eq in C1. apply String.eqb_eq in C2. exists r. auto.
Qed.

Lemma grpc_stubs_incl cfg s : In s (grpc_stubs cfg) -> In s STUB_TMPL.
Proof.
  unfold grpc_stubs, LEGACY_STUBS. intro H. apply in_app_or in H as [H|H].
  - now apply filter_In in H as [H _].
  - destruct (c_add_iam cfg); [|contradiction]. now apply filter_In in H as [H _].
Qed.

(* for every configuration: each stub property of the emitted gRPC transports calls the canonical path with the canonical request type *)
Corollary emitted_stubs_canonical cfg s :
  In s (grpc_stubs cfg) -> exists r, In r CANON /\ cr_method r = s_name s /\ s_path s = grpc_path r /\ s_req s = cr_in r.
Proof. intro H. apply canonical_paths_and_request_types. now apply grpc_stubs_incl in H. Qed.

Lemma stub_resp_checked : forallb stub_resp_ok STUB_TMPL = true.
Proof. vm_compute. reflexivity. Qed.

(* every stub deserializes the canonical response type; None exactly for google.protobuf.Empty
   (before /repo e72fa5d the WaitOperation stub had no deserializer and refuted this) *)
Theorem canonical_response_types s :
  In s STUB_TMPL -> exists r, In r CANON /\ cr_method r = s_name s /\ resp_canonical s r = true.
Proof.
  intros H. pose proof (proj1 (forallb_forall _ _) stub_resp_checked s H) as C.
  unfold stub_resp_ok in C. destruct (stub_row s) as [r|] eqn:R; [|discriminate].
  apply stub_row_some in R as [R1 R2]. exists r. auto.
Qed.

Corollary emitted_stubs_canonical_response cfg s :
  In s (grpc_stubs cfg) -> exists r, In r CANON /\ cr_method r = s_name s /\ resp_canonical s r = true.
Proof. intro H. apply canonical_response_types. now apply grpc_stubs_incl in H. Qed.

(* REST: whichever binding of the rule transcode matches, the request carries a body exactly when that binding has one
   (before /repo 869bd41 the FIRST binding of the rule decided) *)
Theorem rest_body_follows_matched_binding opts o :
  In o opts -> rest_sends_body opts o = has_body o.
Proof.
  intro H. unfold rest_sends_body, rest_body_defined. destruct (has_body o) eqn:B; [|apply andb_false_r].
  rewrite andb_true_r. apply existsb_exists. exists o. auto.
Qed.

(* a dict request is coerced to the canonical request type of the method it is passed to — every mixin and legacy method *)
Definition coerce_ok (n : string) : bool :=
  match coerce_of n, find (fun r => String.eqb (cr_method r) n) CANON with
  | Some ty, Some r => String.eqb ty (cr_in r)
  | _, _ => false
  end.
Lemma coerce_checked : forallb coerce_ok (map t_name CLIENT_TMPL ++ LEGACY) = true.
Proof. vm_compute. reflexivity. Qed.

Lemma coerce_ok_spec n : coerce_ok n = true -> exists r, In r CANON /\ cr_method r = n /\ coerce_of n = Some (cr_in r).
Proof.
  unfold coerce_ok. destruct (coerce_of n) as [ty|]; [|discriminate].
  destruct (find (fun r => String.eqb (cr_method r) n) CANON) as [r|] eqn:F; [|discriminate].
  intro E. apply String.eqb_eq in E. apply find_some in F as [F1 F2]. apply String.eqb_eq in F2. exists r. subst. auto.
Qed.

Theorem dict_requests_coerced_to_canonical_type cfg k n o :
  In (n, o) (client_coercions k cfg) -> exists r, In r CANON /\ n = snake (cr_method r) /\ o = Some (cr_in r).
Proof.
  unfold client_coercions. intro H. apply in_app_or in H as [H|H].
  - apply in_map_iff in H as (t & E & Ht). apply filter_In in Ht as [Ht _]. injection E as E1 E2.
    assert (C : coerce_ok (t_name t) = true).
    { apply (proj1 (forallb_forall _ _) coerce_checked). apply in_or_app. left. now apply in_map. }
    apply coerce_ok_spec in C as (r & R1 & R2 & R3). exists r. subst n o. rewrite R2. auto.
  - destruct (c_add_iam cfg); [|contradiction]. apply in_map_iff in H as (nm & E & Hn). injection E as E1 E2.
    assert (C : coerce_ok nm = true).
    { apply (proj1 (forallb_forall _ _) coerce_checked). apply in_or_app. now right. }
    apply coerce_ok_spec in C as (r & R1 & R2 & R3). exists r. subst n o. rewrite R2. auto.
Qed.

(* client templates: the routing header names the resource-name field of the canonical request *)
Definition client_route_ok (t : tmethod) : bool :=
  existsb (fun r => String.eqb (cr_method r) (t_name t) && String.eqb (cr_route r) (t_route t)) CANON.
Lemma client_route_checked : forallb client_route_ok CLIENT_TMPL = true.
Proof. vm_compute. reflexivity. Qed.
Theorem canonical_routing_fields t :
  In t CLIENT_TMPL -> exists r, In r CANON /\ cr_method r = t_name t /\ cr_route r = t_route t.
Proof.
  intro H. pose proof (proj1 (forallb_forall _ _) client_route_checked t H) as C. unfold client_route_ok in C.
  apply existsb_exists in C as (r & R1 & R2). apply andb_true_iff in R2 as [R2 R3].
  apply String.eqb_eq in R2. apply String.eqb_eq in R3. exists r. auto.
Qed.

(* MIXINS_MAP (REST request / response classes) resolves to the canonical types; None exactly for google.protobuf.Empty *)
Definition sig_ok (r : crow) : bool :=
  match assoc (cr_method r) MIXINS_MAP_FULL with
  | Some (i, o) => String.eqb i (cr_in r) && (if String.eqb (cr_out r) EMPTY then String.eqb o "None" else String.eqb o (cr_out r))
  | None => false
  end.
Lemma sig_checked : forallb sig_ok CANON = true.
Proof. vm_compute. reflexivity. Qed.
Lemma in_map_pair {A} (g : string -> A) l name sg :
  In (name, sg) (map (fun n => (n, g n)) l) -> In name l /\ sg = g name.
Proof. intro H. apply in_map_iff in H as (n & E & H). injection E as E1 E2. subst. auto. Qed.

Theorem canonical_signatures cfg name sg :
  In (name, sg) (mixin_signatures cfg) ->
  exists r i o, In r CANON /\ cr_method r = name /\ sg = Some (i, o) /\ i = cr_in r /\
                (cr_out r = EMPTY -> o = "None") /\ (cr_out r <> EMPTY -> o = cr_out r).
Proof.
  unfold mixin_signatures. intro H. apply in_map_pair in H as [H E2].
  apply mixin_selection_spec in H as (r & R1 & R2 & _).
  pose proof (proj1 (forallb_forall _ _) sig_checked r R1) as C. unfold sig_ok in C. rewrite R2 in C.
  destruct (assoc name MIXINS_MAP_FULL) as [[i o]|]; [|discriminate].
  apply andb_true_iff in C as [C1 C2]. apply String.eqb_eq in C1.
  exists r, i, o. split; [exact R1|]. split; [exact R2|]. split; [exact E2|]. split; [exact C1|]. split.
  - intro E. rewrite E, String.eqb_refl in C2. now apply String.eqb_eq.
  - intro E. apply String.eqb_neq in E. rewrite E in C2. now apply String.eqb_eq.
Qed.

(* ---------- http options: they are the bindings of a rule of the YAML for that method ---------- *)
Theorem http_options_come_from_a_rule_partial cfg name opts :
  In (name, opts) (mixin_http_options cfg) ->
  exists row rl, In row CANON /\ cr_method row = name /\ In rl (c_rules cfg) /\ r_selector rl = fqn row /\
                 opts = rule_options rl.
Proof.
  unfold mixin_http_options. intro H. apply in_map_iff in H as ([k [row rl]] & E & H). simpl in E. inversion E. subst k opts.
  assert (G : exists m, In (name, (row, rl)) (get_methods m cfg)).
  { unfold mixin_api_methods in H.
    destruct (has_listed LOC_API cfg); destruct (negb (has_iam_overrides cfg) && has_listed IAM_API cfg);
      destruct (has_listed OPS_API cfg);
      repeat match goal with
             | X : In _ (dict_update _ _) |- _ => apply in_dict_update in X as [X|X]
             | X : In _ [] |- _ => destruct X
             end; eauto. }
  destruct G as (m & G). unfold get_methods in G. apply in_fold_gm in G as [[]|(G1 & G2 & G3)].
  apply find_row_some in G2 as (G4 & G5 & G6). exists row, rl. auto.
Qed.

(* a binding with one of the five verbs, a non-empty uri and no reserved word is used as written *)
Theorem parse_binding_as_written v u b :
  mem_str v ["get"; "put"; "post"; "delete"; "patch"] = true -> u <> "" -> convert_uri u = u -> body_attr b = b ->
  parse_binding (mkB v u b) = Some (mkH v u (if is_empty b then None else Some b)).
Proof.
  intros Hv Hu Hc Hb. unfold parse_binding. simpl.
  assert (E1 : is_empty v = false).
  { destruct v; [vm_compute in Hv; discriminate | reflexivity]. }
  assert (E2 : String.eqb v "custom" = false).
  { destruct (String.eqb v "custom") eqn:E; [|reflexivity]. apply String.eqb_eq in E. subst v. vm_compute in Hv. discriminate. }
  rewrite E1, E2. simpl. destruct u; [contradiction|]. simpl. rewrite Hc, Hb. reflexivity.
Qed.

(* the resource-name fields are not reserved words, so a variable naming one is never rewritten *)
Lemma routes_not_reserved : forallb (fun r => String.eqb (fix_path (cr_route r)) (cr_route r)) CANON = true.
Proof. vm_compute. reflexivity. Qed.

(* ---------- non-vacuity: a configuration with all three APIs, partial rules, an additional binding ---------- *)
Definition ex_cfg : config :=
  mkCfg [OPS_API; IAM_API; LOC_API]
        [ mkRule "google.longrunning.Operations.GetOperation" (mkB "get" "/v1/{name=projects/*/operations/*}" "") [];
          mkRule "google.iam.v1.IAMPolicy.SetIamPolicy" (mkB "post" "/v1/{resource=projects/*}:setIamPolicy" "*")
                 [mkB "post" "/v1/{resource=folders/*}:setIamPolicy" "*"];
          mkRule "google.cloud.location.Locations.ListLocations" (mkB "get" "/v1/{name=projects/*}/locations" "") [];
          mkRule "google.longrunning.Operations.GetOperation" (mkB "get" "/v2/{name=operations/**}" "") [] ]
        [["GetWidget"]] false.
Example ex_cfg_selection :
  mixin_names ex_cfg = ["ListLocations"; "SetIamPolicy"; "GetOperation"] /\
  assoc "GetOperation" (mixin_http_options ex_cfg) = Some [mkH "get" "/v2/{name=operations/**}" None] /\
  map m_name (client_methods Async ex_cfg) = ["get_operation"; "set_iam_policy"; "list_locations"] /\
  mixin_table_keys ex_cfg = ["list_locations"; "set_iam_policy"; "get_operation"].
Proof. vm_compute. repeat split. Qed.
(* a rule whose first binding has no body and whose additional binding has one (the former witness of the REST finding) *)
Example ex_mixed_bindings :
  let opts := rule_options (mkRule "google.iam.v1.IAMPolicy.GetIamPolicy" (mkB "get" "/v1/{resource=a/*}:get" "") [mkB "post" "/v1/{resource=b/*}:get" "*"]) in
  rest_body_defined opts = true /\ map (rest_sends_body opts) opts = [false; true].
Proof. vm_compute. split; reflexivity. Qed.

(* the API's own SetIamPolicy makes all three IAM mixins yield *)
Definition ex_override : config :=
  mkCfg [IAM_API] [ mkRule "google.iam.v1.IAMPolicy.SetIamPolicy" (mkB "post" "/v1/{resource=x/*}:set" "*") [];
                    mkRule "google.iam.v1.IAMPolicy.GetIamPolicy" (mkB "get" "/v1/{resource=x/*}:get" "") [] ]
        [["GetWidget"; "SetIamPolicy"]] false.
Example ex_override_yields : has_iam_overrides ex_override = true /\ mixin_names ex_override = [].
Proof. vm_compute. split; reflexivity. Qed.

(* rules for every method but no API listed: nothing is selected; one usable binding parsed as written *)
Definition ex_unlisted : config :=
  mkCfg ["google.example.Other"] (c_rules ex_cfg) [["GetWidget"]] false.
Example ex_unlisted_none :
  has_listed LOC_API ex_unlisted = false /\ has_listed IAM_API ex_unlisted = false /\ has_listed OPS_API ex_unlisted = false /\
  mixin_names ex_unlisted = [] /\ client_methods Async ex_unlisted = [].
Proof. vm_compute. repeat split. Qed.
Example ex_parse_binding :
  mem_str "post" ["get"; "put"; "post"; "delete"; "patch"] = true /\ convert_uri "/v1/{resource=projects/*}:setIamPolicy" = "/v1/{resource=projects/*}:setIamPolicy" /\
  body_attr "*" = "*" /\ convert_uri "/v1/{class=x/*}" = "/v1/{class_=x/*}".
Proof. vm_compute. repeat split. Qed.
(* hypotheses of the lookup and stub theorems hold of ex_cfg: it has client methods with a table key and stub properties *)
Example ex_cfg_surface :
  c_add_iam ex_cfg = false /\ In (mkM "get_operation" (Some "get_operation") "name" false) (client_methods Sync ex_cfg) /\
  map (fun s => s_name s) (grpc_stubs ex_cfg) = ["GetOperation"; "ListLocations"; "SetIamPolicy"] /\
  In ("SetIamPolicy", Some ("google.iam.v1.SetIamPolicyRequest", "google.iam.v1.Policy")) (mixin_signatures ex_cfg).
Proof. vm_compute. repeat split; auto. Qed.
