(* Proofs/Files.v — C11: pins, option parsing, de-duplication, finite facts about the regenerated template lists
   (decided on the symbolic runs of Proofs/FilesSym.v) and their lifting to every naming / service / proto. *)
From Coq Require Import Permutation.
From GV Require Import Base.Str Model.Case Gen.C11Gen Model.Files Proofs.FilesSym.

(* ------------------------------------------------------------------ T0 pins: the literals the model was written against *)
Lemma pins_generator :
  get_filename_consts = [".j2"; "%namespace"; "%name_%version"; "%version"; "%name"; "%sub"; "/"; "service"; "%service";
                         "service"; "proto"; "%proto"; "proto"; "/+"; "/"]
  /\ render_template_consts = ["gapic_metadata.json.j2"; "%namespace/%name/"; "%service"; "%proto"; "%sub"; "%proto"; "%service";
                               "transport"; "async_client"; "grpc"; "rest_asyncio"; "rest_base"; "rest"]
  /\ desired_transport_consts = ["__init__"; "base"; "README"]
  /\ get_file_consts = ["py.typed"; "__init__.py"]
  /\ get_response_consts = ["/"; "_"; "__init__.py.j2"]
  /\ sample_template_name = "sample.py.j2".
Proof. repeat split. Qed.

Lemma pins_naming_options :
  naming_build_consts = ["Naming"; "."; ", "; "^((?P<namespace>[a-z0-9_.]+)\.)?(?P<name>[a-z0-9_]+)";
                         "\.(?P<version>v[0-9]+(p[0-9]+)?((alpha|beta)[0-9]*)?)"; "namespace"; "namespace"; ""; "name"; "namespace";
                         "."; "name"; "version"; ""; "All protos must have the same proto package up to and including the version.";
                         " "; "_"; " "; " "; "."; "."]
  /\ options_build_consts = ["Options"; ","; "true"; "="; "="; "DEFAULT"; "templates"; ".."; "templates"; "retry-config";
                             "service-yaml"; "type"; "samples"; "autogen-snippets"; "True"; "True"; "true"; "T"; "t"; "TRUE";
                             "old-naming"; "proto-plus-deps"; ""; "+"; "name"; ""; "namespace"; "warehouse-package-name"; "";
                             "lazy-import"; "add-iam-methods"; "metadata"; "transport"; "grpc"; "+"; "rest-numeric-enums";
                             "Unrecognized option: `python-gapic-"; "`."]
  /\ gapic_prefix = "python-gapic-"
  /\ invalid_module_extra = ["metadata"; "request"; "retry"; "timeout"]
  /\ file_to_generate_exprs = ["fd.package.startswith(package)"; "proto.file_to_generate"]
  /\ forallb (fun k => negb (starts_with gapic_prefix k)) opt_flags = true
  /\ forallb (fun k => mem_str k consumed_keys) opt_flags = true
  /\ forallb (fun k => negb (ends_with "_" k)) invalid_module_names = true.
Proof. repeat split. Qed.

(* ------------------------------------------------------------------ de-duplication: response names are unique *)
Lemma mem_str_cons x y l : mem_str x (y :: l) = String.eqb x y || mem_str x l.
Proof. reflexivity. Qed.
Lemma dedup_acc_spec l : forall seen,
  NoDup (dedup_acc seen l) /\
  (forall x, In x (dedup_acc seen l) <-> In x l /\ mem_str x seen = false).
Proof.
  induction l as [|y l IH]; intros seen; cbn [dedup_acc].
  - split; [constructor | intros x; simpl; tauto].
  - destruct (mem_str y seen) eqn:Ey.
    + destruct (IH seen) as [ND Hin]. split; [assumption|].
      intros x. rewrite Hin. simpl. split; [tauto|]. intros [[->|H] Hs]; [congruence|tauto].
    + destruct (IH (y :: seen)) as [ND Hin]. split.
      * constructor; [|assumption]. rewrite Hin. intros [_ H]. rewrite mem_str_cons, String.eqb_refl in H. discriminate.
      * intros x. cbn [In]. rewrite Hin, mem_str_cons. split.
        -- intros [<-|[H1 H2]]; [split; [now left|exact Ey]|]. apply orb_false_iff in H2 as [_ H2]. tauto.
        -- intros [[<-|H1] H2]; [now left|]. destruct (String.eqb x y) eqn:E.
           ++ apply String.eqb_eq in E. subst. now left.
           ++ right. split; [assumption|]. exact H2.
Qed.
Lemma dedup_nodup l : NoDup (dedup l).
Proof. apply dedup_acc_spec. Qed.
Lemma dedup_in l x : In x (dedup l) <-> In x l.
Proof. unfold dedup. rewrite (proj2 (dedup_acc_spec l [])). simpl. tauto. Qed.

(* names_unique: whatever the templates, the API and the options, the candidate names of the response are pairwise distinct *)
Lemma names_unique templates a o names : candidates templates a o = Ok names -> NoDup names.
Proof.
  unfold candidates, bind. destruct (instances templates a o); [|discriminate].
  intro H. inversion H. apply dedup_nodup.
Qed.
(* and so are the names of any response that passes the T1 comparison with them *)
Lemma filter_nodup {A} (f : A -> bool) l : NoDup l -> NoDup (filter f l).
Proof.
  induction l as [|x l IH]; intro H; simpl; [constructor|]. inversion H; subst.
  destruct (f x); [constructor; [rewrite filter_In; tauto | auto] | auto].
Qed.
Lemma list_eqb_string_eq a : forall b, list_eqb String.eqb a b = true -> a = b.
Proof.
  induction a as [|x a IH]; intros [|y b] H; simpl in H; try discriminate; [reflexivity|].
  apply andb_true_iff in H as [H1 H2]. apply String.eqb_eq in H1. apply IH in H2. now subst.
Qed.
Lemma response_unique cands actual : NoDup cands -> response_ok cands actual = true -> NoDup actual.
Proof.
  intros ND H. unfold response_ok in H. apply andb_true_iff in H as [H _].
  apply list_eqb_string_eq in H. rewrite H. now apply filter_nodup.
Qed.

(* ------------------------------------------------------------------ Options.build: unknown options are ignored *)
Lemma bind_ok {A B} (r : res A) (f : A -> res B) b : bind r f = Ok b -> exists a, r = Ok a /\ f a = Ok b.
Proof. destruct r; simpl; [eauto|discriminate]. Qed.

Definition unknown_option (raw : string) : bool :=
  match split_on "="%char (strip_ws raw) with
  | [k] | [k; _] => negb (mem_str k opt_flags) && negb (starts_with gapic_prefix k)
  | _ => false
  end.
Lemma unknown_parse raw : unknown_option raw = true -> parse_opt raw = Ok [].
Proof.
  unfold unknown_option, parse_opt.
  destruct (split_on "="%char (strip_ws raw)) as [|k [|v [|w l]]]; try discriminate; intro H;
    apply andb_true_iff in H as [H1 H2]; apply negb_true_iff in H1, H2; rewrite H1;
    unfold starts_with in H2; destruct (strip_prefix gapic_prefix k); try discriminate; reflexivity.
Qed.
Lemma parse_opts_app l1 : forall l2,
  parse_opts (l1 ++ l2) = bind (parse_opts l1) (fun a => bind (parse_opts l2) (fun b => Ok (a ++ b)%list)).
Proof.
  induction l1 as [|x l1 IH]; intros l2; simpl.
  - destruct (parse_opts l2); reflexivity.
  - destruct (parse_opt x) as [a|e]; simpl; [|reflexivity]. rewrite IH.
    destruct (parse_opts l1) as [b|e]; simpl; [|reflexivity].
    destruct (parse_opts l2) as [c|e]; simpl; [|reflexivity]. now rewrite app_assoc.
Qed.
Lemma parse_opts_ignore l1 raw l2 : unknown_option raw = true -> parse_opts (l1 ++ raw :: l2) = parse_opts (l1 ++ l2).
Proof.
  intro H. rewrite !parse_opts_app. simpl. rewrite (unknown_parse raw H). simpl.
  destruct (parse_opts l1); simpl; [|reflexivity]. destruct (parse_opts l2); reflexivity.
Qed.

(* split_on c (sjoin c l) = l for pieces that do not contain c *)
Lemma srev_acc_app s : forall acc, srev_acc s acc = srev_acc s "" ++ acc.
Proof.
  induction s as [|c s IH]; intros acc; simpl; [reflexivity|].
  rewrite (IH (String c acc)), (IH (String c "")). now rewrite sapp_assoc.
Qed.
Lemma srev_cons c s : srev (String c s) = srev s ++ String c "".
Proof. unfold srev. simpl. apply srev_acc_app. Qed.
Lemma split_acc_piece c x : contains c x = false -> forall acc rest,
  split_on_acc c (x ++ String c rest) acc = (srev acc ++ x) :: split_on_acc c rest ""
  /\ split_on_acc c x acc = [srev acc ++ x].
Proof.
  induction x as [|a x IH]; intros H acc rest.
  - simpl. rewrite Ascii.eqb_refl. now rewrite sapp_nil_r.
  - simpl in H. apply orb_false_iff in H as [Ha Hx]. simpl. rewrite Ha.
    destruct (IH Hx (String a acc) rest) as [E1 E2]. rewrite E1, E2, srev_cons, !sapp_assoc. simpl. split; reflexivity.
Qed.
Lemma split_join c l : l <> [] -> Forall (fun x => contains c x = false) l -> split_on c (sjoin (String c "") l) = l.
Proof.
  unfold split_on. induction l as [|x l IH]; intros Hne Hall; [congruence|].
  inversion Hall as [|? ? Hx Hl]; subst. destruct l as [|y l].
  - simpl. now rewrite (proj2 (split_acc_piece c x Hx "" "")).
  - change (sjoin (String c "") (x :: y :: l)) with (x ++ String c "" ++ sjoin (String c "") (y :: l)).
    simpl append. rewrite (proj1 (split_acc_piece c x Hx "" _)). simpl. f_equal. apply IH; [discriminate|assumption].
Qed.

(* unknown_options_ignored, on the option string itself: removing an unknown option (one with at most one "=" whose key is
   neither a flag of the generator nor prefixed python-gapic-) anywhere in the comma separated list changes nothing *)
Lemma unknown_options_ignored l1 raw l2 :
  Forall (fun x => contains ","%char x = false) (l1 ++ raw :: l2) -> (l1 ++ l2)%list <> [] -> unknown_option raw = true ->
  options_build (sjoin "," (l1 ++ raw :: l2)) = options_build (sjoin "," (l1 ++ l2)).
Proof.
  intros Hc Hne Hu. unfold options_build.
  rewrite (split_join ","%char (l1 ++ raw :: l2)); [|destruct l1; discriminate|assumption].
  rewrite (split_join ","%char (l1 ++ l2)); [|assumption|].
  - now rewrite parse_opts_ignore.
  - apply Forall_app in Hc as [H1 H2]. inversion H2; subst. apply Forall_app. split; assumption.
Qed.
Lemma unknown_option_alone raw : contains ","%char raw = false -> unknown_option raw = true -> options_build raw = options_build "".
Proof.
  intros Hc Hu. unfold options_build. unfold split_on.
  rewrite (proj2 (split_acc_piece ","%char raw Hc "" "")). simpl. now rewrite (unknown_parse raw Hu).
Qed.

(* the statement is false without the restriction on "=": an option that is not meant for this generator at all makes
   Options.build fail (DESIGN section 9 no. 19) *)
Lemma unknown_option_refuted :
  exists raw k v, split_on "="%char raw = k :: v /\ mem_str k opt_flags = false /\ starts_with gapic_prefix k = false /\
                  options_build raw = Err EBadOption /\ options_build ("metadata," ++ raw) = Err EBadOption.
Proof. exists "foo=a=b", "foo", ["a"; "b"]. vm_compute. repeat split. Qed.

Example unknown_option_examples :
  unknown_option "foo=bar" = true /\ unknown_option " Mgoogle/api/x.proto=pkg " = true /\ unknown_option "" = true
  /\ unknown_option "metadata" = false /\ unknown_option "python-gapic-name=x" = false /\ unknown_option "foo=a=b" = false
  /\ options_build "transport=rest,foo=bar,metadata" = options_build "transport=rest,metadata".
Proof. vm_compute. repeat split. Qed.

(* ------------------------------------------------------------------ finite facts about the template lists *)
Definition tpl_lists : list (list string) := [client_templates default_templates; client_templates ads_templates].
Definition in_lists (tpl : string) : Prop := In tpl (client_templates default_templates) \/ In tpl (client_templates ads_templates).

(* private templates never reach rendering, whatever the API *)
Lemma private_skipped templates tpl : In tpl (client_templates templates) -> is_private tpl = false /\ is_sample_template tpl = false.
Proof.
  unfold client_templates. rewrite filter_In. intros [_ H]. apply andb_true_iff in H as [H1 H2].
  apply negb_true_iff in H1, H2. tauto.
Qed.

Definition tpl_norm_ok (tpl : string) : bool :=
  forallb (fun f => match sym_filename f tpl with Some r => sym_norm NStart r | None => false end) all_flags.
Lemma templates_norm_ok : forallb (forallb tpl_norm_ok) tpl_lists = true.
Proof. vm_compute. reflexivity. Qed.

Lemma in_lists_forallb (P : string -> bool) : forallb (forallb P) tpl_lists = true -> forall tpl, in_lists tpl -> P tpl = true.
Proof.
  intro H.
  change (forallb P (client_templates default_templates) && (forallb P (client_templates ads_templates) && true) = true) in H.
  apply andb_true_iff in H as [H1 H2]. apply andb_true_iff in H2 as [H2 _].
  intros tpl [Hin|Hin]; [eapply forallb_forall in H1 | eapply forallb_forall in H2]; eauto.
Qed.

(* names_relative_normalised for one rendering: every template of either tree, every valuation of words *)
Lemma get_filename_normalised tpl sg f :
  in_lists tpl -> val_ok sg f -> normalised (get_filename tpl (ctx_of_val sg f)) = true.
Proof.
  intros Hin Hv. pose proof (in_lists_forallb _ templates_norm_ok tpl Hin) as H.
  unfold tpl_norm_ok in H. rewrite forallb_forall in H. specialize (H f (all_flags_complete f)).
  destruct (sym_filename f tpl) as [r|] eqn:E; [|discriminate].
  destruct (get_filename_sound sg f tpl r Hv E) as [-> Hg]. unfold normalised. now apply sym_norm_sound.
Qed.
